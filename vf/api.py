"""Check-author API: Violation, Ctx, sub-check kinds.

A check module (checks/cNN.py) defines

    PROPERTY   = "C19"
    LEVEL      = "exploration" | "fault_enumeration"
    RULE       = "<how cases are generated and what makes one non-trivial>"
    ASSUMPTIONS = [...]
    def subs(tier) -> list[Sub]

Every sub-check has a ``check(case, ctx)`` function that receives a JSON-able
case, calls ``ctx.note(...)`` exactly once to classify it, and raises
``Violation`` when the oracle disagrees with the code under test.
"""
from __future__ import annotations

import hashlib
import json
import os
import shutil
import tempfile
import time
import traceback
from collections import Counter
from dataclasses import dataclass, field
from typing import Any, Callable, Iterable


class Violation(Exception):
    """The oracle disagrees with the implementation.

    signature: root-cause classifier computed from the failing case (used to
    match entries of known_findings.txt); message: human readable.
    """

    def __init__(self, signature: str, message: str, observed=None, expected=None):
        super().__init__(f"{signature}: {message}")
        self.signature = signature
        self.message = message
        self.observed = observed
        self.expected = expected


class HarnessError(Exception):
    pass


def canon(obj) -> str:
    return json.dumps(obj, sort_keys=True, default=repr, ensure_ascii=True)


def h64(s: str) -> int:
    return int.from_bytes(hashlib.blake2b(s.encode("utf8", "surrogatepass"), digest_size=8).digest(), "big")


@dataclass
class Sub:
    name: str
    check: Callable[[Any, "Ctx"], None]


@dataclass
class Generated(Sub):
    """cases drawn from a Hypothesis strategy (total count split over shards)"""

    strategy: Any = None
    quick: int = 500
    thorough: int = 20000
    budget_s_quick: float = 45.0
    budget_s_thorough: float = 800.0


@dataclass
class Enumerated(Sub):
    """cases from a deterministic finite enumeration; shard i takes every
    nshards-th case.  ``cases(tier)`` returns an iterable of JSON-able cases."""

    cases: Callable[[str], Iterable[Any]] = None
    exhaustive: bool = True
    budget_s_quick: float = 50.0
    budget_s_thorough: float = 800.0


@dataclass
class Custom(Sub):
    """a sub-check that drives itself: ``runner(ctx, tier)`` is called once per
    shard and must call ``ctx.run_case(sub, case)`` for each case it builds"""

    runner: Callable[["Ctx", str], None] = None


class Ctx:
    MAX_SAMPLES = 6

    def __init__(self, prop: str, tier: str, seed: int, shard: int, nshards: int, known: dict):
        self.prop = prop
        self.tier = tier
        self.seed = seed
        self.shard = shard
        self.nshards = nshards
        self.known = known  # signature -> entry
        self.evaluations = 0
        self.hashes: set[int] = set()
        self.classes: Counter = Counter()
        self.samples: list = []
        self.per_sub: dict[str, dict] = {}
        self.known_hits: Counter = Counter()
        self.excluded: Counter = Counter()
        self.skipped_budget = 0
        self.notes: Counter = Counter()
        self._scratch = None
        self._cur_sub = None
        self._noted = False

    # --- classification -------------------------------------------------
    def note(self, case, nontrivial: bool, classes: Iterable[str] = (), key: str | None = None):
        """classify the current case (call once per case)"""
        self._noted = True
        ps = self.per_sub[self._cur_sub]
        if nontrivial:
            hv = h64(self._cur_sub + "|" + (key if key is not None else canon(case)))
            if hv not in self.hashes:
                self.hashes.add(hv)
                ps["distinct_nontrivial"] += 1
                if len(ps["samples"]) < 2 and len(canon(case)) < 1500:
                    ps["samples"].append(case)
        for c in classes:
            self.classes[f"{self._cur_sub}:{c}"] += 1

    def exclude(self, reason: str):
        """count a case kept out of the oracle because it would hit a listed known finding"""
        self.excluded[reason] += 1

    def info(self, key: str, n: int = 1):
        self.notes[key] += n

    # --- scratch dir ----------------------------------------------------
    @property
    def scratch(self) -> str:
        if self._scratch is None:
            base = "/dev/shm" if os.path.isdir("/dev/shm") and os.access("/dev/shm", os.W_OK) else tempfile.gettempdir()
            self._scratch = tempfile.mkdtemp(prefix=f"vf_{self.prop}_{self.shard}_", dir=base)
        return self._scratch

    def cleanup(self):
        if self._scratch and os.path.isdir(self._scratch):
            shutil.rmtree(self._scratch, ignore_errors=True)
        self._scratch = None


def in_lib_frames(exc: BaseException, lib: str):
    """innermost traceback frame located in the library under test, or None"""
    tb = exc.__traceback__
    found = None
    for fs in traceback.extract_tb(tb):
        if fs.filename.startswith(lib):
            found = fs
    return found
