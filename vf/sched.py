"""E-SCHED: a deterministic scheduler for real threads (the harness owns the schedule).

Exactly one worker thread runs at a time (a baton implemented with per-thread
semaphores).  Pre-emption points are

* ``sys.settrace`` line events inside the target source files, and
* every operation on the shim ``Lock`` / ``RLock`` / ``Condition`` objects that
  replace ``threading`` in the target modules (so a blocking acquire parks the
  thread in the scheduler, never in the OS).

The schedule is data: ``preempt`` maps a global step number to a thread choice;
``picks`` is consumed whenever the running thread blocks or finishes.  Default
policy is run-until-block, so a schedule with few pre-emptions is short, shrinks
well and replays exactly.  Time is virtual: a timed ``Condition.wait`` expires
only when no thread is runnable (the clock then jumps to the earliest deadline).
"""
from __future__ import annotations

import sys
import threading as _real_threading
import time as _real_time


class Deadlock(Exception):
    pass


class SchedAbort(BaseException):
    """raised inside workers to unwind them when the run is being torn down"""


class Scheduler:
    def __init__(self, preempt=None, picks=None, target_files=(), max_steps=20000, on_step=None, opcode=False, on_timeout=None):
        self.preempt = dict(preempt or {})
        self.picks = list(picks or [])
        self.pick_i = 0
        self.target_files = tuple(target_files)
        self.max_steps = max_steps
        self.on_step = on_step
        self.on_timeout = on_timeout
        self.opcode = opcode
        self.clock = 1000.0
        self.step = 0
        self.threads = []  # _Worker
        self.current = None
        self.aborting = False
        self.errors = []
        self.trace_log = []  # (step, tid, where) of pre-emptions actually taken
        self.timeouts_fired = []  # (tid, clock, info)
        self.inside = {}  # tid -> depth of target-file frames
        self.contended_preemptions = 0
        self._main_gate = _real_threading.Semaphore(0)

    # ------------------------------------------------------------ shim factory
    def shim_threading(self):
        sched = self

        class _Shim:
            # attributes not overridden fall through to the real module
            def __getattr__(self, name):
                return getattr(_real_threading, name)

            def Lock(self):
                return SLock(sched, reentrant=False)

            def RLock(self):
                return SLock(sched, reentrant=True)

            def Condition(self, lock=None):
                return SCondition(sched, lock)

        return _Shim()

    def shim_time(self):
        sched = self

        class _T:
            def __getattr__(self, name):
                return getattr(_real_time, name)

            def time(self):
                return sched.clock

            def monotonic(self):
                return sched.clock

            def sleep(self, s):
                sched.sleep(s)

        return _T()

    def time_fn(self):
        return lambda: self.clock

    # ------------------------------------------------------------ workers
    def spawn(self, fn, name=None):
        w = _Worker(self, len(self.threads), fn, name)
        self.threads.append(w)
        return w

    def me(self):
        return getattr(_tls, "worker", None)

    def run(self):
        """run all spawned workers to completion under the schedule"""
        for w in self.threads:
            w.thread.start()
        first = self._choose([w for w in self.threads if w.state == "ready"])
        self.current = first
        first.gate.release()
        self._main_gate.acquire()  # released when every worker finished or on abort
        for w in self.threads:
            w.thread.join(timeout=10)
        alive = [w for w in self.threads if w.thread.is_alive()]
        if alive:
            self.errors.append(("harness", f"threads did not terminate: {[w.tid for w in alive]}"))

    # ------------------------------------------------------------ scheduling core
    def _runnable(self):
        return [w for w in self.threads if w.state == "ready"]

    def _choose(self, cands):
        if not cands:
            return None
        if self.pick_i < len(self.picks):
            c = cands[self.picks[self.pick_i] % len(cands)]
            self.pick_i += 1
            return c
        return cands[0]

    def yield_point(self, where=""):
        """possible pre-emption of the running thread"""
        w = self.me()
        if w is None or self.current is not w:
            return
        if self.aborting:
            raise SchedAbort()
        self.step += 1
        if self.step > self.max_steps:
            self._abort(("harness", f"step limit {self.max_steps} exceeded"))
            raise SchedAbort()
        if self.on_step is not None:
            try:
                self.on_step(self)
            except Exception as e:  # invariant violation observed at a scheduling step
                self._abort(("invariant", e))
                raise SchedAbort()
        choice = self.preempt.get(self.step)
        if choice is None:
            return
        others = [t for t in self._runnable() if t is not w]
        if not others:
            return
        nxt = others[choice % len(others)]
        if any(d > 0 for tid, d in self.inside.items() if tid != w.tid) and self.inside.get(w.tid, 0) > 0:
            self.contended_preemptions += 1
        self.trace_log.append((self.step, w.tid, nxt.tid, where))
        self._switch(w, nxt)

    def _switch(self, frm, to):
        """frm stays 'ready' (or whatever state it set) and parks; to runs"""
        self.current = to
        to.gate.release()
        frm.gate.acquire()
        if self.aborting:
            raise SchedAbort()

    def block(self, w, reason):
        """the running thread cannot proceed: park it until made ready again"""
        w.state = "blocked"
        w.blocked_on = reason
        self._dispatch_next(w)
        # resumed
        if self.aborting:
            raise SchedAbort()

    def _dispatch_next(self, w):
        nxt = self._choose(self._runnable())
        if nxt is None:
            nxt = self._fire_timeout()
        if nxt is None:
            live = [t for t in self.threads if t.state != "done"]
            if live and not self.aborting:
                self._abort(("deadlock", Deadlock("no runnable thread: " + ", ".join(f"T{t.tid}:{t.state}:{t.blocked_on}" for t in live))))
            if w.state != "done":
                raise SchedAbort()
            return
        if nxt is w:
            return
        self.current = nxt
        nxt.gate.release()
        if w.state != "done":
            w.gate.acquire()

    def _fire_timeout(self):
        timed = [t for t in self.threads if t.state == "blocked" and t.deadline is not None]
        if not timed:
            return None
        t = min(timed, key=lambda x: (x.deadline, x.tid))
        self.clock = max(self.clock, t.deadline)
        t.timed_out = True
        t.state = "ready"
        self.timeouts_fired.append((t.tid, self.clock, t.blocked_on))
        if self.on_timeout is not None:
            try:
                self.on_timeout(self, t)
            except Exception as e:
                self._abort(("invariant", e))
                return None
        return t

    def make_ready(self, t):
        if t.state == "blocked":
            t.state = "ready"
            t.deadline = None

    def finish(self, w):
        w.state = "done"
        if all(t.state == "done" for t in self.threads):
            self._main_gate.release()
            return
        self._dispatch_next(w)

    def _abort(self, err):
        if not self.aborting:
            self.aborting = True
            self.errors.append(err)
            for t in self.threads:
                if t.state != "done":
                    t.gate.release()
            self._main_gate.release()

    def sleep(self, s):
        w = self.me()
        if w is None:
            return
        w.deadline = self.clock + s
        w.timed_out = False
        self.block(w, "sleep")

    # ------------------------------------------------------------ tracing
    def _tracer(self, frame, event, arg):
        if event != "call":
            return None
        fn = frame.f_code.co_filename
        if not fn.endswith(self.target_files):
            return None
        w = self.me()
        if w is None:
            return None
        tid = w.tid
        self.inside[tid] = self.inside.get(tid, 0) + 1
        if self.opcode:
            frame.f_trace_opcodes = True
        name = frame.f_code.co_name

        def local(frame, event, arg):
            if event == "line" or event == "opcode":
                self.yield_point(f"{name}:{frame.f_lineno}")
            elif event == "return":
                self.inside[tid] = self.inside.get(tid, 1) - 1
            return local

        return local


_tls = _real_threading.local()


class _Worker:
    def __init__(self, sched, tid, fn, name):
        self.sched = sched
        self.tid = tid
        self.fn = fn
        self.name = name or f"T{tid}"
        self.state = "ready"
        self.blocked_on = None
        self.deadline = None
        self.timed_out = False
        self.gate = _real_threading.Semaphore(0)
        self.result = None
        self.exc = None
        self.thread = _real_threading.Thread(target=self._main, name=self.name, daemon=True)

    def _main(self):
        _tls.worker = self
        self.gate.acquire()
        sched = self.sched
        try:
            if sched.aborting:
                return
            sys.settrace(sched._tracer)
            try:
                self.result = self.fn(self)
            finally:
                sys.settrace(None)
        except SchedAbort:
            pass
        except BaseException as e:  # noqa
            self.exc = e
        finally:
            try:
                if not sched.aborting:
                    sched.finish(self)
                else:
                    self.state = "done"
            except SchedAbort:
                self.state = "done"


class SLock:
    """shim Lock/RLock: never blocks in the OS; contention parks the thread in the scheduler"""

    def __init__(self, sched, reentrant):
        self.sched = sched
        self.reentrant = reentrant
        self.owner = None
        self.count = 0
        self.waiters = []

    def acquire(self, blocking=True, timeout=-1):
        s = self.sched
        w = s.me()
        if w is None:  # used from the main thread outside a run
            self.owner = "main"
            self.count += 1
            return True
        s.yield_point("lock.acquire")
        while True:
            if self.owner is None or (self.reentrant and self.owner is w):
                self.owner = w
                self.count += 1
                return True
            if not blocking:
                return False
            self.waiters.append(w)
            w.deadline = (s.clock + timeout) if timeout is not None and timeout >= 0 else None
            w.timed_out = False
            s.block(w, "lock")
            if w in self.waiters:
                self.waiters.remove(w)
            if w.timed_out:
                return False

    def release(self):
        s = self.sched
        w = s.me()
        if self.count <= 0:
            raise RuntimeError("release unlocked lock")
        self.count -= 1
        if self.count == 0:
            self.owner = None
            for t in list(self.waiters):
                s.make_ready(t)
        if w is not None:
            s.yield_point("lock.release")

    def locked(self):
        return self.owner is not None

    __enter__ = acquire

    def __exit__(self, *a):
        self.release()

    # helpers for Condition
    def _release_save(self):
        st = (self.owner, self.count)
        self.owner, self.count = None, 0
        for t in list(self.waiters):
            self.sched.make_ready(t)
        return st

    def _acquire_restore(self, st):
        s = self.sched
        w = s.me()
        while self.owner is not None and self.owner is not w:
            self.waiters.append(w)
            w.deadline = None
            s.block(w, "lock(reacquire)")
            if w in self.waiters:
                self.waiters.remove(w)
        self.owner, self.count = st

    def _is_owned(self):
        return self.owner is self.sched.me() or (self.sched.me() is None and self.owner == "main")


class SCondition:
    def __init__(self, sched, lock=None):
        self.sched = sched
        self.lock = lock if lock is not None else SLock(sched, True)
        self.cwaiters = []
        self.acquire = self.lock.acquire
        self.release = self.lock.release

    def __enter__(self):
        return self.lock.__enter__()

    def __exit__(self, *a):
        return self.lock.__exit__(*a)

    def wait(self, timeout=None):
        s = self.sched
        w = s.me()
        if not self.lock._is_owned():
            raise RuntimeError("cannot wait on un-acquired lock")
        self.cwaiters.append(w)
        st = self.lock._release_save()
        w.deadline = (s.clock + timeout) if timeout is not None else None
        w.timed_out = False
        w.notified = False
        s.block(w, "cond.wait")
        got = not w.timed_out or getattr(w, "notified", False)
        if w in self.cwaiters:
            self.cwaiters.remove(w)
        self.lock._acquire_restore(st)
        return got

    def notify(self, n=1):
        if not self.lock._is_owned():
            raise RuntimeError("cannot notify on un-acquired lock")
        for t in list(self.cwaiters[:n]):
            self.cwaiters.remove(t)
            t.notified = True
            self.sched.make_ready(t)

    def notify_all(self):
        self.notify(len(self.cwaiters))


class patched:
    """context manager: replace module-level names (threading / time / _time) in target modules"""

    def __init__(self, sched, modules, time_modules=(), timefn_modules=()):
        self.sched = sched
        self.modules = modules
        self.time_modules = time_modules
        self.timefn_modules = timefn_modules
        self.saved = []

    def __enter__(self):
        shim = self.sched.shim_threading()
        for m in self.modules:
            self.saved.append((m, "threading", m.threading))
            m.threading = shim
        tshim = self.sched.shim_time()
        for m in self.time_modules:
            self.saved.append((m, "time", m.time))
            m.time = tshim
        for m, name in self.timefn_modules:
            self.saved.append((m, name, getattr(m, name)))
            setattr(m, name, self.sched.time_fn())
        return self

    def __exit__(self, *a):
        for m, name, val in reversed(self.saved):
            setattr(m, name, val)
