"""Small helpers shared by checks (engines, raw observers, statement capture)."""
from __future__ import annotations

import itertools
import os
import sqlite3

_counter = itertools.count()


def mem_engine(**kw):
    """in-memory SQLite engine (StaticPool, one DBAPI connection), non-legacy
    transaction control (SAVEPOINT/SELECT begin a transaction as on other
    backends; see dialects/sqlite/base.py 'Serializable isolation / Savepoints')"""
    from sqlalchemy import create_engine
    from sqlalchemy.pool import StaticPool

    connect_args = kw.pop("connect_args", {})
    connect_args.setdefault("autocommit", False)
    return create_engine("sqlite://", poolclass=kw.pop("poolclass", StaticPool), connect_args=connect_args, **kw)


def file_engine(ctx, name=None, **kw):
    """file-backed SQLite engine under the shard's scratch dir (so an
    independent raw connection can observe committed state)"""
    from sqlalchemy import create_engine

    path = os.path.join(ctx.scratch, name or f"db_{next(_counter)}.sqlite")
    connect_args = kw.pop("connect_args", {})
    connect_args.setdefault("autocommit", False)
    connect_args.setdefault("timeout", 0.2)
    eng = create_engine(f"sqlite:///{path}", connect_args=connect_args, **kw)
    eng._vf_path = path
    return eng


def raw_connect(path):
    """independent observer connection (autocommit: sees only committed data)"""
    return sqlite3.connect(path, isolation_level=None, timeout=0.2)


def remove_db(eng):
    eng.dispose()
    p = getattr(eng, "_vf_path", None)
    if p:
        for suffix in ("", "-journal", "-wal", "-shm"):
            try:
                os.unlink(p + suffix)
            except FileNotFoundError:
                pass


class Capture:
    """records (statement, parameters) seen at the cursor via before_cursor_execute"""

    def __init__(self, engine):
        from sqlalchemy import event

        self.rows = []
        self._engine = engine
        self._fn = self._on
        event.listen(engine, "before_cursor_execute", self._fn)

    def _on(self, conn, cursor, statement, parameters, context, executemany):
        self.rows.append((statement, parameters, executemany))

    def clear(self):
        del self.rows[:]

    def close(self):
        from sqlalchemy import event

        event.remove(self._engine, "before_cursor_execute", self._fn)
