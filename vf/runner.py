"""Runner: shards a property's sub-checks over worker processes, merges
counters, writes evidence, prints VIOLATION / KNOWN-FINDING lines.

exit 0  property held on everything explored (known findings only)
exit 1  an unlisted violation (line "VIOLATION property=<id> replay=<path>")
exit 2  harness error (never reported as a violation)
"""
from __future__ import annotations

import argparse
import hashlib
import importlib
import json
import multiprocessing as mp
import os
import sys
import time
import traceback
from collections import Counter

VERIF = os.path.dirname(os.path.dirname(os.path.abspath(__file__)))
if VERIF not in sys.path:
    sys.path.insert(0, VERIF)

from vf import api  # noqa: E402

KNOWN_FILE = os.path.join(VERIF, "known_findings.txt")


# ---------------------------------------------------------------- known findings
def load_known(prop: str):
    """returns (known: signature->entry, fixed: list of entries) for the property"""
    known, fixed = {}, []
    if not os.path.exists(KNOWN_FILE):
        return known, fixed
    for line in open(KNOWN_FILE, encoding="utf8"):
        line = line.strip()
        if not line or line.startswith("#"):
            continue
        if line.startswith("known:"):
            head, _, what = line[len("known:"):].partition(" -- ")
            kv = dict(tok.split("=", 1) for tok in head.split() if "=" in tok)
            if kv.get("property") == prop:
                known[kv["signature"]] = {"signature": kv["signature"], "replay": kv.get("replay"), "what": what.strip()}
        elif line.startswith("fixed:"):
            toks = line[len("fixed:"):].split()
            kv = {}
            for tok in toks:
                if "=" in tok:
                    k, val = tok.split("=", 1)
                    if k in ("property", "signature", "replay"):
                        kv.setdefault(k, val)
            if kv.get("property") == prop:
                fixed.append({"line": line, "replay": kv.get("replay"), "signature": kv.get("signature")})
    return known, fixed


# ---------------------------------------------------------------- per-shard work
def _load_module(prop: str):
    return importlib.import_module(f"checks.{prop.lower()}")


def _run_case(sub, case, ctx, lib):
    """run one case; returns None or a Violation (unlisted)"""
    ctx._noted = False
    ctx.evaluations += 1
    ctx.per_sub[sub.name]["evaluations"] += 1
    try:
        sub.check(case, ctx)
    except api.Violation as v:
        if v.signature in ctx.known:
            ctx.known_hits[v.signature] += 1
            return None
        return v
    except api.HarnessError:
        raise
    except Exception as e:  # noqa
        fs = api.in_lib_frames(e, lib)
        if fs is None:
            raise
        sig = f"crash/{type(e).__name__}/{os.path.basename(fs.filename)}:{fs.name}"
        v = api.Violation(sig, f"unexpected {type(e).__name__}: {e}", observed="".join(traceback.format_exception(e))[-3000:])
        if sig in ctx.known:
            ctx.known_hits[sig] += 1
            return None
        return v
    return None


def _shard_main(args):
    prop, tier, seed, shard, nshards, only_sub = args
    os.environ.setdefault("PYTHONHASHSEED", "0")
    from vf import purehook

    build = purehook.install()
    lib = purehook.LIB
    known, _fixed = load_known(prop)
    ctx = api.Ctx(prop, tier, seed, shard, nshards, known)
    ctx._run_case_impl = lambda sub, case: _run_case(sub, case, ctx, lib)
    out = {"violations": [], "error": None, "build": build}
    t0 = time.time()
    try:
        if os.environ.get("VERIF_DEBUG_STACKS"):
            import faulthandler

            faulthandler.dump_traceback_later(float(os.environ["VERIF_DEBUG_STACKS"]), repeat=True, file=open(f"/tmp/vf_stacks_{os.getpid()}.txt", "w"))
        mod = _load_module(prop)
        subs = mod.subs(tier)
        # overall wall budget of one check (all sub-checks together): each sub gets at most an equal share of it
        total_budget = float(os.environ.get("VERIF_BUDGET_S", "150" if tier == "quick" else "720"))
        nsel = max(1, len([s_ for s_ in subs if not only_sub or s_.name == only_sub]))
        for sub in subs:
            share = total_budget / nsel
            if hasattr(sub, "budget_s_quick"):
                if "VERIF_BUDGET_S" in os.environ:
                    # an explicit budget replaces the per-sub defaults (used to finish a full case count on a loaded machine)
                    sub.budget_s_quick = sub.budget_s_thorough = share
                else:
                    sub.budget_s_quick = min(sub.budget_s_quick, share)
                    sub.budget_s_thorough = min(sub.budget_s_thorough, share)
            if only_sub and sub.name != only_sub:
                continue
            ctx._cur_sub = sub.name
            ctx.per_sub[sub.name] = {"evaluations": 0, "distinct_nontrivial": 0, "samples": [], "kind": type(sub).__name__, "wall_s": 0.0}
            ts = time.time()
            v = None
            if isinstance(sub, api.Generated):
                v = _run_generated(sub, ctx, tier, lib)
            elif isinstance(sub, api.Enumerated):
                v = _run_enumerated(sub, ctx, tier, lib)
            elif isinstance(sub, api.Custom):
                v = _run_custom(sub, ctx, tier, lib)
            else:
                raise api.HarnessError(f"unknown sub kind {sub!r}")
            ctx.per_sub[sub.name]["wall_s"] = round(time.time() - ts, 2)
            if v is not None:
                case, viol = v
                out["violations"].append(
                    {"sub": sub.name, "case": case, "signature": viol.signature, "message": viol.message[:2000],
                     "observed": _trunc(viol.observed), "expected": _trunc(viol.expected)}
                )
    except Exception:
        out["error"] = traceback.format_exc()
    finally:
        ctx.cleanup()
    out.update(
        evaluations=ctx.evaluations,
        hashes=ctx.hashes,
        classes=dict(ctx.classes),
        per_sub=ctx.per_sub,
        known_hits=dict(ctx.known_hits),
        excluded=dict(ctx.excluded),
        skipped_budget=ctx.skipped_budget,
        notes=dict(ctx.notes),
        wall=time.time() - t0,
    )
    return out


def _trunc(x, n=3000):
    if x is None:
        return None
    s = x if isinstance(x, str) else api.canon(x)
    return s[:n]


def _share(total: int, shard: int, nshards: int) -> int:
    base = total // nshards
    return base + (1 if shard < total % nshards else 0)


def _run_generated(sub, ctx, tier, lib):
    total = sub.quick if tier == "quick" else sub.thorough
    n = _share(total, ctx.shard, ctx.nshards)
    if n <= 0:
        return None
    budget = sub.budget_s_quick if tier == "quick" else sub.budget_s_thorough
    t_end = time.time() + budget
    failing = {}
    sub_seed = (ctx.seed * 1000 + ctx.shard) * 131 + (api.h64(sub.name) % 10007)
    # the run is split into chunks (own derived seed each) so that the time budget can stop generation
    # between chunks; within a chunk an exceeded budget turns the remaining examples into no-ops
    chunk = min(n, 250)
    done = 0
    k = 0
    while done < n:
        if time.time() > t_end:
            ctx.skipped_budget += n - done
            break
        m = min(chunk, n - done)
        v = _run_chunk(sub, ctx, m, sub_seed * 1009 + k, t_end, failing)
        if v is not None:
            return v
        done += m
        k += 1
    return None


def _run_chunk(sub, ctx, n, seed, t_end, failing):
    import hypothesis
    from hypothesis import HealthCheck, Phase, given, settings

    @hypothesis.seed(seed)
    @settings(
        max_examples=n,
        database=None,
        deadline=None,
        derandomize=False,
        report_multiple_bugs=False,
        suppress_health_check=list(HealthCheck),
        phases=[Phase.generate, Phase.shrink],
        print_blob=False,
    )
    @given(sub.strategy)
    def prop_test(case):
        now = time.time()
        if now > t_end and ("v" not in failing or now > t_end + 20):
            # past the time budget: stop evaluating (a found failure keeps 20 s to shrink)
            ctx.skipped_budget += 1
            return
        v = ctx._run_case_impl(sub, case)
        if v is not None:
            failing["case"] = case
            failing["v"] = v
            raise v

    try:
        prop_test()
    except api.Violation:
        return failing["case"], failing["v"]
    except hypothesis.errors.Flaky as e:  # non-deterministic oracle == harness problem, unless a violation was seen
        if "v" in failing:
            return failing["case"], failing["v"]
        raise api.HarnessError(f"flaky: {e}")
    return None


def _run_enumerated(sub, ctx, tier, lib):
    budget = sub.budget_s_quick if tier == "quick" else sub.budget_s_thorough
    t_end = time.time() + budget
    complete = True
    mine = 0
    for i, case in enumerate(sub.cases(tier)):
        if i % ctx.nshards != ctx.shard:
            continue
        mine += 1
        if (mine & 0x3F) == 0 and time.time() > t_end:
            complete = False
            ctx.skipped_budget += 1
            break
        v = ctx._run_case_impl(sub, case)
        if v is not None:
            return case, v
    ctx.per_sub[sub.name]["complete"] = complete
    return None


def _run_custom(sub, ctx, tier, lib):
    found = []

    def run_case(case):
        v = ctx._run_case_impl(sub, case)
        if v is not None:
            found.append((case, v))
            return v
        return None

    ctx.run_case = run_case
    sub.runner(ctx, tier)
    return found[0] if found else None


# ---------------------------------------------------------------- replay of pinned findings
def _replay_one(prop, sub_name, case, known):
    """runs in a child; returns dict(status=pass|violation, signature, message)"""
    from vf import purehook

    purehook.install()
    lib = purehook.LIB
    ctx = api.Ctx(prop, "quick", 0, 0, 1, {})
    mod = _load_module(prop)
    try:
        for sub in mod.subs("quick"):
            if sub.name == sub_name:
                ctx._cur_sub = sub.name
                ctx.per_sub[sub.name] = {"evaluations": 0, "distinct_nontrivial": 0, "samples": []}
                v = _run_case(sub, case, ctx, lib)
                if v is None:
                    return {"status": "pass"}
                return {"status": "violation", "signature": v.signature, "message": v.message[:1500], "observed": _trunc(v.observed), "expected": _trunc(v.expected)}
        return {"status": "error", "message": f"no sub {sub_name}"}
    except Exception:
        return {"status": "error", "message": traceback.format_exc()}
    finally:
        ctx.cleanup()


def _replay_child(args):
    return _replay_one(*args)


def save_replay(prop, v, seed, tier):
    d = os.path.join(VERIF, "replays", prop)
    os.makedirs(d, exist_ok=True)
    body = {"property": prop, "sub": v["sub"], "seed": seed, "tier": tier, "case": v["case"], "signature": v["signature"],
            "message": v["message"], "observed": v.get("observed"), "expected": v.get("expected")}
    blob = json.dumps(body, indent=1, sort_keys=True, default=repr)
    sha = hashlib.sha1(api.canon([v["sub"], v["case"]]).encode()).hexdigest()[:12]
    path = os.path.join(d, f"{sha}.json")
    with open(path, "w") as f:
        f.write(blob)
    return path


# ---------------------------------------------------------------- main
def main(argv=None):
    ap = argparse.ArgumentParser()
    ap.add_argument("property")
    ap.add_argument("--tier", default=os.environ.get("VERIF_TIER", "quick"), choices=["quick", "thorough"])
    ap.add_argument("--replay", default=None)
    ap.add_argument("--shards", type=int, default=int(os.environ.get("VERIF_SHARDS", "0")))
    ap.add_argument("--sub", default=None, help="run only this sub-check (development aid; evidence not written)")
    ap.add_argument("--no-evidence", action="store_true")
    a = ap.parse_args(argv)
    prop = a.property.upper()
    seed = int(os.environ.get("VERIF_SEED", "1"))
    t0 = time.time()
    try:
        return _main(prop, a, seed, t0)
    except Exception:
        traceback.print_exc()
        print(f"HARNESS-ERROR property={prop}")
        return 2


def _main(prop, a, seed, t0):
    ctxm = mp.get_context("fork")
    known, fixed = load_known(prop)

    if a.replay:
        body = json.load(open(a.replay))
        with ctxm.Pool(1) as pool:
            r = pool.apply(_replay_child, ((prop, body["sub"], body["case"], known),))
        if r["status"] == "pass":
            print(f"replay passes: property={prop} sub={body['sub']}")
            return 0
        if r["status"] == "error":
            print(r["message"])
            return 2
        if r["signature"] in known:
            print(f"KNOWN-FINDING: property={prop} {r['signature']} -- {known[r['signature']]['what']}")
            return 0
        print(f"{r['signature']}: {r['message']}")
        print(f"VIOLATION property={prop} replay={os.path.abspath(a.replay)}")
        return 1

    nshards = a.shards or min(16, os.cpu_count() or 4)
    mod_for_meta = None
    # metadata is read in a child too (the parent never imports sqlalchemy)
    with ctxm.Pool(1) as pool:
        meta = pool.apply(_meta_child, (prop,))
    if meta.get("error"):
        print(meta["error"])
        print(f"HARNESS-ERROR property={prop}")
        return 2

    violations = []
    known_lines = []
    # 1. pinned replays of listed findings (known must still fail to print its line; fixed must pass)
    pinned = []
    for sig, ent in known.items():
        if ent.get("replay"):
            pinned.append(("known", sig, ent))
    for ent in fixed:
        if ent.get("replay"):
            pinned.append(("fixed", ent.get("signature"), ent))
    pinned_results = []
    if pinned:
        jobs = []
        for kind, sig, ent in pinned:
            body = json.load(open(os.path.join(VERIF, ent["replay"])))
            jobs.append((prop, body["sub"], body["case"], known))
        with ctxm.Pool(min(len(jobs), 8)) as pool:
            results = pool.map(_replay_child, jobs)
        for (kind, sig, ent), job, r in zip(pinned, jobs, results):
            pinned_results.append({"kind": kind, "signature": sig, "status": r["status"], "got": r.get("signature")})
            if r["status"] == "error":
                print(r["message"])
                print(f"HARNESS-ERROR property={prop} (pinned replay {ent['replay']})")
                return 2
            if kind == "known":
                if r["status"] == "violation" and r["signature"] == sig:
                    known_lines.append(f"KNOWN-FINDING: property={prop} {sig} -- {ent['what']}")
                elif r["status"] == "violation":
                    violations.append({"sub": job[1], "case": job[2], "signature": r["signature"], "message": r["message"],
                                       "observed": r.get("observed"), "expected": r.get("expected")})
                # passes now: finding no longer reproduces -> no line, nothing suppressed
            else:  # fixed entries suppress nothing: the replay must pass
                if r["status"] == "violation":
                    violations.append({"sub": job[1], "case": job[2], "signature": r["signature"], "message": r["message"],
                                       "observed": r.get("observed"), "expected": r.get("expected")})

    # 2. sharded search
    jobs = [(prop, a.tier, seed, i, nshards, a.sub) for i in range(nshards)]
    with ctxm.Pool(nshards) as pool:
        outs = pool.map(_shard_main, jobs, chunksize=1)

    errors = [o["error"] for o in outs if o["error"]]
    if errors:
        print(errors[0])
        print(f"HARNESS-ERROR property={prop} ({len(errors)} shard(s) failed)")
        return 2

    evaluations = sum(o["evaluations"] for o in outs)
    hashes = set()
    classes = Counter()
    known_hits = Counter()
    excluded = Counter()
    notes = Counter()
    per_sub = {}
    skipped = 0
    for o in outs:
        hashes |= o["hashes"]
        classes.update(o["classes"])
        known_hits.update(o["known_hits"])
        excluded.update(o["excluded"])
        notes.update(o["notes"])
        skipped += o["skipped_budget"]
        for name, ps in o["per_sub"].items():
            d = per_sub.setdefault(name, {"evaluations": 0, "distinct_nontrivial": 0, "samples": [], "kind": ps.get("kind"), "wall_s": 0.0, "complete": True})
            d["evaluations"] += ps["evaluations"]
            d["distinct_nontrivial"] += ps["distinct_nontrivial"]  # upper bound; global distinct is len(hashes)
            d["wall_s"] = max(d["wall_s"], ps.get("wall_s", 0.0))
            if ps.get("complete") is False:
                d["complete"] = False
            if len(d["samples"]) < 2:
                d["samples"].extend(ps["samples"][: 2 - len(d["samples"])])
        violations.extend(o["violations"])

    # de-duplicate violations by signature (count root causes, not inputs)
    by_sig = {}
    for v in violations:
        by_sig.setdefault(v["signature"], v)
    for sig in known_hits:
        line = f"KNOWN-FINDING: property={prop} {sig} -- {known[sig]['what']}"
        if line not in known_lines:
            known_lines.append(line)

    samples = []
    for name, d in per_sub.items():
        for s in d["samples"]:
            samples.append({"sub": name, "case": s})
    exhaustive_subs = [n for n, d in per_sub.items() if d.get("kind") == "Enumerated" and d.get("complete", True)]
    wall = time.time() - t0
    ev = {
        "property_id": prop,
        "tier": a.tier,
        "seed": seed,
        "level": meta["level"],
        "coverage": {
            "evaluations": evaluations,
            "distinct_nontrivial": len(hashes),
            "rule": meta["rule"],
            "samples": samples[:12],
            "per_sub": {n: {k: v for k, v in d.items() if k != "samples"} for n, d in per_sub.items()},
            "class_histogram": dict(sorted(classes.items())),
            "excluded_by_construction": dict(excluded),
            "known_finding_hits": dict(known_hits),
            "pinned_replays": pinned_results,
            "skipped_after_time_budget": skipped,
            "exhaustively_enumerated_subs": exhaustive_subs,
            "notes": dict(notes),
            "shards": nshards,
            "build": outs[0]["build"],
            "repo": os.environ.get("VERIF_REPO", "/repo"),
        },
        "assumptions": meta["assumptions"],
        "wall_s": round(wall, 2),
        "violations": len(by_sig),
    }
    for line in known_lines:
        print(line)
    rc = 0
    for sig, v in by_sig.items():
        path = save_replay(prop, v, seed, a.tier)
        print(f"{sig}: {v['message'][:600]}")
        print(f"VIOLATION property={prop} replay={path}")
        rc = 1
    if not a.sub and not a.no_evidence:
        _write_evidence(prop, ev)
    print(f"{prop} {a.tier}: evaluations={evaluations} distinct_nontrivial={len(hashes)} known_hits={sum(known_hits.values())} "
          f"violations={len(by_sig)} skipped_budget={skipped} wall={wall:.1f}s")
    if rc == 0 and not a.sub and (evaluations < 1 or len(hashes) < 2):
        print(f"HARNESS-ERROR property={prop}: vacuous run (evaluations={evaluations}, nontrivial={len(hashes)})")
        return 2
    return rc


def _meta_child(prop):
    try:
        from vf import purehook

        purehook.install()
        mod = _load_module(prop)
        return {"level": getattr(mod, "LEVEL", "exploration"), "rule": mod.RULE, "assumptions": list(getattr(mod, "ASSUMPTIONS", []))}
    except Exception:
        return {"error": traceback.format_exc()}


def _write_evidence(prop, ev):
    d = os.path.join(VERIF, "evidence")
    os.makedirs(d, exist_ok=True)
    cov = ev["coverage"]
    assert isinstance(cov["samples"], list)
    if not cov["samples"]:
        cov["samples"] = ["(no non-trivial sample small enough to print)"]
    path = os.path.join(d, f"{prop}.json")
    tmp = path + ".tmp"
    with open(tmp, "w") as f:
        json.dump(ev, f, indent=1, sort_keys=True, default=repr)
    os.replace(tmp, path)


if __name__ == "__main__":
    sys.exit(main())
