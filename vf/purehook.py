"""Import SQLAlchemy from the working tree, by default in pure-Python mode.

Cython is not installed in this sandbox, so the prebuilt ``*_cy*.so`` extension
modules cannot be rebuilt from an edited tree.  ``install()`` puts
``$VERIF_REPO/lib`` first on ``sys.path`` and (unless ``VERIF_BUILD=compiled``)
installs a ``sys.meta_path`` finder that resolves every ``sqlalchemy.**._*_cy``
module to its ``.py`` source, so that the code under test is always the current
working tree.
"""
from __future__ import annotations

import importlib.abc
import importlib.util
import os
import sys

REPO = os.environ.get("VERIF_REPO", "/repo")
LIB = os.path.join(REPO, "lib")


class _PureCyFinder(importlib.abc.MetaPathFinder):
    def find_spec(self, fullname, path=None, target=None):
        if not fullname.startswith("sqlalchemy.") or not fullname.endswith("_cy"):
            return None
        rel = fullname.split(".")
        py = os.path.join(LIB, *rel) + ".py"
        if not os.path.exists(py):
            return None
        return importlib.util.spec_from_file_location(fullname, py)


_installed = False


def install(build: str | None = None) -> str:
    """returns the build mode actually installed ("pure" or "compiled")"""
    global _installed
    build = build or os.environ.get("VERIF_BUILD", "pure")
    if _installed:
        return build
    if "sqlalchemy" in sys.modules:
        raise RuntimeError("purehook.install() must run before sqlalchemy import")
    if LIB in sys.path:
        sys.path.remove(LIB)
    sys.path.insert(0, LIB)
    if build == "pure":
        sys.meta_path.insert(0, _PureCyFinder())
    _installed = True
    import sqlalchemy  # noqa

    got = os.path.realpath(os.path.dirname(sqlalchemy.__file__))
    want = os.path.realpath(os.path.join(LIB, "sqlalchemy"))
    if got != want:
        raise RuntimeError(f"sqlalchemy imported from {got}, wanted {want}")
    from sqlalchemy.util import has_compiled_ext

    if build == "pure" and has_compiled_ext():
        raise RuntimeError("pure hook did not take effect")
    return build
