"""Recording + fault-injecting DBAPI and a minimal dialect that uses it.

    from vf import fakedb
    db = fakedb.FakeDB()                    # one ledger / fault plan per case
    eng = db.engine(pool_size=2, max_overflow=1, pool_pre_ping=True)

``db.plan[(site, k)] = "disconnect" | "error"`` makes the k-th (0-based) call of
``site`` raise.  Sites: connect, cursor, execute, commit, rollback, close, ping.
``db.log`` is the global call log [(conn_id, site, detail)], ``db.conns`` the
ledger of every connection ever opened (``.closed``, ``.close_attempted``,
``.in_txn``, ``.dead``).  A connection marked dead raises a disconnect error on
every later call (as a dropped socket would).

The recording trick for *real* dialects (psycopg2, pymysql, ...) is separate:
``create_engine(url, creator=lambda: fakeconn, _initialize=False)``; see
``recording_engine``.
"""
from __future__ import annotations

import itertools


class Error(Exception):
    pass


class InterfaceError(Error):
    pass


class DatabaseError(Error):
    pass


class OperationalError(DatabaseError):
    pass


class IntegrityError(DatabaseError):
    pass


class ProgrammingError(DatabaseError):
    pass


class DisconnectError(OperationalError):
    """classified as a disconnect by FakeDialect.is_disconnect"""


class FakeCursor:
    arraysize = 1

    def __init__(self, conn):
        self.conn = conn
        self.connection = conn  # psycopg2-style back reference
        self.description = None
        self.rowcount = -1
        self._rows = []
        self.closed = False
        self.lastrowid = None

    def _run(self, statement, parameters, many):
        db = self.conn.db
        self.conn._call("execute", (statement, parameters, many))
        st = statement.lstrip().lower()
        self.conn.statements.append((statement, parameters, many))
        if st.startswith(("insert", "update", "delete", "savepoint", "release", "rollback to", "create", "drop")) or st.startswith("begin"):
            self.conn.in_txn = True
        rows = db.result_for(statement, parameters) if db.result_for else None
        if rows is not None:
            desc, data = rows
            self.description = [(d, None, None, None, None, None, None) for d in desc]
            self._rows = list(data)
            self.rowcount = len(self._rows)
        elif st.startswith("select") or " returning " in st:
            self.description = [("x", None, None, None, None, None, None)]
            self._rows = [(1,)]
            self.rowcount = 1
        else:
            self.description = None
            self._rows = []
            self.rowcount = 1

    def execute(self, statement, parameters=None):
        self._run(statement, parameters, False)
        return self

    def executemany(self, statement, seq):
        self._run(statement, list(seq), True)
        return self

    def fetchone(self):
        return self._rows.pop(0) if self._rows else None

    def fetchmany(self, size=None):
        size = size or self.arraysize
        out, self._rows = self._rows[:size], self._rows[size:]
        return out

    def fetchall(self):
        out, self._rows = self._rows, []
        return out

    def close(self):
        self.closed = True

    def setinputsizes(self, *a):
        pass

    def setoutputsize(self, *a):
        pass

    def __iter__(self):
        return iter(self.fetchall())


class FakeConnection:
    def __init__(self, db, cid):
        self.db = db
        self.id = cid
        self.closed = False
        self.close_attempted = False
        self.dead = False
        self.in_txn = False
        self.autocommit = False
        self.isolation_level = "DEFAULT"
        self.statements = []
        self.opened_at = db.clock

    def _call(self, site, detail=None):
        db = self.db
        db.log.append((self.id, site, detail))
        if self.closed and site != "close":
            db.use_after_close.append((self.id, site, detail))
            raise InterfaceError(f"connection {self.id} already closed ({site})")
        k = db.counts[site]
        db.counts[site] += 1
        fault = db.plan.get((site, k))
        if self.dead and site != "close":
            db.use_of_dead.append((self.id, site, detail))
            raise DisconnectError(f"connection {self.id} is dead ({site})")
        if fault == "disconnect":
            self.dead = True
            db.injected.append((self.id, site, k, fault))
            raise DisconnectError(f"injected disconnect at {site}#{k} on connection {self.id}")
        if fault == "error":
            db.injected.append((self.id, site, k, fault))
            raise OperationalError(f"injected error at {site}#{k} on connection {self.id}")

    def cursor(self, *a, **kw):
        self._call("cursor")
        return FakeCursor(self)

    def commit(self):
        self._call("commit")
        self.in_txn = False

    def rollback(self):
        self._call("rollback")
        self.in_txn = False

    def close(self):
        self.close_attempted = True
        self._call("close")
        self.closed = True


class FakeDBAPIModule:
    paramstyle = "qmark"
    apilevel = "2.0"
    threadsafety = 1
    sqlite_version_info = (3, 40, 1)
    Error = Error
    InterfaceError = InterfaceError
    DatabaseError = DatabaseError
    OperationalError = OperationalError
    IntegrityError = IntegrityError
    ProgrammingError = ProgrammingError

    def __init__(self, db):
        self.db = db

    def connect(self, *a, **kw):
        return self.db.connect()


class FakeDB:
    def __init__(self):
        from collections import Counter

        self.conns: list[FakeConnection] = []
        self.log = []
        self.plan = {}
        self.counts = Counter()
        self.injected = []
        self.use_after_close = []
        self.use_of_dead = []
        self.clock = 0
        self.result_for = None
        self._ids = itertools.count()
        self.module = FakeDBAPIModule(self)

    def connect(self):
        k = self.counts["connect"]
        self.counts["connect"] += 1
        self.log.append((None, "connect", k))
        fault = self.plan.get(("connect", k))
        if fault == "disconnect":
            self.injected.append((None, "connect", k, fault))
            raise DisconnectError(f"injected disconnect at connect#{k}")
        if fault == "error":
            self.injected.append((None, "connect", k, fault))
            raise OperationalError(f"injected error at connect#{k}")
        c = FakeConnection(self, next(self._ids))
        self.conns.append(c)
        return c

    def open_connections(self):
        return [c for c in self.conns if not c.closed]

    def engine(self, **kw):
        from sqlalchemy import create_engine

        _register()
        return create_engine("vffake://", module=self.module, **kw)


_registered = False


def _register():
    global _registered
    if _registered:
        return
    from sqlalchemy.dialects import registry

    registry.register("vffake", "vf.fakedb", "FakeDialect")
    _registered = True


def _make_dialect():
    from sqlalchemy.engine import default

    class FakeDialect(default.DefaultDialect):
        name = "vffake"
        driver = "vffake"
        supports_statement_cache = True
        supports_native_boolean = True
        supports_sane_rowcount = True
        default_paramstyle = "qmark"
        supports_savepoints = True if hasattr(default.DefaultDialect, "supports_savepoints") else None

        @classmethod
        def import_dbapi(cls):
            raise RuntimeError("pass module=FakeDB().module to create_engine")

        def create_connect_args(self, url):
            return [], {}

        def is_disconnect(self, e, connection, cursor):
            return isinstance(e, DisconnectError)

        def do_ping(self, dbapi_connection):
            dbapi_connection._call("ping")
            return True

        def _get_server_version_info(self, connection):
            return (1, 0)

        def _get_default_schema_name(self, connection):
            return None

        def get_isolation_level_values(self, dbapi_connection):
            return ["READ COMMITTED", "SERIALIZABLE", "AUTOCOMMIT"]

        def set_isolation_level(self, dbapi_connection, level):
            dbapi_connection.db.log.append((dbapi_connection.id, "set_isolation_level", level))
            dbapi_connection.isolation_level = level
            dbapi_connection.autocommit = level == "AUTOCOMMIT"

        def get_isolation_level(self, dbapi_connection):
            return "READ COMMITTED"

        def get_default_isolation_level(self, dbapi_conn):
            return "READ COMMITTED"

        def initialize(self, connection):
            self.default_isolation_level = "READ COMMITTED"
            self.default_schema_name = None
            self.server_version_info = (1, 0)

    return FakeDialect


def __getattr__(name):
    if name == "FakeDialect":
        cls = _make_dialect()
        globals()["FakeDialect"] = cls
        return cls
    raise AttributeError(name)


# ---------------------------------------------------------------- recording engine for real dialects
class RecConn(FakeConnection):
    """a FakeConnection with the odd attributes real driver dialects poke at"""

    server_version = 150000
    encoding = "utf8"

    def __getattr__(self, name):
        if name.startswith("__"):
            raise AttributeError(name)
        # tolerate driver-specific setup calls (set_client_encoding, character_set_name, ...)
        def _f(*a, **kw):
            return None

        return _f


def recording_engine(url, **kw):
    """engine for a real dialect+driver whose DBAPI connection is a recorder;
    returns (engine, db) - db.conns[i].statements holds (statement, parameters, many)"""
    from sqlalchemy import create_engine

    db = FakeDB()

    def creator():
        c = RecConn(db, next(db._ids))
        db.conns.append(c)
        return c

    eng = create_engine(url, creator=creator, _initialize=False, **kw)
    return eng, db
