"""Per-property manifest metadata (what MANIFEST.json says about each registered check).

A property is registered as soon as REG has an entry and checks/<id>.py exists;
everything else is listed under not_applicable with the reason given in NOT_YET.
"""

REG = {
    "C19": dict(
        category="exploration",
        text="Exhaustive enumeration of every digraph on <=4 nodes incl. self-loops (quick) plus every loop-free digraph on 5 nodes (thorough), "
             "and Hypothesis-generated graphs of up to 40 nodes, each judged against a reachability-closure reference: permutation, every edge respected, "
             "antichain subsets, error iff cycle among the items, cycle set exact, order independent of item hashes. Generated-input search is the right level: "
             "the function is pure and the small-graph space is finite, so the quick tier is complete for n<=4.",
        note="Trusted: the reachability reference in checks/c19.py; CPython set iteration for the hash-perturbation half. Graphs above 5 nodes are sampled, not enumerated.",
        technique="exhaustive enumeration + Hypothesis generation against a reachability reference model",
        design_ref="DESIGN.md 4/C19",
    ),
    "C54": dict(
        category="exploration",
        text="Operation programs (<=30 ops, every argument kind) over OrderedSet, IdentitySet, immutabledict and LRUCache applied to the real object and to a "
             "plain-Python reference model after every step; exhaustive OrderedSet binary-op grid over {1,2,3} x argument lists <=3. Two confirmed defects are "
             "excluded by construction and replayed as pinned known findings.",
        note="Trusted: the reference models in checks/c54.py. Pure-Python build of the *_cy modules from the working tree (the prebuilt extension is exercised via VERIF_BUILD=compiled / C55).",
        technique="model-based program generation (Hypothesis) + exhaustive small grid, reference dict/set/list models",
        design_ref="DESIGN.md 4/C54",
    ),
}

# reason recorded under MANIFEST.not_applicable for properties without a registered check yet
NOT_YET = "check not built yet in this session (planned in DESIGN.md section 4; generated-input search applies)"
NOT_APPLICABLE = {}
