"""Manifest metadata lives in checks/<id>.meta.json (category, text, note, technique, design_ref).

NOT_APPLICABLE: properties deliberately not claimed, with the reason (see DESIGN.md section 6).
NOT_YET: reason recorded for properties whose check is not registered yet.
"""
NOT_APPLICABLE = {}
NOT_YET = "check not built yet in this session (planned in DESIGN.md section 4; generated-input search applies)"

# properties whose check has been reviewed (quiet at several seeds, mutation-sensitive) and is registered in MANIFEST.json
ENABLED = ["C01", "C06", "C07", "C08", "C09", "C12", "C13", "C16", "C18", "C19", "C20", "C22", "C25", "C38", "C43", "C49", "C52", "C54", "C56"]
