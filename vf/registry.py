"""Manifest metadata lives in checks/<id>.meta.json (category, text, note, technique, design_ref).

NOT_APPLICABLE: properties deliberately not claimed, with the reason (see DESIGN.md section 6).
NOT_YET: reason recorded for properties whose check is not registered yet.
"""
NOT_APPLICABLE = {}
NOT_YET = "check not built yet in this session (planned in DESIGN.md section 4; generated-input search applies)"

# properties whose check has been reviewed (quiet at several seeds, mutation-sensitive) and is registered in MANIFEST.json
ENABLED = ["C01", "C02", "C03", "C04", "C05", "C06", "C07", "C08", "C09", "C10", "C11", "C12", "C13", "C14", "C15", "C16", "C17", "C18", "C19", "C20", "C21", "C22", "C23", "C24", "C25", "C26", "C27", "C28", "C29", "C30", "C31", "C32", "C33", "C34", "C35", "C36", "C37", "C38", "C39", "C40", "C41", "C42", "C43", "C44", "C45", "C46", "C47", "C48", "C49", "C50", "C51", "C52", "C53", "C54", "C55", "C56"]
