# an object that has pending changes when it is deleted keeps a strong self-reference after the flush;
# with expire_on_commit=False its former children stay strongly referenced by the session for good
import gc, weakref
from sqlalchemy import Column, ForeignKey, Integer, String, create_engine
from sqlalchemy.orm import Session, declarative_base, relationship
Base = declarative_base()
class P(Base):
    __tablename__ = "p"; id = Column(Integer, primary_key=True); name = Column(String)
    children = relationship("C")
class C(Base):
    __tablename__ = "c"; id = Column(Integer, primary_key=True); p_id = Column(ForeignKey("p.id"))
e = create_engine("sqlite://"); Base.metadata.create_all(e)
s = Session(e, expire_on_commit=False); p = P(children=[C()]); s.add(p); s.commit()
wr = weakref.ref(p.children[0])
p.name = "x"; s.delete(p); s.commit()          # without the 'p.name = ...' line the child is released
del p; gc.collect()
print("child released:", wr() is None, " len(identity_map):", len(s.identity_map))   # False 1
