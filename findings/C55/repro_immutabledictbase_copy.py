# compiled: prints {} (items silently dropped); pure-Python build: TypeError: Sub object is immutable
import copy
from sqlalchemy.util._immutabledict_cy import ImmutableDictBase
class Sub(ImmutableDictBase):
    pass
print(dict(copy.copy(Sub({"a": 1}))))
