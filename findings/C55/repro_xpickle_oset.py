# step 1, in an installation WITHOUT the compiled extensions (built with DISABLE_SQLALCHEMY_CEXT=1; in /verif: vf.purehook.install("pure")):
#     import pickle; from sqlalchemy.util import OrderedSet; open("/tmp/os.pkl", "wb").write(pickle.dumps(OrderedSet([1, 2])))
# step 2, in an installation WITH the compiled extensions:
import pickle
print(pickle.load(open("/tmp/os.pkl", "rb")))   # AttributeError: 'sqlalchemy.util._collections_cy.OrderedSet' object has no attribute '_list'
