# run with the prebuilt extensions (plain /venv/bin/python): TypeError; with the pure-Python modules: [(1, 2)]
import collections
from sqlalchemy import create_engine, event, text
NT = collections.namedtuple("NT", "a b")
eng = create_engine("sqlite://")
@event.listens_for(eng, "connect")
def _c(dbapi_conn, rec):
    dbapi_conn.row_factory = lambda cur, row: NT(*row)
with eng.connect() as conn:
    print(conn.execute(text("select 1 as a, 2 as b")).all())   # compiled: TypeError: Expected tuple, got NT
