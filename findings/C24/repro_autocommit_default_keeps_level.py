import tempfile, os; _d = tempfile.mkdtemp()
import sqlalchemy as sa, os
p=f"{_d}/r24.db"
if os.path.exists(p): os.unlink(p)
eng = sa.create_engine(f"sqlite:///{p}", isolation_level="AUTOCOMMIT", pool_size=1, max_overflow=0, poolclass=sa.pool.QueuePool)
with eng.connect() as c:
    print("default:", c.exec_driver_sql("PRAGMA read_uncommitted").scalar(), c.get_isolation_level())
with eng.connect().execution_options(isolation_level="READ UNCOMMITTED") as c:
    pass
with eng.connect() as c:   # same pooled DBAPI connection, next user
    print("next user:", c.exec_driver_sql("PRAGMA read_uncommitted").scalar(), c.get_isolation_level(), "(expected 0 SERIALIZABLE)")
