# commit() fails at the DBAPI (SQLITE_BUSY); close() then returns the connection to the pool with its transaction open
import sqlite3, tempfile, sqlalchemy as sa
p = tempfile.mkdtemp() + "/t.db"
eng = sa.create_engine(f"sqlite:///{p}", connect_args={"timeout": 0.05}, poolclass=sa.pool.QueuePool, pool_size=1, max_overflow=0)
with eng.begin() as c: c.exec_driver_sql("create table t (x integer)"); c.exec_driver_sql("insert into t values (0)")
reader = sqlite3.connect(p, isolation_level=None); reader.execute("BEGIN"); reader.execute("select * from t").fetchall()   # holds a SHARED lock
conn = eng.connect()
conn.exec_driver_sql("insert into t values (1)")
try: conn.commit()
except sa.exc.OperationalError as e: print("commit failed:", e.orig)
conn.close()                        # documented: transactional state "unconditionally released via rollback()"
reader.execute("ROLLBACK")
with eng.connect() as nxt:          # next user, same pooled DBAPI connection
    raw = nxt.connection.dbapi_connection
    print("in_transaction at checkout:", raw.in_transaction)
    nxt.exec_driver_sql("insert into t values (2)"); nxt.commit()
print(sqlite3.connect(p).execute("select x from t").fetchall(), "expected [(0,), (2,)]")
