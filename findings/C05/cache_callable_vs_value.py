"""C02-type finding seen while building C05 (unchanged tree): a bindparam carrying a value and a
bindparam carrying callable_ have the same cache key; once the value form is cached, the callable
form of the same shape executes with None (the cached compiled's bindparam has no callable, so
construct_params() reads extracted.value instead of extracted.effective_value).
exit 1 = defect present."""
import sys
from sqlalchemy import Integer, bindparam, create_engine, select

e = create_engine("sqlite://")
with e.connect() as c:
    a = c.execute(select(bindparam("q", 5, type_=Integer))).scalar()
    b = c.execute(select(bindparam("q", callable_=lambda: 7, type_=Integer))).scalar()   # None, expected 7
e2 = create_engine("sqlite://")
with e2.connect() as c:
    b2 = c.execute(select(bindparam("q", callable_=lambda: 7, type_=Integer))).scalar()  # 7 (no cached value form)
print(a, b, b2)
sys.exit(0 if (a, b, b2) == (5, 7, 7) else 1)
