from sqlalchemy import Column, ForeignKey, Integer, create_engine
from sqlalchemy.orm import Session, declarative_base, relationship
Base = declarative_base()
class P(Base):
    __tablename__ = "p"; id = Column(Integer, primary_key=True)
    children = relationship("C", cascade="all, delete-orphan")
class C(Base):
    __tablename__ = "c"; id = Column(Integer, primary_key=True); p_id = Column(ForeignKey("p.id"))
    grandchildren = relationship("G", cascade="all, delete-orphan")
class G(Base):
    __tablename__ = "g"; id = Column(Integer, primary_key=True); c_id = Column(ForeignKey("c.id"))
e = create_engine("sqlite://"); Base.metadata.create_all(e)
s = Session(e); p = P(children=[C()]); s.add(p); s.commit()
c = p.children[0]
c.grandchildren.append(G())      # new, pending grandchild
p.children.remove(c)             # c becomes an orphan -> DELETE c, cascade to its grandchildren
s.flush()                        # FlushError: Can't delete from table g using NULL for primary key value
