# a pending child moved in one step between two parents whose collection is delete-orphan falls out of the session
from sqlalchemy import Column, ForeignKey, Integer, create_engine, text
from sqlalchemy.orm import Session, declarative_base, relationship
Base = declarative_base()
class P(Base):
    __tablename__ = "p"; id = Column(Integer, primary_key=True)
    children = relationship("C", back_populates="parent", cascade="all, delete-orphan")
class C(Base):
    __tablename__ = "c"; id = Column(Integer, primary_key=True); p_id = Column(ForeignKey("p.id"))
    parent = relationship("P", back_populates="children")
e = create_engine("sqlite://"); Base.metadata.create_all(e)
s = Session(e); p1, p2 = P(), P(); s.add_all([p1, p2]); s.commit(); p1.children, p2.children
c = C(); p1.children.append(c); assert c in s            # pending, cascaded in through p1
p2.children.append(c)                                     # re-parent in one step (same with: c.parent = p2)
print("in session:", c in s, " in p2.children:", c in p2.children)   # False True
s.flush(); print("rows in c:", s.execute(text("select count(*) from c")).scalar())  # 0 (+ SAWarning: not in session)
