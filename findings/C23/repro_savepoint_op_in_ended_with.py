import tempfile, os; _d = tempfile.mkdtemp()
# finding 3: savepoint.rollback() inside a `with` whose own transaction ended raises, ends the handle, emits nothing
import sqlalchemy as sa, sqlite3, warnings, os
warnings.simplefilter("ignore")
if os.path.exists(f"{_d}/r3.db"): os.unlink(f"{_d}/r3.db")
e = sa.create_engine(f"sqlite:///{_d}/r3.db", connect_args={"autocommit": False})
with e.begin() as c: c.execute(sa.text("create table t (x integer)"))
c = e.connect()
outer = c.begin_nested()
c.execute(sa.text("insert into t values (1)"))
with c.begin_nested() as inner:
    inner.rollback()
    try: outer.rollback()
    except sa.exc.InvalidRequestError as ex: print("raised:", str(ex)[:50])
print("outer.is_active", outer.is_active, "in_nested", c.in_nested_transaction())   # False False
outer.rollback()      # retry after completing the block: silent no-op
c.commit()
print(sqlite3.connect(f"{_d}/r3.db").execute("select x from t").fetchall(), "expected []")
