import tempfile, os; _d = tempfile.mkdtemp()
import warnings
import sqlalchemy as sa
from sqlalchemy import text, exc
eng = sa.create_engine(f"sqlite:///{_d}/t2.db", connect_args={"autocommit": False})
with eng.begin() as c:
    c.execute(text("drop table if exists t")); c.execute(text("create table t (x integer)"))
import sqlite3
obs = sqlite3.connect(f"{_d}/t2.db", isolation_level=None)
warnings.simplefilter("ignore")
c = eng.connect()
t1 = c.begin(); t1.commit()          # t1 is ended
c.execute(text("insert into t values (1)"))   # autobegin a new root
s = c.begin_nested()
c.execute(text("insert into t values (2)"))
t1.rollback()                         # stale handle: documented as harmless no-op
print("in_nested:", c.in_nested_transaction(), "s.is_active:", s.is_active)
s.rollback()                          # user rolls back the savepoint -> nothing emitted
c.commit()
print(sorted(r[0] for r in obs.execute("select x from t")), "expected [1]")
