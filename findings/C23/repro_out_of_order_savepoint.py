import tempfile, os; _d = tempfile.mkdtemp()
# finding 2: out-of-order savepoint rollback leaves the inner handle "active"
import sqlalchemy as sa, warnings, os
warnings.simplefilter("ignore")
if os.path.exists(f"{_d}/r2.db"): os.unlink(f"{_d}/r2.db")
e = sa.create_engine(f"sqlite:///{_d}/r2.db", connect_args={"autocommit": False})
with e.begin() as c: c.execute(sa.text("create table t (x integer)"))
c = e.connect()
s1 = c.begin_nested(); s2 = c.begin_nested()
s1.rollback()                                  # ROLLBACK TO s1 destroys s2 in the database
print(c.in_nested_transaction(), c.get_nested_transaction() is s2, s2.is_active)   # True True True
try: s2.commit()
except Exception as ex: print(type(ex).__name__, str(ex)[:60])          # OperationalError no such savepoint
try: c.execute(sa.text("insert into t values (1)"))
except Exception as ex: print(type(ex).__name__, str(ex)[:60])           # PendingRollbackError
