import sys; sys.path.insert(0, "/verif")
from vf import purehook; purehook.install()   # pure-Python build from /repo/lib (plain "import sqlalchemy" works as well)
from sqlalchemy import *
from sqlalchemy.orm import *
Base = registry().generate_base()
class P(Base):
    __tablename__ = "p"; name = Column(String, primary_key=True); val = Column(Integer)
e = create_engine("sqlite://", connect_args={"autocommit": False}); Base.metadata.create_all(e); s = Session(e)
p = P(name="A", val=1); s.add(p); s.commit()
p.name = "B"; s.flush()                        # key switch A -> B in the outer transaction
sp = s.begin_nested(); p.name = "C"; sp.commit()   # B -> C inside a savepoint that is released
s.rollback()                                   # everything is undone: the row is ('A', 1) again
print("identity key:", inspect(p).key[1], "| rows:", s.execute(text("select name from p")).all())   # ('B',) vs [('A',)]
try: p.val = 2; s.commit(); print("commit ok")
except Exception as ex: print("next use fails:", type(ex).__name__, str(ex)[:90])
