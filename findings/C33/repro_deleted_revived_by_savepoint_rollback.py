import sys; sys.path.insert(0, "/verif")
from vf import purehook; purehook.install()   # pure-Python build from /repo/lib (plain "import sqlalchemy" works as well)
from sqlalchemy import *
from sqlalchemy.orm import *
Base = registry().generate_base()
class Parent(Base):
    __tablename__ = "parent"; id = Column(Integer, primary_key=True)
    children = relationship("Child", cascade="all, delete-orphan")
class Child(Base):
    __tablename__ = "child"; id = Column(Integer, primary_key=True); pid = Column(ForeignKey("parent.id"))
e = create_engine("sqlite://", connect_args={"autocommit": False}); Base.metadata.create_all(e); s = Session(e)
c = Child(); p = Parent(children=[c]); s.add(p); s.commit(); p.children      # collection loaded
s.delete(c); sp = s.begin_nested()    # DELETE of c is flushed before the SAVEPOINT
s.delete(p); sp.rollback()            # cascade walked the loaded collection (still holding c); rollback must only undo delete(p)
print(inspect(c).persistent, c in s, s.execute(text("select count(*) from child")).scalar())   # True True 0 ; expected False False 0
