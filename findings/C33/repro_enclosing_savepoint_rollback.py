import sys; sys.path.insert(0, "/verif")
from vf import purehook; purehook.install()   # pure-Python build from /repo/lib (plain "import sqlalchemy" works as well)
from sqlalchemy import *
from sqlalchemy.orm import *
Base = registry().generate_base()
class P(Base):
    __tablename__ = "p"; id = Column(Integer, primary_key=True); val = Column(Integer)
e = create_engine("sqlite://", connect_args={"autocommit": False}); Base.metadata.create_all(e); s = Session(e)
p = P(val=3); s.add(p); s.flush()
sp1 = s.begin_nested(); sp2 = s.begin_nested()
p.val = 2; q = P(val=9); s.add(q); s.flush()       # work inside the inner savepoint
sp1.rollback()                                      # roll back the ENCLOSING savepoint
print(p.__dict__.get("val", "<expired>"), inspect(q).persistent, s.execute(text("select id, val from p")).all())
# 2 True [(1, 3)]   expected: <expired> False [(1, 3)]
