import sys; sys.path.insert(0, "/verif")
from vf import purehook; purehook.install()   # pure-Python build from /repo/lib (plain "import sqlalchemy" works as well)
from sqlalchemy import *
from sqlalchemy.orm import *
Base = registry().generate_base()
class P(Base):
    __tablename__ = "p"; name = Column(String, primary_key=True)
e = create_engine("sqlite://", connect_args={"autocommit": False}); Base.metadata.create_all(e)
s = Session(e, expire_on_commit=False); a = P(name="a"); s.add(a); s.commit(); s.delete(a); s.commit()
print("1:", inspect(a).deleted, inspect(a).detached)          # True False ; documented: detached after commit
s = Session(e); b = P(name="b"); s.add(b); s.flush(); b.name = "b2"; s.flush(); s.rollback()
print("2:", inspect(b).transient, inspect(b).detached)        # False True ; documented: transient (added in the rolled-back transaction)
s = Session(e); k = P(name="k"); s.add(k); s.commit(); k.name = "k2"; s.flush(); s.expunge(k); s.rollback()
print("3:", k in s, [key[1] for key in s.identity_map.keys()])  # True [('k',)] : the expunged object is back in the identity map
k2 = P(name="z"); s.add(k2)
try: s.commit()
except Exception as ex: print("   next commit:", type(ex).__name__)   # DetachedInstanceError
