import sys; sys.path.insert(0, "/verif")
from vf import purehook; purehook.install()   # pure-Python build from /repo/lib (plain "import sqlalchemy" works as well)
from sqlalchemy import *
from sqlalchemy.orm import *
Base = registry().generate_base()
class Parent(Base):
    __tablename__ = "parent"; id = Column(Integer, primary_key=True)
    children = relationship("Child", cascade="all, delete-orphan")
class Child(Base):
    __tablename__ = "child"; id = Column(Integer, primary_key=True); val = Column(Integer); pid = Column(ForeignKey("parent.id"))
e = create_engine("sqlite://", connect_args={"autocommit": False}); Base.metadata.create_all(e); s = Session(e)
c = Child(val=1); p = Parent(children=[c]); s.add(p); s.commit()
sp = s.begin_nested(); p.children.remove(c); sp.rollback()     # the removal is rolled back
c.val = 2; s.commit()                                           # an unrelated change to the child
print(s.execute(text("select id, val, pid from child")).all())  # []: the child row was DELETEd as an orphan; expected [(1, 2, 1)]
