# five compile-time buckets (3 and 5 share one root cause) where a well-formed construct raises a non-SQLAlchemy exception (each block is standalone)
import sqlalchemy as sa
from sqlalchemy.dialects import oracle, postgresql, sqlite
t1 = sa.Table("t1", sa.MetaData(), sa.Column("id", sa.Integer, primary_key=True), sa.Column("x", sa.Integer))
t2 = sa.Table("t2", t1.metadata, sa.Column("id", sa.Integer, primary_key=True), sa.Column("t1_id", sa.Integer), sa.Column("y", sa.Integer))
def show(name, stmt, dialect):
    try:
        print(name, "->", " ".join(str(stmt.compile(dialect=dialect)).split())[:70])
    except Exception as e:
        print(name, "->", type(e).__name__, ":", str(e)[:90], "| SQLAlchemyError:", isinstance(e, sa.exc.SQLAlchemyError))
# 1/2 multi-table DELETE / UPDATE on a backend without the syntax: builtin NotImplementedError instead of CompileError
show("1 delete..using on sqlite", sa.delete(t1).where(t1.c.id == t2.c.t1_id), sqlite.dialect())
show("2 update..from on oracle", sa.update(t1).values(x=t2.c.y).where(t2.c.t1_id == t1.c.id), oracle.dialect())
# 3 Oracle < 12: ORM select + LIMIT + FOR UPDATE OF <mapped class>: RecursionError (same root cause as 5)
from sqlalchemy.orm import declarative_base
class A(declarative_base()):
    __tablename__ = "a"; id = sa.Column(sa.Integer, primary_key=True)
show("3 oracle<12 orm limit + for update of class", sa.select(A).limit(2).with_for_update(of=A), oracle.dialect(enable_offset_fetch=False))
# 4 Oracle use_ansi=False, join against text().columns().subquery(): bare NotImplementedError from is_derived_from
tx = sa.text("select 1 as id").columns(sa.column("id", sa.Integer)).subquery("tx")
show("4 oracle use_ansi=False join to textual subquery", sa.select(t1.c.id).select_from(t1.outerjoin(tx, t1.c.id == tx.c.id)), oracle.dialect(use_ansi=False))
# 5 Oracle < 12 (enable_offset_fetch=False): LIMIT+OFFSET with FOR UPDATE OF <table>: AttributeError proxy_set
show("5 oracle<12 limit/offset + for update of table", sa.select(t1.c.id).order_by(t1.c.id).limit(2).offset(1).with_for_update(of=t1), oracle.dialect(enable_offset_fetch=False))
