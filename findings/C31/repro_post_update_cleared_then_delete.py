import sys; sys.path.insert(0, "/verif")
from vf import purehook; purehook.install()   # pure-Python build from /repo/lib (plain "import sqlalchemy" works as well)
from sqlalchemy import *
from sqlalchemy.orm import *
Base = registry().generate_base()
class Person(Base):
    __tablename__ = "person"; id = Column(Integer, primary_key=True)
    favorite_id = Column(Integer, ForeignKey("ball.id", use_alter=True, name="fk_fav"))
    balls = relationship("Ball", foreign_keys="Ball.person_id", cascade="all, delete-orphan")
    favorite = relationship("Ball", foreign_keys=[favorite_id], post_update=True)
class Ball(Base):
    __tablename__ = "ball"; id = Column(Integer, primary_key=True); person_id = Column(ForeignKey("person.id"), nullable=False)
e = create_engine("sqlite://"); event.listen(e, "connect", lambda c, r: c.execute("pragma foreign_keys=on")); Base.metadata.create_all(e)
s = Session(e, autoflush=False); b = Ball(); p = Person(balls=[b]); s.add(p); s.flush(); p.favorite = b; s.commit()
if "keep" not in sys.argv: p.favorite = None     # cleared in memory, not flushed
s.delete(p)                                      # cascades to the ball
s.commit(); print("ok", s.execute(text("select count(*) from ball")).scalar())
