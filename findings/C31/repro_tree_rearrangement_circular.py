import sys; sys.path.insert(0, "/verif")
from vf import purehook; purehook.install()   # pure-Python build from /repo/lib (plain "import sqlalchemy" works as well)
from sqlalchemy import *
from sqlalchemy.orm import *
Base = registry().generate_base()
class Node(Base):
    __tablename__ = "node"; id = Column(Integer, primary_key=True); pid = Column(ForeignKey("node.id"))
    children = relationship("Node", back_populates="parent")
    parent = relationship("Node", back_populates="children", remote_side=[id])
e = create_engine("sqlite://"); Base.metadata.create_all(e); s = Session(e, autoflush=False)
a = Node(); b = Node(parent=a); c = Node(parent=b); s.add(a); s.flush()     # a <- b <- c, all persistent and loaded
b.parent = None; a.parent = c                                               # b <- c <- a : still a tree, two UPDATEs
s.flush()      # CircularDependencyError (works if s.commit()/expire_all() ran before the two assignments)
