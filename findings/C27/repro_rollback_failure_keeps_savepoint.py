# rollback() that fails at the DBAPI leaves the savepoint attached; if that savepoint had a failed RELEASE the Connection is stuck
import sys; sys.path.insert(0, "/verif")
from vf import fakedb
import sqlalchemy as sa
db = fakedb.FakeDB(); eng = db.engine(); eng.connect().close()
conn = eng.connect()
sp = conn.begin_nested()
db.plan[("execute", db.counts["execute"])] = "error"        # RELEASE SAVEPOINT fails (ordinary error)
try: sp.commit()
except sa.exc.DBAPIError as e: print("release:", type(e.orig).__name__)
db.plan[("rollback", db.counts["rollback"])] = "disconnect"  # the ROLLBACK then finds the server gone
try: conn.rollback()
except sa.exc.DBAPIError as e: print("rollback:", type(e.orig).__name__, "invalidated:", e.connection_invalidated)
print("get_transaction():", conn.get_transaction(), "| get_nested_transaction():", conn.get_nested_transaction())
conn.rollback()                                               # "rollback() fully" as the message asks: no-op, nothing to roll back
try: conn.exec_driver_sql("select 1")
except sa.exc.PendingRollbackError as e: print("stuck:", str(e)[:90])
