# ordinary error before autobegin -> autorollback -> that rollback hits a disconnect:
# Connection is invalidated, but the DBAPIError that surfaces says connection_invalidated=False
import sys; sys.path.insert(0, "/verif")
from vf import fakedb
import sqlalchemy as sa
db = fakedb.FakeDB()
eng = db.engine()
eng.connect().close()
conn = eng.connect()
db.plan[("cursor", db.counts["cursor"])] = "error"          # cursor() fails with an ordinary error
db.plan[("rollback", db.counts["rollback"])] = "disconnect"  # the autorollback finds the server gone
try:
    conn.exec_driver_sql("select 1")
except sa.exc.DBAPIError as e:
    print(type(e.orig).__name__, "connection_invalidated =", e.connection_invalidated, "| conn.invalidated =", conn.invalidated)
