# a "checkin" listener that raises once makes the pool lose that slot for good
import sqlalchemy as sa
from sqlalchemy import event
eng = sa.create_engine("sqlite://", poolclass=sa.pool.QueuePool, pool_size=1, max_overflow=0, pool_timeout=0.1)
boom = [True]
@event.listens_for(eng, "checkin")
def on_checkin(dbapi_con, rec):
    if boom.pop() if boom else False:
        raise RuntimeError("listener bug")
c = eng.connect()
try: c.close()
except RuntimeError as e: print("close():", e)
del c
print(eng.pool.status())                 # Current Checked out connections: 1, nobody holds one
try: eng.connect()
except sa.exc.TimeoutError as e: print("TimeoutError:", str(e)[:60])
