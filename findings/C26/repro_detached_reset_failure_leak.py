# a detached connection whose reset-on-return fails is never closed
import sqlite3, sqlalchemy as sa
closed = []
class Conn(sqlite3.Connection):
    fail = False
    def rollback(self):
        if self.fail: raise sqlite3.OperationalError("server went away")
        super().rollback()
    def close(self):
        closed.append(self); super().close()
eng = sa.create_engine("sqlite://", creator=lambda: sqlite3.connect(":memory:", factory=Conn), poolclass=sa.pool.QueuePool)
conn = eng.connect()
conn.detach()
raw = conn.connection.dbapi_connection
conn.exec_driver_sql("select 1")
conn.commit()
raw.fail = True
conn.close()          # detached: documented to "be literally closed"
print("close() called on detached connection:", raw in closed)   # False
try: raw.execute("select 1"); print("still usable -> leaked")
except Exception as e: print(e)
