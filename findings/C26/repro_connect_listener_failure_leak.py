# a failing "connect" listener (or the dialect's first-connect initialisation) leaks the new DBAPI connection
import sqlite3, sqlalchemy as sa
from sqlalchemy import event
closed = []
class Conn(sqlite3.Connection):
    def close(self):
        closed.append(self); super().close()
opened = []
def creator():
    c = sqlite3.connect(":memory:", factory=Conn); opened.append(c); return c
eng = sa.create_engine("sqlite://", creator=creator, poolclass=sa.pool.QueuePool)
@event.listens_for(eng, "connect")
def boom(dbapi_con, rec):
    raise sqlite3.OperationalError("SET failed")
try: eng.connect()
except Exception as e: print(type(e).__name__)
eng.dispose()
print("opened", len(opened), "close() called", len(closed), "pool", eng.pool.status())
