# invalidate() on a detached connection never closes the DBAPI connection
import sqlite3, sqlalchemy as sa
closed = []
class Conn(sqlite3.Connection):
    def close(self):
        closed.append(self); super().close()
eng = sa.create_engine("sqlite://", creator=lambda: sqlite3.connect(":memory:", factory=Conn), poolclass=sa.pool.QueuePool)
conn = eng.connect(); conn.detach()
raw = conn.connection.dbapi_connection
conn.invalidate()      # documented: "An attempt will be made to close the underlying DBAPI connection immediately"
conn.close(); eng.dispose()
print("close() called:", raw in closed)
raw.execute("select 1"); print("detached + invalidated connection is still open")
