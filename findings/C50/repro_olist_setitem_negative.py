from sqlalchemy import Column, ForeignKey, Integer
from sqlalchemy.ext.orderinglist import ordering_list
from sqlalchemy.orm import declarative_base, relationship
Base = declarative_base()
class P(Base):
    __tablename__ = "p"; id = Column(Integer, primary_key=True)
    cs = relationship("C", order_by="C.position", collection_class=ordering_list("position"))
class C(Base):
    __tablename__ = "c"; id = Column(Integer, primary_key=True); pid = Column(ForeignKey("p.id")); position = Column(Integer)
p = P(); p.cs.append(C()); p.cs.append(C())
p.cs[-1] = C()
print([c.position for c in p.cs])   # [0, -1]; expected [0, 1]
