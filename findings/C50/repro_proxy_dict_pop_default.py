from sqlalchemy import Column, ForeignKey, Integer, String
from sqlalchemy.ext.associationproxy import association_proxy
from sqlalchemy.orm import attribute_keyed_dict, declarative_base, relationship
Base = declarative_base()
class O(Base):
    __tablename__ = "o"; id = Column(Integer, primary_key=True)
    notes = relationship("N", collection_class=attribute_keyed_dict("key"))
    texts = association_proxy("notes", "text", creator=lambda k, v: N(key=k, text=v))
class N(Base):
    __tablename__ = "n"; id = Column(Integer, primary_key=True); oid = Column(ForeignKey("o.id")); key = Column(String); text = Column(String)
print(O().texts.pop("missing", "dflt"))   # AttributeError: 'str' object has no attribute 'text'; dict.pop returns 'dflt'
