# LIMIT/OFFSET on a UNION is silently dropped for SQL Server < 2012 and Oracle < 12 (no TOP/ROW_NUMBER/ROWNUM, no error)
from sqlalchemy import Column, Integer, MetaData, Table, select, union_all
from sqlalchemy.dialects import mssql, oracle

a = Table("a", MetaData(), Column("id", Integer, primary_key=True), Column("x", Integer))
u = union_all(select(a.c.id).where(a.c.x < 5), select(a.c.id).where(a.c.x >= 5)).order_by("id").limit(2).offset(1)
ms = mssql.dialect(); ms._supports_offset_fetch = False      # what initialize() sets for SQL Server 2005/2008
for d in (ms, oracle.dialect(enable_offset_fetch=False)):
    print(d.name, "->", " ".join(str(u.compile(dialect=d)).split()))
ms._supports_offset_fetch = True
print("mssql>=2012 ->", " ".join(str(u.compile(dialect=ms)).split()))
