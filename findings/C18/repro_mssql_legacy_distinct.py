# MSSQL < 2012 LIMIT/OFFSET emulation + DISTINCT: ROW_NUMBER() is computed before DISTINCT, so DISTINCT removes nothing
import sqlite3
from sqlalchemy import Column, Integer, MetaData, Table, select
from sqlalchemy.dialects import mssql

a = Table("a", MetaData(), Column("id", Integer, primary_key=True), Column("x", Integer))
d = mssql.dialect(); d._supports_offset_fetch = False          # what initialize() sets for SQL Server 2005/2008
stmt = select(a.c.x).distinct().order_by(a.c.x).limit(2).offset(1)
sql = str(stmt.compile(dialect=d, compile_kwargs={"literal_binds": True}))
print(sql)   # SELECT anon_1.x FROM (SELECT DISTINCT a.x AS x, ROW_NUMBER() OVER (ORDER BY a.x) AS mssql_rn FROM a) AS anon_1 WHERE mssql_rn > 1 AND mssql_rn <= 2 + 1
db = sqlite3.connect(":memory:"); db.execute("create table a(id integer primary key, x int)")
db.executemany("insert into a(x) values (?)", [(1,), (1,), (2,), (3,)])
print("emulation:", db.execute(sql).fetchall(), " expected:", db.execute("select distinct x from a order by x limit 2 offset 1").fetchall())
