# MSSQL: SET IDENTITY_INSERT uses the schema_translate_map the cached statement was FIRST compiled with (compiled.schema_translate_map),
# not the map of the current execution; the INSERT itself is translated correctly.  (fake DBAPI connection, no server needed)
import sqlalchemy as sa
log = []
class Cur:
    description = None; rowcount = 1
    def execute(self, stmt, params=()): log.append(stmt)
    def close(self): pass
    def __getattr__(self, k): return lambda *a, **kw: None
class Conn:
    def cursor(self): return Cur()
    def __getattr__(self, k): return lambda *a, **kw: None
eng = sa.create_engine("mssql+pyodbc://", creator=Conn, _initialize=False)
t = sa.Table("t", sa.MetaData(), sa.Column("id", sa.Integer, primary_key=True), sa.Column("x", sa.Integer))
for target in ("tenant_a", "tenant_b"):
    with eng.connect().execution_options(schema_translate_map={None: target}) as conn:
        conn.execute(t.insert().values(id=1, x=1))
print("\n".join(s for s in log if "INSERT" in s))   # 2nd execution: SET IDENTITY_INSERT tenant_a.t ON / INSERT INTO tenant_b.t ...
