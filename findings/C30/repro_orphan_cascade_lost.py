import sys; sys.path.insert(0, "/verif")
from vf import purehook; purehook.install()   # pure-Python build from /repo/lib (plain "import sqlalchemy" works as well)
from sqlalchemy import *
from sqlalchemy.orm import *
Base = registry().generate_base()
class Node(Base):
    __tablename__ = "node"; id = Column(Integer, primary_key=True); pid = Column(ForeignKey("node.id"))
    children = relationship("Node", cascade="all, delete-orphan")
e = create_engine("sqlite://"); Base.metadata.create_all(e); s = Session(e)
gc = Node(); c = Node(children=[gc]); p = Node(children=[c]); s.add(p); s.commit()     # p <- c <- gc
p.children.remove(c)       # c becomes an orphan (to be deleted together with gc)
s.delete(p)                # and the former parent is deleted in the same flush
s.commit()
print(s.execute(text("select id, pid from node")).all())   # [(3, 2)]: gc survives with a dangling FK; expected []
