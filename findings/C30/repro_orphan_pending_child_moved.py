import sys; sys.path.insert(0, "/verif")
from vf import purehook; purehook.install()   # pure-Python build from /repo/lib (plain "import sqlalchemy" works as well)
from sqlalchemy import *
from sqlalchemy.orm import *
Base = registry().generate_base()
class Parent(Base):
    __tablename__ = "parent"; id = Column(Integer, primary_key=True)
    children = relationship("Child", back_populates="parent", cascade="all, delete-orphan")
class Child(Base):
    __tablename__ = "child"; id = Column(Integer, primary_key=True); pid = Column(ForeignKey("parent.id"))
    parent = relationship("Parent", back_populates="children")
e = create_engine("sqlite://"); Base.metadata.create_all(e); s = Session(e)
p1, p2 = Parent(), Parent(); s.add_all([p1, p2]); s.commit()
c = Child(); p1.children.append(c)          # c is pending, owned by p1
c.parent = p2                               # move it to p2 in one step
print("c in session:", c in s)              # False: expunged as an orphan, not re-attached
s.commit(); print(s.execute(text("select * from child")).all())   # [] : the child is lost (only a SAWarning)
