# TypeDecorator().with_variant(<TypeDecorator over DateTime>, "sqlite"): the variant's impl is not adapted to the dialect,
# so SQLite's DATETIME bind/result processing is skipped (value stored through sqlite3's default adapter, read back as str)
import datetime as dt, warnings
import sqlalchemy as sa
warnings.simplefilter("ignore")
class Stamp(sa.TypeDecorator):
    impl = sa.DateTime; cache_ok = True
    def process_result_value(self, value, dialect): return ("got", type(value).__name__, value)
class Other(sa.TypeDecorator):
    impl = sa.String; cache_ok = True
for typ in (Stamp(), sa.String().with_variant(Stamp(), "sqlite"), Other().with_variant(Stamp(), "sqlite")):
    e = sa.create_engine("sqlite://"); t = sa.Table("t", sa.MetaData(), sa.Column("c", typ)); t.create(e)
    with e.begin() as c:
        c.execute(t.insert().values(c=dt.datetime(2020, 1, 1, 0, 0, 0, 5)))
        print(c.exec_driver_sql("select c from t").scalar(), "->", c.execute(sa.select(t.c.c)).scalar())
# 1st and 2nd: stored '2020-01-01 00:00:00.000005', result processor receives datetime; 3rd: stored via sqlite3 adapter, receives str
