from sqlalchemy import Column, Integer, MetaData, Table, select
from sqlalchemy.ext import serializer
md = MetaData()
t = Table("a:b", md, Column("id", Integer, primary_key=True))
serializer.loads(serializer.dumps(select(t.c.id)), md)   # ValueError: too many values to unpack (expected 2)
