"""C41 - ORM queries return the rows their relational meaning specifies.

Differential ORM vs Core: every generated abstract query is rendered twice --
as an ORM statement over the mapped family (entities, aliased entities,
relationship joins in four spellings, relationship comparators, correlated
subqueries) and as a Core "twin" written by the harness directly over aliased
Table objects, with every relationship construct expanded to its documented
EXISTS / FK-equality meaning.  Rows must agree one-to-one (entity -> class, PK
and column values; column -> value) as lists under a total ORDER BY;
``count(*)`` / ``EXISTS`` over the ORM statement equal len(rows)/bool(rows);
legacy ``Query.all()/.count()/.first()`` agree with the 2.0-style execution.
"""
from __future__ import annotations

from hypothesis import strategies as st

from vf.api import Generated, Violation
from checks import _orm_query as oq

PROPERTY = "C41"
LEVEL = "exploration"
RULE = (
    "rows: data set (as C40) + abstract select: root entity (plain or aliased), 0-2 joins along relationships (spelled join(rel) / join(rel.of_type(alias)) / "
    "join(alias, rel) / join(alias, onclause); inner or outer; second join from root or from the first joined entity), select list of 1-3 entities/columns, "
    "WHERE tree (AND/OR/NOT) over column predicates and relationship leaves any()/has() (criterion, kwargs, of_type), ==None/!=None, ==obj/!=obj, contains(obj), "
    "correlated count subquery, explicit exists(), IN (subquery); DISTINCT; total ORDER BY; LIMIT/OFFSET. "
    "rows/sti (about a quarter of the rows cases): 2-3 entities of a single-table hierarchy Employee <- Engineer, Manager <- Boss over one table (at most one un-aliased), "
    "each later entity linked to an earlier one by boss_id = id either as a plain FROM element in WHERE, by join(alias, onclause) or by join(src.boss.of_type(alias)), inner/outer; "
    "column / entity / mixed rows; twin carries the explicit discriminator predicate for EACH entity (in the ON clause for joined ones). "
    "compound: UNION / UNION ALL / subquery mapped with aliased(Entity, subq), from_statement(union | text), GROUP BY entity or column with count/max/min + HAVING. "
    "Non-trivial: the query uses an aliased entity, a relationship comparator or a subquery, and the data has a NULL FK or duplicate values; "
    "distinct = canonical JSON of the case"
)
ASSUMPTIONS = [
    "SQLite only; Core select over Table aliases is the trusted twin (Core compilation/execution is judged by other properties)",
    "relationship constructs are expanded by the harness: any/has -> EXISTS over the target correlated on the FK pair; rel == None -> FK IS NULL (many-to-one) / NOT EXISTS (collections); "
    "many-to-one == obj -> fk = obj.pk; != obj -> fk != obj.pk OR fk IS NULL (the implementation's meaning; the docstring's 'typically related_id != id' omits the NULL arm); "
    "one-to-many contains(obj) -> pk = obj.fk; many-to-many contains(obj) -> EXISTS over the association table",
    "positive many-to-many contains() is generated only in top-level AND position (documented restriction); elsewhere the case uses any(Target.id == pk)",
    "ORDER BY is total (PKs of every FROM entity appended; with DISTINCT / GROUP BY every selected item), so results compare as lists; from_statement results compare as multisets",
    "legacy Query.all() de-duplicates rows that contain an entity (documented); Query.count() counts SQL rows; Query.first() is compared only when LIMIT is not 0",
    "single-table inheritance: the discriminator criterion of a join() target belongs to the ON clause (so outer joins keep unmatched left rows), that of plain FROM entities to WHERE",
    "not covered: joined/concrete inheritance and with_polymorphic in queries (C42), with_parent, composite PKs, lateral, CTEs, window functions",
]

ROOTS = ["Parent", "Child", "Grandchild", "Tag", "Node"]
OPS = oq.OPS
NONDEF = {cls: [c for c in oq.COLS[t] if c != "note"] for cls, t in oq.CLS_TABLE.items()}
INTCOLS = {cls: [c for c in cols if c not in oq.STR_COLS] for cls, cols in NONDEF.items()}


# ------------------------------------------------------------------ normalisation (indices -> names; valid by construction)
def _rels_of(cls, want):
    """relationship names of cls filtered by kind set; falls back to all"""
    names = [r for r in sorted(oq.RELS[cls]) if oq.RELS[cls][r][2] in want]
    return names


def norm_inner(e, tcls):
    """inner criterion of any/has/exists/insub: column predicates over the target only"""
    if e is None:
        return None
    k = e[0]
    if k in ("and", "or"):
        return [k, norm_inner(e[1], tcls), norm_inner(e[2], tcls)]
    if k in ("not", "case"):
        return [k, norm_inner(e[1], tcls)]
    return norm_leaf_basic(e, lambda t: ("i", tcls))


def norm_leaf_basic(e, ent):
    """e: cmp/isnull/in/like/colcmp with entity + column indices; ent(t) -> (resolved t, class)"""
    k = e[0]
    t, cls = ent(e[1])
    cols = NONDEF[cls]
    if k == "colcmp":
        t2, cls2 = ent(e[4])
        c1 = INTCOLS[cls][e[2] % len(INTCOLS[cls])]
        c2 = INTCOLS[cls2][e[5] % len(INTCOLS[cls2])]
        return ["colcmp", t, c1, e[3], t2, c2]
    col = cols[e[2] % len(cols)]
    is_str = col in oq.STR_COLS
    if k == "cmp":
        return ["cmp", t, col, e[3], e[4] if is_str else e[5]]
    if k == "isnull":
        return ["isnull", t, col, bool(e[3])]
    if k == "in":
        return ["in", t, col, list(e[3] if is_str else e[4])]
    if k == "like":
        if not is_str:
            return ["isnull", t, col, True]
        return ["like", t, col, e[3]]
    raise ValueError(k)


def norm_expr(e, ecls, model, conj=True):
    """ecls: list of classes of the FROM entities; conj: still in top-level AND position"""
    if e is None:
        return None
    k = e[0]
    n = len(ecls)

    def ent(t):
        t = t % n
        return t, ecls[t]

    if k == "and":
        return ["and", norm_expr(e[1], ecls, model, conj), norm_expr(e[2], ecls, model, conj)]
    if k == "or":
        return ["or", norm_expr(e[1], ecls, model, False), norm_expr(e[2], ecls, model, False)]
    if k == "not":
        return ["not", norm_expr(e[1], ecls, model, False)]
    if k in ("cmp", "isnull", "in", "like", "colcmp"):
        return norm_leaf_basic(e, ent)
    if k == "case":
        return ["case", _norm_basic_tree(e[1], ent)]
    t, cls = ent(e[1])
    allrels = sorted(oq.RELS[cls])
    if k in ("any", "has"):
        rel = allrels[e[2] % len(allrels)]
        tcls, uselist = oq.RELS[cls][rel][:2]
        style = e[4] % 3  # 0 criterion on the class, 1 of_type(alias), 2 kwargs
        inner = norm_inner(e[3], tcls)
        if style == 2:
            inner = _kw_inner(e[3], tcls)
        if style == 0 and tcls == cls:
            pass  # self-referential: the criterion on the class is adapted to the inner alias (documented)
        return ["any" if uselist else "has", t, rel, inner, style]
    if k == "relnull":
        rel = allrels[e[2] % len(allrels)]
        return ["relnull", t, rel, bool(e[3])]
    if k == "releq":
        rel = allrels[e[2] % len(allrels)]
        tcls, uselist, kind = oq.RELS[cls][rel][:3]
        trows = model.rows[oq.CLS_TABLE[tcls]]
        pks = sorted(trows)
        if kind == "o2m":
            # contains(obj) with obj's FK = None is documented as unsupported (warning "Got None for value of column")
            pks = [k for k in pks if trows[k][oq.RELS[cls][rel][4]] is not None]
        if not pks:
            return ["relnull", t, rel, bool(e[4])]
        pk = pks[e[3] % len(pks)]
        neg = bool(e[4])
        if kind == "m2m" and not neg and not conj:
            # documented: positive m2m contains() only in simple AND conjunctions -> same meaning via any()
            return ["any", t, rel, ["cmp", "i", "id", "=", pk], 0]
        return ["releq", t, rel, pk, neg]
    if k in ("subcount", "exists", "insub"):
        want = {"o2m"} if k == "subcount" else {"o2m", "m2o"}
        rels = _rels_of(cls, want)
        if not rels:
            rel = allrels[e[2] % len(allrels)]
            tcls, uselist = oq.RELS[cls][rel][:2]
            return ["any" if uselist else "has", t, rel, None, 0]
        rel = rels[e[2] % len(rels)]
        tcls = oq.RELS[cls][rel][0]
        if k == "subcount":
            return ["subcount", t, rel, e[3], e[4]]
        return [k, t, rel, norm_inner(e[3], tcls)]
    raise ValueError(k)


def _norm_basic_tree(e, ent):
    if e[0] in ("and", "or"):
        return [e[0], _norm_basic_tree(e[1], ent), _norm_basic_tree(e[2], ent)]
    if e[0] == "not":
        return ["not", _norm_basic_tree(e[1], ent)]
    return norm_leaf_basic(e, ent)


def _kw_inner(e, tcls):
    """kwargs form: a single equality on one target column (non-NULL value)"""
    if e is None:
        return None
    while e[0] in ("and", "or", "not", "case"):
        e = e[1]
    b = norm_leaf_basic(e, lambda t: ("i", tcls))
    if b[0] == "cmp":
        return ["cmp", "i", b[2], "=", b[4]]
    if b[0] == "in":
        return ["cmp", "i", b[2], "=", b[3][0]]
    return None


def uses_rel(e):
    if e is None:
        return False
    if e[0] in ("and", "or"):
        return uses_rel(e[1]) or uses_rel(e[2])
    if e[0] == "not":
        return uses_rel(e[1])
    return e[0] in ("any", "has", "relnull", "releq")


def uses_subq(e):
    if e is None:
        return False
    if e[0] in ("and", "or"):
        return uses_subq(e[1]) or uses_subq(e[2])
    if e[0] == "not":
        return uses_subq(e[1])
    return e[0] in ("subcount", "exists", "insub")


def leaf_kinds(e, out):
    if e is None:
        return out
    if e[0] in ("and", "or"):
        leaf_kinds(e[1], out)
        leaf_kinds(e[2], out)
    elif e[0] == "not":
        out.add("not")
        leaf_kinds(e[1], out)
    elif e[0] in ("any", "has"):
        out.add(f"{e[0]}:{['crit', 'of_type', 'kw'][e[4]]}{'' if e[3] is not None else ':bare'}")
        if e[3] is not None and '"case"' in oq_canon(e[3]):
            out.add("inner-case")
    elif e[0] == "releq":
        out.add("releq:neg" if e[4] else "releq")
    elif e[0] == "relnull":
        out.add("relnull:neg" if e[3] else "relnull")
    else:
        out.add(e[0] if e[0] in ("subcount", "exists", "insub", "colcmp", "case") else "col")
    return out


# ------------------------------------------------------------------ ORM rendering
class OrmSide:
    """builds ORM expressions for one FROM-entity list (ents: ORM entities; ecls: class names)"""

    def __init__(self, ents, ecls, objs):
        self.ents = ents
        self.ecls = ecls
        self.objs = objs  # (cls, pk) -> persistent object in the executing session
        self.fam = oq.family()

    def col(self, t, name):
        return getattr(self.ents[t], name)

    def expr(self, e):
        return oq.expr_sa(e, self.col, self.ext)

    def ext(self, e):
        from sqlalchemy import exists, func, select
        from sqlalchemy.orm import aliased

        k, t = e[0], e[1]
        S, cls = self.ents[t], self.ecls[t]
        rel = e[2]
        tcls, uselist, kind, lcol, rcol = oq.RELS[cls][rel]
        T = self.fam.classes[tcls]
        attr = getattr(S, rel)
        if k in ("any", "has"):
            inner, style = e[3], e[4]
            fn = "any" if k == "any" else "has"
            if style == 1:
                TA = aliased(T)
                crit = oq.expr_sa(inner, lambda _t, n: getattr(TA, n)) if inner is not None else None
                a = attr.of_type(TA)
                return getattr(a, fn)(crit) if crit is not None else getattr(a, fn)()
            if style == 2 and inner is not None:
                return getattr(attr, fn)(**{inner[2]: inner[4]})
            crit = oq.expr_sa(inner, lambda _t, n: getattr(T, n)) if inner is not None else None
            return getattr(attr, fn)(crit) if crit is not None else getattr(attr, fn)()
        if k == "relnull":
            return (attr != None) if e[3] else (attr == None)  # noqa: E711
        if k == "releq":
            obj = self.objs[(tcls, e[3])]
            if uselist:
                c = attr.contains(obj)
                return ~c if e[4] else c
            return (attr != obj) if e[4] else (attr == obj)
        TA = aliased(T)
        if kind == "o2m":
            link = getattr(TA, rcol) == S.id
        else:
            link = TA.id == getattr(S, lcol)
        if k == "subcount":
            sq = select(func.count(TA.id)).where(link).scalar_subquery()
            op, n = e[3], e[4]
            return {"=": sq == n, "!=": sq != n, "<": sq < n, "<=": sq <= n, ">": sq > n, ">=": sq >= n}[op]
        inner = oq.expr_sa(e[3], lambda _t, nme: getattr(TA, nme)) if e[3] is not None else None
        if k == "exists":
            ex = exists().where(link)
            if inner is not None:
                ex = ex.where(inner)
            return ex
        if k == "insub":
            if kind == "o2m":
                sub = select(getattr(TA, rcol))
                lhs = S.id
            else:
                sub = select(TA.id)
                lhs = getattr(S, lcol)
            if inner is not None:
                sub = sub.where(inner)
            return lhs.in_(sub)
        raise ValueError(k)


# ------------------------------------------------------------------ Core twin rendering
class CoreSide:
    def __init__(self, froms, ecls, model):
        self.froms = froms  # FromClause per entity (table alias or subquery)
        self.ecls = ecls
        self.model = model
        self.fam = oq.family()
        self._n = 0

    def col(self, t, name):
        return self.froms[t].c[name]

    def expr(self, e):
        return oq.expr_sa(e, self.col, self.ext)

    def _alias(self, tname):
        self._n += 1
        return self.fam.tables[tname].alias(f"tw{self._n}")

    def _link(self, src, cls, rel, tt):
        """(FROM extras, condition) relating source row to target alias tt"""
        tcls, uselist, kind, lcol, rcol = oq.RELS[cls][rel]
        if kind == "o2m":
            return [], tt.c[rcol] == src.c.id
        if kind == "m2o":
            return [], tt.c.id == src.c[lcol]
        sec = self._alias("parent_tag")
        return [sec], (sec.c[lcol] == src.c.id) & (sec.c[rcol] == tt.c.id)

    def ext(self, e):
        from sqlalchemy import and_, func, literal, not_, or_, select

        k, t = e[0], e[1]
        src, cls = self.froms[t], self.ecls[t]
        rel = e[2]
        tcls, uselist, kind, lcol, rcol = oq.RELS[cls][rel]
        tt = self._alias(oq.CLS_TABLE[tcls])
        if k in ("any", "has", "exists"):
            extra, cond = self._link(src, cls, rel, tt)
            sel = select(literal(1)).select_from(tt, *extra).where(cond)
            if e[3] is not None:
                sel = sel.where(oq.expr_sa(e[3], lambda _t, n: tt.c[n]))
            return sel.exists()
        if k == "relnull":
            if kind == "m2o":
                c = src.c[lcol].is_(None)
                return not_(c) if e[3] else c
            extra, cond = self._link(src, cls, rel, tt)
            ex = select(literal(1)).select_from(tt, *extra).where(cond).exists()
            return ex if e[3] else not_(ex)
        if k == "releq":
            pk, neg = e[3], e[4]
            if kind == "m2o":
                if neg:
                    return or_(src.c[lcol] != pk, src.c[lcol].is_(None))
                return src.c[lcol] == pk
            if kind == "o2m":
                fk = self.model.rows[oq.CLS_TABLE[tcls]][pk][rcol]
                assert fk is not None
                return (src.c.id != fk) if neg else (src.c.id == fk)
            sec = self._alias("parent_tag")
            ex = select(literal(1)).select_from(sec).where(and_(sec.c[lcol] == src.c.id, sec.c[rcol] == pk)).exists()
            return not_(ex) if neg else ex
        if k == "subcount":
            sq = select(func.count(tt.c.id)).where(tt.c[rcol] == src.c.id).scalar_subquery()
            op, n = e[3], e[4]
            return {"=": sq == n, "!=": sq != n, "<": sq < n, "<=": sq <= n, ">": sq > n, ">=": sq >= n}[op]
        if k == "insub":
            if kind == "o2m":
                sub, lhs = select(tt.c[rcol]), src.c.id
            else:
                sub, lhs = select(tt.c.id), src.c[lcol]
            if e[3] is not None:
                sub = sub.where(oq.expr_sa(e[3], lambda _t, n: tt.c[n]))
            return lhs.in_(sub)
        raise ValueError(k)


# ------------------------------------------------------------------ canonical rows
def canon_entity(obj):
    if obj is None:
        return None
    cls = type(obj).__name__
    return [cls, obj.id, [getattr(obj, c) for c in NONDEF[cls]]]


def dedupe_rows(rows):
    seen, out = set(), []
    for r in rows:
        k = oq_canon(r)
        if k not in seen:
            seen.add(k)
            out.append(r)
    return out


def oq_canon(x):
    import json

    return json.dumps(x, sort_keys=True)


def load_objs(session, q_where_list, ecls_list, model):
    """persistent objects needed by releq leaves: (cls, pk) -> object"""
    fam = oq.family()
    need = set()

    def walk(e, ecls):
        if e is None:
            return
        if e[0] in ("and", "or"):
            walk(e[1], ecls)
            walk(e[2], ecls)
        elif e[0] == "not":
            walk(e[1], ecls)
        elif e[0] == "releq":
            need.add((oq.RELS[ecls[e[1]]][e[2]][0], e[3]))

    for e, ecls in zip(q_where_list, ecls_list):
        walk(e, ecls)
    out = {}
    for cls, pk in sorted(need):
        out[(cls, pk)] = session.get(fam.classes[cls], pk)
    return out


# ------------------------------------------------------------------ sub-check: rows
def norm_rows_query(q, model):
    root = q["root"]
    ecls = [root]
    joins = []
    unaliased = set() if q.get("ralias") else {root}
    for j in (q.get("joins") or [])[:2]:
        src = j["src"] % len(ecls)
        rels = sorted(oq.RELS[ecls[src]])
        rel = rels[j["rel"] % len(rels)]
        tcls, uselist, kind = oq.RELS[ecls[src]][rel][:3]
        style = j["style"] % 4
        if style == 0 and tcls in unaliased:
            style = 1
        if style == 3 and kind == "m2m":
            style = 2
        if style == 0:
            unaliased.add(tcls)
        joins.append({"src": src, "rel": rel, "outer": bool(j["outer"]), "style": style})
        ecls.append(tcls)
    n = len(ecls)
    sel = []
    for it in (q.get("sel") or [])[:3]:
        t = it[1] % n
        if it[0] == "e":
            item = ["e", t]
        else:
            cols = NONDEF[ecls[t]]
            item = ["c", t, cols[it[2] % len(cols)]]
        if item not in sel:
            sel.append(item)
    if not sel:
        sel = [["e", 0]]
    where = norm_expr(q.get("where"), ecls, model)
    distinct = bool(q.get("distinct"))
    order = []
    for t, ci, desc in q.get("order") or []:
        t = t % n
        cols = NONDEF[ecls[t]]
        order.append([t, cols[ci % len(cols)], bool(desc)])
    if distinct:
        # only selected things may be ordered; total order = every selected item
        allowed_e = {it[1] for it in sel if it[0] == "e"}
        allowed_c = {(it[1], it[2]) for it in sel if it[0] == "c"}
        order = [o for o in order if o[0] in allowed_e or (o[0], o[1]) in allowed_c]
        for it in sel:
            order.append([it[1], "id", False] if it[0] == "e" else [it[1], it[2], False])
    else:
        for t in range(n):
            order.append([t, "id", False])
    return {"root": root, "ralias": bool(q.get("ralias")), "ecls": ecls, "joins": joins, "sel": sel, "where": where, "distinct": distinct,
            "order": order, "limit": q.get("limit"), "offset": q.get("offset")}


def build_orm_rows(nq, objs, legacy_session=None):
    from sqlalchemy import select
    from sqlalchemy.orm import aliased

    fam = oq.family()
    Root = fam.classes[nq["root"]]
    R = aliased(Root) if nq["ralias"] else Root
    ents = [R]
    join_calls = []
    for j in nq["joins"]:
        S = ents[j["src"]]
        scls = nq["ecls"][j["src"]]
        tcls, uselist, kind, lcol, rcol = oq.RELS[scls][j["rel"]]
        T = fam.classes[tcls]
        attr = getattr(S, j["rel"])
        if j["style"] == 0:
            ents.append(T)
            join_calls.append(((attr,), j["outer"]))
        elif j["style"] == 1:
            TA = aliased(T)
            ents.append(TA)
            join_calls.append(((attr.of_type(TA),), j["outer"]))
        elif j["style"] == 2:
            TA = aliased(T)
            ents.append(TA)
            join_calls.append(((TA, attr), j["outer"]))
        else:
            TA = aliased(T)
            ents.append(TA)
            on = (getattr(TA, rcol) == S.id) if kind == "o2m" else (TA.id == getattr(S, lcol))
            join_calls.append(((TA, on), j["outer"]))
    side = OrmSide(ents, nq["ecls"], objs)
    items = [ents[it[1]] if it[0] == "e" else getattr(ents[it[1]], it[2]) for it in nq["sel"]]
    if legacy_session is not None:
        stmt = legacy_session.query(*items).select_from(R)
    else:
        stmt = select(*items).select_from(R)
    for args, outer in join_calls:
        stmt = stmt.join(*args, isouter=outer)
    if nq["where"] is not None:
        w = side.expr(nq["where"])
        stmt = stmt.filter(w) if legacy_session is not None else stmt.where(w)
    if nq["distinct"]:
        stmt = stmt.distinct()
    ob = []
    for t, c, desc in nq["order"]:
        a = getattr(ents[t], c)
        ob.append(a.desc() if desc else a.asc())
    stmt = stmt.order_by(*ob)
    if nq["limit"] is not None:
        stmt = stmt.limit(nq["limit"])
    if nq["offset"] is not None:
        stmt = stmt.offset(nq["offset"])
    return stmt


def build_core_rows(nq, model):
    from sqlalchemy import select

    fam = oq.family()
    ecls = nq["ecls"]
    froms = [fam.tables[oq.CLS_TABLE[c]].alias(f"e{i}") for i, c in enumerate(ecls)]
    frm = froms[0]
    for i, j in enumerate(nq["joins"], start=1):
        src = froms[j["src"]]
        scls = ecls[j["src"]]
        tcls, uselist, kind, lcol, rcol = oq.RELS[scls][j["rel"]]
        tt = froms[i]
        if kind == "o2m":
            frm = frm.join(tt, tt.c[rcol] == src.c.id, isouter=j["outer"])
        elif kind == "m2o":
            frm = frm.join(tt, tt.c.id == src.c[lcol], isouter=j["outer"])
        else:
            sec = fam.tables["parent_tag"].alias(f"s{i}")
            if j["outer"]:
                frm = frm.outerjoin(sec.join(tt, tt.c.id == sec.c[rcol]), sec.c[lcol] == src.c.id)
            else:
                frm = frm.join(sec, sec.c[lcol] == src.c.id).join(tt, tt.c.id == sec.c[rcol])
    side = CoreSide(froms, ecls, model)
    cols, shape = [], []
    for it in nq["sel"]:
        if it[0] == "e":
            names = NONDEF[ecls[it[1]]]
            shape.append(("e", ecls[it[1]], len(names)))
            cols.extend(froms[it[1]].c[nm] for nm in names)
        else:
            shape.append(("c", None, 1))
            cols.append(froms[it[1]].c[it[2]])
    stmt = select(*cols).select_from(frm)
    if nq["where"] is not None:
        stmt = stmt.where(side.expr(nq["where"]))
    if nq["distinct"]:
        stmt = stmt.distinct()
    ob = []
    for t, c, desc in nq["order"]:
        a = froms[t].c[c]
        ob.append(a.desc() if desc else a.asc())
    stmt = stmt.order_by(*ob)
    if nq["limit"] is not None:
        stmt = stmt.limit(nq["limit"])
    if nq["offset"] is not None:
        stmt = stmt.offset(nq["offset"])
    return stmt, shape


def shape_rows(raw_rows, shape):
    out = []
    for r in raw_rows:
        i, row = 0, []
        for kind, cls, n in shape:
            if kind == "e":
                vals = list(r[i:i + n])
                row.append(None if vals[0] is None else [cls, vals[0], vals])
            else:
                row.append(r[i])
            i += n
        out.append(row)
    return out


def canon_orm_rows(rows, sel):
    out = []
    for r in rows:
        row = []
        for it, v in zip(sel, r):
            row.append(canon_entity(v) if it[0] == "e" else v)
        out.append(row)
    return out


def data_flags(data):
    null_fk = any(r[1] is None for t in ("child", "grandchild", "node") for r in data.get(t) or [])
    dup = False
    for t in ("parent", "child", "grandchild", "tag", "node"):
        ni = oq.COLS[t].index("name")
        names = [r[ni] for r in data.get(t) or []]
        if len(names) != len(set(names)):
            dup = True
    return null_fk, dup


def _sig_features(nq):
    feats = []
    if nq.get("ralias"):
        feats.append("ralias")
    for j in nq.get("joins", []):
        feats.append(f"join{j['style']}{'o' if j['outer'] else 'i'}")
    for k in sorted(leaf_kinds(nq.get("where"), set())):
        feats.append(k)
    if nq.get("distinct"):
        feats.append("distinct")
    if nq.get("limit") is not None or nq.get("offset") is not None:
        feats.append("window")
    return "+".join(feats) or "plain"


def check_rows(case, ctx):
    from sqlalchemy import func, select
    from sqlalchemy.orm import Session

    if case.get("sti"):
        return check_sti(case, ctx)
    data = case["data"]
    model = oq.Model(data)
    nq = norm_rows_query(case["q"], model)
    null_fk, dup = data_flags(data)
    kinds = leaf_kinds(nq["where"], set())
    aliased_used = nq["ralias"] or any(j["style"] != 0 for j in nq["joins"])
    interesting = aliased_used or uses_rel(nq["where"]) or uses_subq(nq["where"])
    classes = {f"root:{nq['root']}", f"joins:{len(nq['joins'])}", f"sel:{'+'.join(it[0] for it in nq['sel'])}"}
    classes |= {f"w:{k}" for k in kinds}
    for j in nq["joins"]:
        classes.add(f"joinstyle:{j['style']}{':outer' if j['outer'] else ''}")
    if nq["ralias"]:
        classes.add("root-aliased")
    if nq["distinct"]:
        classes.add("distinct")
    if nq["limit"] is not None or nq["offset"] is not None:
        classes.add("window")

    eng = oq.load_engine(data)
    try:
        core, shape = build_core_rows(nq, model)
        with eng.connect() as conn:
            exp = shape_rows(conn.execute(core).fetchall(), shape)
        classes.add("rows:0" if not exp else ("rows:1-3" if len(exp) <= 3 else "rows:4+"))
        ctx.note(case, interesting and (null_fk or dup), classes=sorted(classes))
        feats = _sig_features(nq)
        wlist, elist = [nq["where"]], [nq["ecls"]]

        # ---- 2.0 style
        with Session(eng) as s:
            objs = load_objs(s, wlist, elist, model)
            stmt = build_orm_rows(nq, objs)
            got = canon_orm_rows(s.execute(stmt).all(), nq["sel"])
            if got != exp:
                raise Violation(f"C41/rows/{_diff_kind(exp, got)}/{feats}", f"ORM rows differ from Core twin; orm={_sql(stmt)} core={_sql(core)}", observed=got, expected=exp)
            cnt = s.scalar(select(func.count()).select_from(stmt.subquery()))
            if cnt != len(exp):
                raise Violation(f"C41/count-over-subquery/{feats}", f"count(*) over the ORM statement = {cnt}, rows = {len(exp)}; {_sql(stmt)}", observed=cnt, expected=len(exp))
            if nq["distinct"] and nq["offset"] is not None:
                # SQLite itself ignores DISTINCT inside EXISTS, so OFFSET counts pre-DISTINCT rows there (raw sqlite3 reproduces it)
                ctx.info("exists-skipped:sqlite-distinct-offset")
                ex = bool(exp)
            else:
                ex = s.scalar(select(stmt.exists()))
            if bool(ex) != bool(exp):
                raise Violation(f"C41/exists/{feats}", f"EXISTS(stmt) = {ex}, rows = {len(exp)}; {_sql(stmt)}", observed=ex, expected=bool(exp))
            s.rollback()

        # ---- legacy Query
        has_entity = any(it[0] == "e" for it in nq["sel"])
        with Session(eng) as s:
            objs = load_objs(s, wlist, elist, model)
            qy = build_orm_rows(nq, objs, legacy_session=s)
            single = len(nq["sel"]) == 1 and nq["sel"][0][0] == "e"  # legacy Query returns bare entities then
            got_all = canon_orm_rows([(o,) for o in qy.all()] if single else qy.all(), nq["sel"])
            exp_all = dedupe_rows(exp) if has_entity else exp
            if got_all != exp_all:
                raise Violation(f"C41/legacy-all/{_diff_kind(exp_all, got_all)}/{feats}", f"Query.all() differs from Core twin{' (de-duplicated)' if has_entity else ''}; {_sql(qy.statement)}",
                                observed=got_all, expected=exp_all)
            c = qy.count()
            if c != len(exp):
                raise Violation(f"C41/legacy-count/{feats}", f"Query.count() = {c}, SQL rows = {len(exp)}", observed=c, expected=len(exp))
            if nq["limit"] != 0:
                f = qy.first()
                gf = canon_orm_rows([(f,) if single else f], nq["sel"])[0] if f is not None else None
                ef = exp[0] if exp else None
                if single and f is None and ef == [None]:
                    gf = [None]  # bare-entity result: "no row" and "row whose outer-joined entity is NULL" look alike
                if gf != ef:
                    raise Violation(f"C41/legacy-first/{feats}", "Query.first() differs from the first row", observed=gf, expected=ef)
            s.rollback()
    finally:
        eng.dispose()


def _diff_kind(exp, got):
    if len(exp) != len(got):
        return "row-count"
    if sorted(map(oq_canon, exp)) == sorted(map(oq_canon, got)):
        return "order"
    return "values"


def _sql(stmt):
    try:
        return str(stmt.compile(compile_kwargs={"literal_binds": True})).replace("\n", " ")[:1500]
    except Exception as e:  # rendering for the message only
        return f"<unrenderable {type(e).__name__}>"


# ------------------------------------------------------------------ strategies
def _basic_leaf(nt):
    t = st.integers(0, nt)
    sv = st.sampled_from([v for v in oq.NAMES if v is not None])
    iv = st.sampled_from([v for v in oq.XS if v is not None] + [3, 4])
    return st.one_of(
        st.tuples(st.just("cmp"), t, st.integers(0, 4), st.sampled_from(OPS), sv, iv).map(list),
        st.tuples(st.just("isnull"), t, st.integers(0, 4), st.booleans()).map(list),
        st.tuples(st.just("in"), t, st.integers(0, 4), st.lists(sv, min_size=1, max_size=3), st.lists(iv, min_size=1, max_size=3)).map(list),
        st.tuples(st.just("like"), t, st.integers(0, 4), st.sampled_from(["a%", "%b", "%", "_", "A%"])).map(list),
        st.tuples(st.just("colcmp"), t, st.integers(0, 2), st.sampled_from(OPS), t, st.integers(0, 2)).map(list),
    )


def _inner():
    leaf = _basic_leaf(0)
    # criterion handed to any()/has()/exists()/IN-subquery; CASE first: it is re-targeted by ClauseAdapter for self-referential any()
    return st.one_of(leaf.map(lambda e: ["case", e]), leaf, st.none(), leaf, st.tuples(st.sampled_from(["and", "or"]), leaf, leaf).map(list),
                     leaf.map(lambda e: ["not", e]))


def _rel_leaf(nt):
    t = st.integers(0, nt)
    ri = st.integers(0, 1)
    return st.one_of(
        st.tuples(st.just("releq"), t, ri, st.integers(0, 30), st.booleans()).map(list),
        st.tuples(st.just("any"), t, ri, _inner(), st.integers(0, 2)).map(list),
        st.tuples(st.just("relnull"), t, ri, st.booleans()).map(list),
        st.tuples(st.just("any"), t, ri, _inner(), st.integers(0, 1)).map(list),
        st.tuples(st.just("subcount"), t, ri, st.sampled_from(OPS), st.integers(0, 3)).map(list),
        st.tuples(st.just("exists"), t, ri, _inner()).map(list),
        st.tuples(st.just("insub"), t, ri, _inner()).map(list),
    )


def _case_leaf(nt):
    b = _basic_leaf(nt)
    return st.one_of(b, st.tuples(st.sampled_from(["and", "or"]), b, b).map(list), b.map(lambda e: ["not", e])).map(lambda e: ["case", e])


def where_trees(nt, max_leaves=4):
    # Hypothesis favours the first alternatives: relationship leaves first, plain column predicates last
    leaf = st.one_of(_rel_leaf(nt), _case_leaf(nt), _basic_leaf(nt))
    return st.recursive(
        leaf,
        lambda ch: st.one_of(st.tuples(st.sampled_from(["or", "and"]), ch, ch).map(list), ch.map(lambda e: ["not", e])),
        max_leaves=max_leaves,
    )


# strategies are built once (constructing st.recursive inside a composite on every draw is very slow)
_DATA = oq.datasets(max_parents=5, max_children=3, max_grand=2)
_WHERE = {nt: st.one_of(where_trees(nt), st.none()) for nt in (0, 1, 2)}
_WHERE3 = {nt: st.one_of(where_trees(nt, max_leaves=3), st.none()) for nt in (0, 1)}
_SEL = st.lists(st.one_of(st.tuples(st.just("e"), st.integers(0, 2)).map(list), st.tuples(st.just("c"), st.integers(0, 2), st.integers(0, 4)).map(list)),
                min_size=0, max_size=3)
_ORDER = st.lists(st.tuples(st.integers(0, 2), st.integers(0, 4), st.booleans()).map(list), max_size=2)


@st.composite
def _rows_cases(draw):
    data = draw(_DATA)
    root = draw(st.sampled_from(["Node", "Child", "Parent", "Node", "Child", "Parent", "Grandchild", "Tag"]))
    nj = draw(st.sampled_from([1, 0, 2, 1]))
    joins = [{"src": draw(st.integers(0, 1)), "rel": draw(st.integers(0, 1)), "outer": draw(st.booleans()), "style": draw(st.integers(0, 3))} for _ in range(nj)]
    sel = draw(_SEL)
    window = draw(st.sampled_from(["none", "limit", "none", "limit+offset", "none", "offset"]))
    q = {
        "root": root, "ralias": draw(st.booleans()), "joins": joins, "sel": sel,
        "where": draw(_WHERE[nj]),
        "distinct": draw(st.sampled_from([False, False, True])),
        "order": draw(_ORDER),
        "limit": draw(st.sampled_from([3, 1, 2, 5, 8, 0])) if "limit" in window else None,
        "offset": draw(st.sampled_from([1, 0, 2])) if "offset" in window else None,
    }
    return {"data": data, "q": q}


# ------------------------------------------------------------------ single-table inheritance shapes (inside sub-check "rows")
STI_CLASSES = ["Engineer", "Manager", "Employee", "Boss"]
EMP_NONPK = ["type", "boss_id", "name", "x"]


def norm_sti(q):
    """2-3 entities over the one `employee` table; at most one un-aliased (all share the table); every later entity is
    linked to an earlier one by boss_id = id, either in WHERE (plain FROM elements), by join(target, onclause) or by
    join(src.boss.of_type(target))"""
    ents, unaliased_used = [], False
    for ci, al in (q.get("ents") or [])[:3]:
        cls = STI_CLASSES[ci % len(STI_CLASSES)]
        al = bool(al) or unaliased_used
        if not al:
            unaliased_used = True
        ents.append([cls, al])
    while len(ents) < 2:
        ents.append([ents[0][0] if ents else "Engineer", True])
    n = len(ents)
    links = []
    for i in range(1, n):
        raw = (q.get("links") or [[0, False, 0, False]] * 3)[(i - 1) % max(len(q.get("links") or [1]), 1)] if q.get("links") else [0, False, 0, False]
        style = ["where", "join", "rel"][raw[0] % 3]
        src = raw[2] % i
        flip = bool(raw[3]) and style != "rel"  # rel: target is the boss of src
        links.append({"style": style, "outer": bool(raw[1]) and style != "where", "src": src, "flip": flip})
    # joins must precede where-linked entities only in the sense that a join's source is already in the FROM chain:
    # a join whose source is a where-linked entity is rewritten as where-linked too
    in_chain = {0}
    for i, l in enumerate(links, start=1):
        if l["style"] != "where":
            if l["src"] in in_chain:
                in_chain.add(i)
            else:
                l["style"], l["outer"] = "where", False
    sel = []
    for it in (q.get("sel") or [])[:3]:
        t = it[1] % n
        item = ["e", t] if it[0] == "e" else ["c", t, (["id"] + EMP_NONPK)[it[2] % 5]]
        if item not in sel:
            sel.append(item)
    if not sel:
        sel = [["c", 0, "id"], ["c", 1, "id"]]
    where = _norm_sti_where(q.get("where"), n)
    distinct = bool(q.get("distinct"))
    if distinct:
        order = [[it[1], "id", False] if it[0] == "e" else [it[1], it[2], False] for it in sel]
    else:
        order = [[t % n, (["id"] + EMP_NONPK)[c % 5], bool(d)] for t, c, d in (q.get("order") or [])] + [[t, "id", False] for t in range(n)]
    return {"ents": ents, "links": links, "sel": sel, "where": where, "distinct": distinct, "order": order, "limit": q.get("limit"), "offset": q.get("offset")}


def _norm_sti_where(e, n):
    if e is None:
        return None
    if e[0] in ("and", "or"):
        return [e[0], _norm_sti_where(e[1], n), _norm_sti_where(e[2], n)]
    if e[0] in ("not", "case"):
        return [e[0], _norm_sti_where(e[1], n)]
    k, t = e[0], e[1] % n
    if k == "colcmp":
        ints = ["id", "boss_id", "x"]
        return ["colcmp", t, ints[e[2] % 3], e[3], e[4] % n, ints[e[5] % 3]]
    col = ["name", "x", "boss_id", "id", "type"][e[2] % 5]
    is_str = col in ("name", "type")
    if k == "cmp":
        sv = e[4] if col == "name" else ["eng", "mgr", "emp", "boss"][len(e[4]) % 4]
        return ["cmp", t, col, e[3], sv if is_str else e[5]]
    if k == "isnull":
        return ["isnull", t, col, bool(e[3])]
    if k == "in":
        return ["in", t, col, list(e[3]) if col == "name" else (["eng", "boss"] if is_str else list(e[4]))]
    return ["like", t, col, e[3]] if is_str else ["isnull", t, col, True]


def _sti_link(a_src, a_tgt, flip):
    """target is the boss of src (src.boss_id = target.id), or the other way round when flipped"""
    return (a_tgt.boss_id == a_src.id) if flip else (a_src.boss_id == a_tgt.id)


def build_orm_sti(nq, legacy_session=None):
    from sqlalchemy import select
    from sqlalchemy.orm import aliased

    fam = oq.family()
    ents = [aliased(fam.classes[c]) if al else fam.classes[c] for c, al in nq["ents"]]
    items = [ents[it[1]] if it[0] == "e" else getattr(ents[it[1]], it[2]) for it in nq["sel"]]
    stmt = legacy_session.query(*items) if legacy_session is not None else select(*items)
    if any(l["style"] != "where" for l in nq["links"]):
        stmt = stmt.select_from(ents[0])
    wheres = []
    for i, l in enumerate(nq["links"], start=1):
        S, T = ents[l["src"]], ents[i]
        if l["style"] == "where":
            wheres.append(_sti_link(S, T, l["flip"]))
        elif l["style"] == "join":
            stmt = stmt.join(T, _sti_link(S, T, l["flip"]), isouter=l["outer"])
        else:
            stmt = stmt.join(S.boss.of_type(T), isouter=l["outer"])
    for w in wheres:  # each link is its own top-level WHERE criterion
        stmt = stmt.filter(w) if legacy_session is not None else stmt.where(w)
    if nq["where"] is not None:
        w = oq.expr_sa(nq["where"], lambda t, name: getattr(ents[t], name))
        stmt = stmt.filter(w) if legacy_session is not None else stmt.where(w)
    if nq["distinct"]:
        stmt = stmt.distinct()
    stmt = stmt.order_by(*[(getattr(ents[t], c).desc() if d else getattr(ents[t], c).asc()) for t, c, d in nq["order"]])
    if nq["limit"] is not None:
        stmt = stmt.limit(nq["limit"])
    if nq["offset"] is not None:
        stmt = stmt.offset(nq["offset"])
    return stmt


def build_core_sti(nq):
    """twin on aliased Tables with the explicit discriminator predicate on EACH entity (in the ON clause for joined ones)"""
    from sqlalchemy import and_, select, true

    tbl = oq.family().tables["employee"]
    froms = [tbl.alias(f"s{i}") for i in range(len(nq["ents"]))]

    def disc(i):
        vals = oq.EMP_DISC[nq["ents"][i][0]]
        return froms[i].c.type.in_(vals) if vals is not None else None

    frm, joined = froms[0], False
    wheres = [] if disc(0) is None else [disc(0)]
    for i, l in enumerate(nq["links"], start=1):
        S, T = froms[l["src"]], froms[i]
        link = (T.c.boss_id == S.c.id) if l["flip"] else (S.c.boss_id == T.c.id)
        d = disc(i)
        if l["style"] == "where":
            wheres.append(link)
            if d is not None:
                wheres.append(d)
        else:
            frm = frm.join(T, link if d is None else and_(link, d), isouter=l["outer"])
            joined = True
    cols, shape = [], []
    for it in nq["sel"]:
        if it[0] == "e":
            shape.append(("e", None, len(oq.EMP_COLS)))
            cols.extend(froms[it[1]].c[c] for c in oq.EMP_COLS)
        else:
            shape.append(("c", None, 1))
            cols.append(froms[it[1]].c[it[2]])
    stmt = select(*cols)
    if joined:
        stmt = stmt.select_from(frm)
    for w in wheres:
        stmt = stmt.where(w)
    if nq["where"] is not None:
        stmt = stmt.where(oq.expr_sa(nq["where"], lambda t, name: froms[t].c[name]))
    if nq["distinct"]:
        stmt = stmt.distinct()
    stmt = stmt.order_by(*[(froms[t].c[c].desc() if d else froms[t].c[c].asc()) for t, c, d in nq["order"]])
    if nq["limit"] is not None:
        stmt = stmt.limit(nq["limit"])
    if nq["offset"] is not None:
        stmt = stmt.offset(nq["offset"])
    return stmt, shape


def _sti_shape_rows(raw, shape):
    out = []
    for r in raw:
        i, row = 0, []
        for kind, _, n in shape:
            if kind == "e":
                vals = list(r[i:i + n])
                row.append(None if vals[0] is None else [oq.EMP_TYPE_CLS[vals[1]], vals[0], vals])
            else:
                row.append(r[i])
            i += n
        out.append(row)
    return out


def _sti_canon(rows, sel, single=False):
    out = []
    for r in rows:
        if single:
            r = (r,)
        row = []
        for it, v in zip(sel, r):
            if it[0] == "e":
                row.append(None if v is None else [type(v).__name__, v.id, [getattr(v, c) for c in oq.EMP_COLS]])
            else:
                row.append(v)
        out.append(row)
    return out


def check_sti(case, ctx):
    from sqlalchemy import func, select
    from sqlalchemy.orm import Session

    nq = norm_sti(case["q"])
    emp = case["emp"]
    classes = {"sti"}
    ecls = [c for c, _ in nq["ents"]]
    sub_ents = [c for c in ecls if c != "Employee"]
    same_twice = any(sub_ents.count(c) >= 2 for c in set(sub_ents))
    if same_twice:
        classes.add("sti:same-subclass-twice")
    if len(set(sub_ents)) >= 2:
        classes.add("sti:sibling-subclasses")
    for l in nq["links"]:
        classes.add(f"sti:link-{l['style']}{':outer' if l['outer'] else ''}")
    if same_twice and any(l["style"] == "where" for l in nq["links"]):
        classes.add("sti:same-subclass-twice:where-linked")
    classes.add("sti:sel:" + "+".join(it[0] for it in nq["sel"]))
    if any(not al for _, al in nq["ents"]):
        classes.add("sti:one-unaliased")
    feats = "sti+" + "+".join(sorted(c.split(":", 1)[1] for c in classes if c.startswith("sti:") and not c.startswith("sti:sel")))
    eng = oq.load_engine({"employee": emp})
    try:
        core, shape = build_core_sti(nq)
        with eng.connect() as conn:
            exp = _sti_shape_rows(conn.execute(core).fetchall(), shape)
        classes.add("sti:rows:0" if not exp else "sti:rows:1+")
        ctx.note(case, len(sub_ents) >= 1, classes=sorted(classes))
        single = len(nq["sel"]) == 1 and nq["sel"][0][0] == "e"
        has_entity = any(it[0] == "e" for it in nq["sel"])
        with Session(eng) as s:
            stmt = build_orm_sti(nq)
            got = _sti_canon(s.execute(stmt).all(), nq["sel"])
            if got != exp:
                raise Violation(f"C41/rows/{_diff_kind(exp, got)}/{feats}", f"ORM rows differ from Core twin; orm={_sql(stmt)} core={_sql(core)}", observed=got, expected=exp)
            cnt = s.scalar(select(func.count()).select_from(stmt.subquery()))
            if cnt != len(exp):
                raise Violation(f"C41/count-over-subquery/{feats}", f"count(*) over the ORM statement = {cnt}, rows = {len(exp)}; {_sql(stmt)}", observed=cnt, expected=len(exp))
            if not (nq["distinct"] and nq["offset"] is not None):
                ex = s.scalar(select(stmt.exists()))
                if bool(ex) != bool(exp):
                    raise Violation(f"C41/exists/{feats}", f"EXISTS(stmt) = {ex}, rows = {len(exp)}; {_sql(stmt)}", observed=ex, expected=bool(exp))
            s.rollback()
        with Session(eng) as s:
            qy = build_orm_sti(nq, legacy_session=s)
            got_all = _sti_canon(qy.all(), nq["sel"], single=single)
            exp_all = dedupe_rows(exp) if has_entity else exp
            if got_all != exp_all:
                raise Violation(f"C41/legacy-all/{_diff_kind(exp_all, got_all)}/{feats}", f"Query.all() differs from Core twin; {_sql(qy.statement)}", observed=got_all, expected=exp_all)
            c = qy.count()
            if c != len(exp):
                raise Violation(f"C41/legacy-count/{feats}", f"Query.count() = {c}, SQL rows = {len(exp)}", observed=c, expected=len(exp))
            s.rollback()
    finally:
        eng.dispose()


@st.composite
def _sti_cases(draw):
    n = draw(st.sampled_from([12, 10, 14, 8, 16, 6, 3]))
    emp = []
    for i in range(n):
        code = draw(st.integers(0, 8 * 6 * 5 - 1))
        typ = ["eng", "mgr", "eng", "mgr", "boss", "emp", "eng", "mgr"][(code + i) % 8]  # scattered even when Hypothesis draws small numbers
        name, x = oq.NAMES[code // 8 % 6], oq.XS[code // 48 % 5]
        k = draw(st.integers(0, n))
        k = (k * 5 + i * 3 + 1) % (n + 1)
        emp.append([i + 1, typ, None if k == 0 else k, name, x])
    q = {
        "ents": draw(st.lists(st.tuples(st.sampled_from([0, 0, 1, 2, 0, 3]), st.sampled_from([True, True, False])).map(list), min_size=2, max_size=3)),
        "links": draw(st.lists(st.tuples(st.sampled_from([0, 1, 0, 2]), st.booleans(), st.integers(0, 1), st.booleans()).map(list), min_size=2, max_size=2)),
        "sel": draw(st.lists(st.one_of(st.tuples(st.just("c"), st.integers(0, 2), st.sampled_from([0, 0, 3, 4, 1])).map(list), st.tuples(st.just("e"), st.integers(0, 2)).map(list)),
                             min_size=0, max_size=3)),
        "where": draw(st.one_of(st.none(), st.none(), _STI_WHERE)),
        "distinct": draw(st.sampled_from([False, False, True])),
        "order": draw(_ORDER),
        "limit": draw(st.sampled_from([None, None, None, 3, 6, 1, 0])),
        "offset": draw(st.sampled_from([None, None, None, 1, 0, 2])),
    }
    return {"sti": True, "emp": emp, "q": q}


_STI_LEAF = st.one_of(_basic_leaf(2), _case_leaf(2))
_STI_WHERE = st.recursive(_STI_LEAF, lambda ch: st.one_of(st.tuples(st.sampled_from(["or", "and"]), ch, ch).map(list), ch.map(lambda e: ["not", e])), max_leaves=3)



def subs(tier):
    from checks import _c41_compound as cc

    return [
        Generated("rows", check_rows, strategy=st.one_of(_rows_cases(), _sti_cases(), _rows_cases(), _rows_cases()), quick=1600, thorough=40000, budget_s_quick=22.0),
        Generated("compound", cc.check_compound, strategy=cc.cases(), quick=800, thorough=20000, budget_s_quick=15.0),
    ]
