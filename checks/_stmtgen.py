"""Shared statement generator for C02 / C03 / C17 (owned by the C02/C03/C17 author).

* a small fixed schema (3 tables with colliding column names, FK chain a<-b<-c)
  plus an imperative ORM mapping A/B/C over it, built once per process (never
  mutated by the checks);
* *abstract* statement descriptions (JSON-able dicts / lists) and Hypothesis
  strategies for them;
* ``build(desc, tagger, order=k)`` -> real SQLAlchemy Core / ORM statement.  Every
  literal is a *unique tagged token* (``Tagger``): an int ``base*STRIDE + tag`` or
  a string ``<letter><tag>``, the tag being unique per (sibling, literal slot), so
  that a parameter taken from the wrong statement is visible, while the row set
  depends only on ``base`` (table data sits at ``k*STRIDE + STRIDE/2`` / ``<letter>5``);
* structural-sibling derivation for C02: ``apply_toggles(desc, names)``.

Column references are indices resolved modulo the tables in scope, so every
description (and every toggled sibling) is a valid statement by construction.
"""
from __future__ import annotations

import collections
import copy as _copy

from hypothesis import strategies as st
from sqlalchemy import (
    ARRAY,
    JSON,
    BigInteger,
    Boolean,
    Column,
    DateTime,
    Enum,
    Float,
    ForeignKey,
    Integer,
    MetaData,
    Numeric,
    String,
    Table,
    Text,
    TypeDecorator,
    all_,
    and_,
    any_,
    bindparam,
    case,
    cast,
    column as sa_column,
    delete,
    except_,
    exists,
    func,
    insert,
    intersect,
    join as sa_join,
    literal,
    not_,
    or_,
    select,
    text,
    true,
    type_coerce,
    union,
    union_all,
    update,
)
from sqlalchemy.orm import (
    contains_eager,
    defer,
    joinedload,
    lazyload,
    load_only,
    raiseload,
    registry,
    relationship,
    selectinload,
    subqueryload,
    with_loader_criteria,
)
from sqlalchemy.sql import LABEL_STYLE_DISAMBIGUATE_ONLY, LABEL_STYLE_NONE, LABEL_STYLE_TABLENAME_PLUS_COL

STRIDE = 100000
LETTERS = "abcdefghij"

# ------------------------------------------------------------------ schema
metadata = MetaData()
ta = Table(
    "ta", metadata,
    Column("id", Integer, primary_key=True),
    Column("x", Integer),
    Column("y", Integer),
    Column("s", String(30)),
)
tb = Table(
    "tb", metadata,
    Column("id", Integer, primary_key=True),
    Column("a_id", Integer, ForeignKey("ta.id")),
    Column("x", Integer),
    Column("s", String(30)),
)
tc = Table(
    "tc", metadata,
    Column("id", Integer, primary_key=True),
    Column("b_id", Integer, ForeignKey("tb.id")),
    Column("y", Integer),
    Column("s", String(30)),
)
TABLES = [ta, tb, tc]
INT_COLS = [["id", "x", "y"], ["id", "a_id", "x"], ["id", "b_id", "y"]]
DATA_COLS = [["x", "y"], ["a_id", "x"], ["b_id", "y"]]  # int columns other than the PK
# FK adjacency: (child, parent, child col)
FK = {(1, 0): "a_id", (2, 1): "b_id"}


class A:
    pass


class B:
    pass


class C:
    pass


reg = registry()
reg.map_imperatively(A, ta, properties={"bs": relationship(B, back_populates="a", order_by=tb.c.id)})
reg.map_imperatively(
    B, tb,
    properties={
        "a": relationship(A, back_populates="bs"),
        "cs": relationship(C, back_populates="b", order_by=tc.c.id),
    },
)
reg.map_imperatively(C, tc, properties={"b": relationship(B, back_populates="cs")})
ENTS = [A, B, C]
RELS = [["bs"], ["a", "cs"], ["b"]]  # relationship names per entity
REL_TARGET = {(0, "bs"): 1, (1, "a"): 0, (1, "cs"): 2, (2, "b"): 1}
reg.configure()


def int_token(base, tag):
    return (base % 10) * STRIDE + tag


def str_token(base, tag):
    return "%s%04d" % (LETTERS[base % 10], tag)


def data_rows(data):
    """data: {"a": [[xb, yb|None, sb|None], ...], "b": [[a_ref, xb|None, sb], ...], "c": [[b_ref, yb, sb], ...]}
    -> dict table -> list of row dicts.  ids are 1..n; refs are index modulo parent count (or NULL)."""

    def iv(b):
        return None if b is None else (b % 10) * STRIDE + STRIDE // 2

    def sv(b):
        return None if b is None else LETTERS[b % 10] + "5"

    ra = [{"id": i + 1, "x": iv(r[0]) or 0, "y": iv(r[1]), "s": sv(r[2])} for i, r in enumerate(data.get("a", []))]
    rb = [
        {"id": i + 1, "a_id": (None if r[0] is None or not ra else r[0] % len(ra) + 1), "x": iv(r[1]), "s": sv(r[2])}
        for i, r in enumerate(data.get("b", []))
    ]
    rc = [
        {"id": i + 1, "b_id": (None if r[0] is None or not rb else r[0] % len(rb) + 1), "y": iv(r[1]), "s": sv(r[2])}
        for i, r in enumerate(data.get("c", []))
    ]
    return {"ta": ra, "tb": rb, "tc": rc}


def load_data(conn, data):
    rows = data_rows(data)
    for t in TABLES:
        if rows[t.name]:
            conn.exec_driver_sql(
                "INSERT INTO %s VALUES (?, ?, ?, ?)" % t.name,
                [tuple(r[c.name] for c in t.c) for r in rows[t.name]],
            )


_nb = st.one_of(st.none(), st.integers(0, 9))
_b = st.integers(0, 9)
data_strategy = st.fixed_dictionaries(
    {
        "a": st.lists(st.tuples(_b, _nb, _nb).map(list), min_size=1, max_size=6),
        "b": st.lists(st.tuples(_nb, _nb, _nb).map(list), max_size=6),
        "c": st.lists(st.tuples(_nb, _nb, _nb).map(list), max_size=5),
    }
)


# ------------------------------------------------------------------ tagger
class Tagger:
    """hands out unique tagged literal values.  ``sib`` is the sibling number in
    the history (tags are unique over the history), ``vals`` perturbs the
    ``base`` part (which is what decides the rows) per literal slot."""

    def __init__(self, sib=0, vals=()):
        self.sib = sib
        self.vals = list(vals)
        self.n = 0
        self.values = []  # every literal handed out (python values)

    def _slot(self, base, mod=10):
        k = self.n
        self.n += 1
        if self.vals:
            base = base + self.vals[k % len(self.vals)]
        return k, base % mod

    def tag(self, k):
        return self.sib * 100 + (k % 99) + 1

    def int(self, base):
        k, b = self._slot(base)
        v = int_token(b, self.tag(k))
        self.values.append(v)
        return v

    def str(self, base):
        k, b = self._slot(base)
        v = str_token(b, self.tag(k))
        self.values.append(v)
        return v

    def small(self, base, mod):
        k, b = self._slot(base, mod)
        return b

    def name(self):
        k = self.n
        self.n += 1
        return k


# ------------------------------------------------------------------ concretize
LIT_HEADS = ("li", "ls", "lx", "lt", "bp", "lim", "inl")


def concretize(node, tg):
    """replace abstract literal nodes by concrete ones, in canonical traversal
    order (independent of the order in which the statement is later built):
    ["li", b] -> ["v", value, "i"]; ["ls", b] -> ["v", value, "s"]; ["lx", b] -> ["v", value, "ix"] (literal_execute)
    ["lt", b, typ] -> ["v", value, typ] (typed literal); ["bp", b] -> ["bpv", name, value]
    ["lim", b] -> ["limv", small]; ["inl", n, b] -> ["inv", [values]]"""
    if isinstance(node, dict):
        return {k: concretize(node[k], tg) for k in sorted(node)}
    if isinstance(node, (list, tuple)):
        if node and isinstance(node[0], str) and node[0] in LIT_HEADS:
            h = node[0]
            if h == "li":
                return ["v", tg.int(node[1]), "i"]
            if h == "ls":
                return ["v", tg.str(node[1]), "s"]
            if h == "lx":
                return ["v", tg.int(node[1]), "ix"]
            if h == "lt":
                return ["v", tg.str(node[1]) if node[2] in ("s", "t") else tg.int(node[1]), node[2]]
            if h == "bp":
                v = tg.int(node[1])
                return ["bpv", "p%d" % (tg.n - 1), v, (node[2] if len(node) > 2 else 0) % 4]
            if h == "lim":
                return ["limv", tg.small(node[1], 6)]
            if h == "inl":
                n = tg.small(node[1], 4)
                return ["inv", [tg.int(node[2] + i) for i in range(n)]]
        return [concretize(x, tg) for x in node]
    return node


# ------------------------------------------------------------------ expression builder
class Env:
    """column resolution scope.  ``srcs``: list of (table index, accessor) where
    accessor(name) returns the column / attribute."""

    def __init__(self, srcs, params=None, orm=False):
        self.srcs = srcs
        self.params = params if params is not None else {}
        self.orm = orm

    def icol(self, ti, ci):
        t, acc = self.srcs[ti % len(self.srcs)]
        names = INT_COLS[t]
        return acc(names[ci % len(names)])

    def scol(self, ti):
        t, acc = self.srcs[ti % len(self.srcs)]
        return acc("s")


def table_src(t, orm=False):
    if orm:
        ent = ENTS[t]
        return (t, lambda n, ent=ent: getattr(ent, n))
    tbl = TABLES[t]
    return (t, lambda n, tbl=tbl: tbl.c[n])


def sel_src(t, selectable):
    return (t, lambda n, s=selectable: s.c[n])


class DeltaInt(TypeDecorator):
    """integer type with a bind processor that depends on a constructor argument
    (part of the cache key through cache_ok): value + delta is what reaches the cursor"""

    impl = Integer
    cache_ok = True

    def __init__(self, delta=1):
        super().__init__()
        self.delta = delta

    def process_bind_param(self, value, dialect):
        return None if value is None else value + self.delta

    def process_literal_param(self, value, dialect):
        return "NULL" if value is None else str(value + self.delta)


class NoCacheInt(TypeDecorator):
    """a type that opts out of caching: statements using it have no cache key"""

    impl = Integer
    cache_ok = False

    def process_bind_param(self, value, dialect):
        return value


class DecNum(TypeDecorator):
    """TypeDecorator over Numeric whose constructor arguments are its cache key (cache_ok contract)"""

    impl = Numeric
    cache_ok = True

    def __init__(self, precision=None, scale=None):
        self.precision = precision
        self.scale = scale
        super().__init__(precision, scale)


def _nv(*a):
    return Numeric(*a).with_variant(String(7), "mysql")


# type-argument families: variants 2k / 2k+1 form a pair that the "type_arg" toggle switches between; pair (0, 1) is
# "argument absent" vs "falsy but meaningful argument"
NUM_FAMS = [
    [Numeric(10), Numeric(10, 0), Numeric(10, 2), Numeric(10, 4)],
    [Float(asdecimal=True), Float(asdecimal=True, decimal_return_scale=0), Float(asdecimal=True, decimal_return_scale=2), Float(asdecimal=True, decimal_return_scale=5)],
    [DecNum(10), DecNum(10, 0), DecNum(10, 2), DecNum(10, 4)],
    [_nv(10), _nv(10, 0), _nv(10, 2), _nv(10, 4)],
]
OTHER_FAMS = [
    ("str", [String(), String(5), String(10), String(20)]),
    ("enum", [Enum("a", "b", name="e1"), Enum("a", "bb", name="e1"), Enum("a", "b", "ccc", name="e1"), Enum("a", "dddd", name="e1")]),
    ("bool", [Boolean(), Boolean(create_constraint=True), Boolean(create_constraint=True, name="ck1"), Boolean(create_constraint=True, name="ck2")]),
    ("dt", [DateTime(), DateTime(timezone=True), DateTime(timezone=False), DateTime(timezone=True)]),
]
# pairs that reproduce confirmed findings (equal cache keys, different SQL / result processing); pinned replays only
PINNED_FAMS = {
    "V": ("num", [Numeric(10, 2).with_variant(Numeric(10, 0), "sqlite"), Numeric(10, 2).with_variant(Numeric(10, 4), "sqlite")]),
    "E": ("enum", [Enum("a", "b", name="e1"), Enum("a", "c", name="e2")]),
}
N_FAMS = len(NUM_FAMS) + len(OTHER_FAMS)


def _typed(n, env):
    """["tc", mode, operand, fam, arg, pinned_fam|None]: cast (0) / type_coerce (1) / typed literal (2) to a drawn type
    with a drawn constructor-argument variant"""
    mode, e, fam, arg = n[1], n[2], n[3], n[4]
    pf = n[5] if len(n) > 5 else None
    if pf:
        kind, variants = PINNED_FAMS[pf]
    elif fam % N_FAMS < len(NUM_FAMS):
        kind, variants = "num", NUM_FAMS[fam % N_FAMS]
    else:
        kind, variants = OTHER_FAMS[fam % N_FAMS - len(NUM_FAMS)]
    typ = variants[arg % len(variants)]
    if kind == "num":
        if mode == 2 and e[0] == "v" and e[2] in ("i", "I"):
            return literal(e[1] / 8.0 + 0.375, type_=typ)
        operand = _col(bx(e, env)) / 8.0 + 0.375  # fractional values, so that the scale argument shows in the rows
    elif kind == "enum":
        operand = literal("a", type_=String)
    elif kind == "dt":
        # SQLite has no date type: CAST('2020-01-02 ...' AS DATETIME) has NUMERIC affinity and yields the integer 2020, which the
        # DateTime result processor rightly refuses; the value only round-trips through type_coerce
        operand = literal("2020-01-02 03:04:05.000000", type_=String)
        mode = 1
    else:
        operand = _col(bx(e, env))
    return type_coerce(operand, typ) if mode == 1 else cast(operand, typ)


TYPES = {"i": Integer, "s": String, "I": BigInteger, "t": Text, "D1": DeltaInt(1), "D2": DeltaInt(2), "N": NoCacheInt()}
_TYPE_CYCLE = {"i": "I", "I": "D1", "D1": "D2", "D2": "N", "N": "i", "s": "t", "t": "s"}
CMP = {
    "==": lambda a, b: a == b,
    "!=": lambda a, b: a != b,
    "<": lambda a, b: a < b,
    "<=": lambda a, b: a <= b,
    ">": lambda a, b: a > b,
    ">=": lambda a, b: a >= b,
}
ARITH = {"+": lambda a, b: a + b, "-": lambda a, b: a - b, "*": lambda a, b: a * b}
_sq_counter = [0]


# how often each compile-time-rewritten operator family was built (read by C03 for its class labels)
STATS = collections.Counter()
LK_KINDS = ["like", "ilike", "starts", "ends", "contains", "istarts", "iends", "icontains"]


def _lk(n, env):
    """["lk", operand, kind, literal, neg, esc, full]: the LIKE family the compiler rewrites at compile time
    (startswith / endswith / contains and their case-insensitive forms, [i]like with ESCAPE, negations)"""
    e = _col(bx(n[1], env))
    kind, val, neg, esc = n[2], n[3][1], n[4], n[5]
    pat = val if (len(n) > 6 and n[6]) else val[:1]
    kw = {}
    if esc == "esc":
        kw["escape"] = "/"
    if kind in ("like", "ilike"):
        pat = pat + ("/%%" if esc == "esc" else "") + "%"
        r = getattr(e, kind)(pat, **kw)
    else:
        if esc == "auto":
            kw["autoescape"] = True
            pat = pat + "%_"
        meth = {"starts": "startswith", "ends": "endswith", "contains": "contains", "istarts": "istartswith", "iends": "iendswith", "icontains": "icontains"}[kind]
        r = getattr(e, meth)(pat, **kw)
    STATS["lk:" + ("not_" if neg else "") + kind] += 1
    return ~r if neg else r


def bx(n, env):
    """concrete expression node -> SQLAlchemy column expression"""
    h = n[0]
    if h == "lk":
        return _lk(n, env)
    if h == "rx":  # regexp_match (sqlite: REGEXP through the driver's registered function)
        STATS["regexp_match"] += 1
        r = _col(bx(n[1], env)).regexp_match(n[2][1][:1] + ".*")
        return ~r if n[3] else r
    if h == "idf":
        STATS["is_distinct_from"] += 1
        a, b = _col(bx(n[1], env)), bx(n[2], env)
        return a.is_not_distinct_from(b) if n[3] else a.is_distinct_from(b)
    # ---- compile-only operators (C03): not executable on SQLite
    if h == "rxr":
        STATS["regexp_replace"] += 1
        return _col(bx(n[1], env)).regexp_replace(n[2][1][:1] + ".", n[3][1])
    if h == "match":
        STATS["match"] += 1
        r = _col(bx(n[1], env)).match(n[2][1])
        return ~r if n[3] else r
    if h == "anyall":
        STATS["any_all"] += 1
        arr = literal(list(n[3][1]) if n[3][0] == "inv" else [1, 2], type_=ARRAY(Integer))
        return _col(bx(n[2], env)) == (any_(arr) if n[1] else all_(arr))
    if h == "jget":
        STATS["json_getitem"] += 1
        j = cast(_col(bx(n[1], env)), JSON)[["k", "a b", 0][n[2] % 3]]
        return j.as_integer() if n[3] else j.as_string()
    if h == "aget":
        STATS["array_getitem"] += 1
        return literal([n[1][1], n[2][1]], type_=ARRAY(Integer))[1 + n[3] % 2]
    if h == "ci":
        return env.icol(n[1], n[2])
    if h == "cs":
        return env.scol(n[1])
    if h == "v":
        v, typ = n[1], n[2]
        if typ == "ix":
            return bindparam(None, v, type_=Integer, literal_execute=True)
        return literal(v, type_=TYPES[typ])
    if h == "raw":  # python value used directly as an operand (coerced by the other side)
        return n[1]
    if h == "bpv":
        # how the value of the named bind arrives ("bind source"): 0 execute()-time parameter, 1 plain value on the
        # bindparam, 2 callable_ on the bindparam, 3 statement.params(); none of them is part of the cache key
        src = n[3] if len(n) > 3 else 0
        STATS["bind_src:%d" % src] += 1
        if src == 1:
            return bindparam(n[1], n[2], type_=Integer)
        if src == 2:
            return bindparam(n[1], callable_=(lambda v=n[2]: v), type_=Integer)
        if src == 3:
            env.params.setdefault("__post__", {})[n[1]] = n[2]
            return bindparam(n[1], type_=Integer)
        env.params[n[1]] = n[2]
        return bindparam(n[1], type_=Integer)
    if h == "ar":
        return ARITH[n[1]](_col(bx(n[2], env)), bx(n[3], env))
    if h == "fn":
        name = n[1]
        args = [bx(a, env) for a in n[2:]]
        if name == "abs":
            return func.abs(_col(args[0]))
        if name == "coalesce":
            return func.coalesce(*[_col(a) for a in args])
        if name == "length":
            return func.length(_col(args[0]))
        if name == "lower":
            return func.lower(_col(args[0]))
        if name == "upper":
            return func.upper(_col(args[0]))
        raise ValueError(name)
    if h == "cat":
        return _col(bx(n[1], env)).concat(bx(n[2], env))
    if h == "case":
        whens = [(bx(w, env), bx(t, env)) for w, t in n[1]]
        return case(*whens, else_=bx(n[2], env))
    if h == "cast":
        return cast(_col(bx(n[1], env)), TYPES[n[2]])
    if h == "tc":
        return _typed(n, env)
    if h == "cmp":
        return CMP[n[1]](_col(bx(n[2], env)), bx(n[3], env))
    if h == "and":
        return and_(true(), *[bx(x, env) for x in n[1]]) if len(n[1]) < 1 else and_(*[bx(x, env) for x in n[1]])
    if h == "or":
        return or_(*[bx(x, env) for x in n[1]])
    if h == "not":
        return not_(bx(n[1], env))
    if h == "in":
        e = _col(bx(n[1], env))
        vals = n[2][1]
        return e.not_in(vals) if n[3] else e.in_(vals)
    if h == "isn":
        e = _col(bx(n[1], env))
        return e.is_not(None) if n[2] else e.is_(None)
    if h == "eqn":  # comparison with a python value that may be None (== None -> IS NULL)
        e = _col(bx(n[1], env))
        return e == n[2]
    if h == "btw":
        return _col(bx(n[1], env)).between(bx(n[2], env), bx(n[3], env))
    if h == "like":
        e = _col(bx(n[1], env))
        kind, val = n[2], n[3][1]
        if kind == "like":
            return e.like(val[:1] + "%")
        if kind == "starts":
            return e.startswith(val[:1])
        if kind == "contains":
            return e.contains(val)
        if kind == "ilike":
            return e.ilike(val[:1].upper() + "%")
        raise ValueError(kind)
    if h == "ssq":  # correlated scalar subquery over an alias of table n[2]
        _, fn, t, ci, op, outer = n
        _sq_counter[0] += 1
        inner = TABLES[t % 3].alias("sq_%s" % "abc"[t % 3])
        col = inner.c[INT_COLS[t % 3][ci % 3]]
        agg = {"max": func.max, "min": func.min, "count": func.count, "sum": func.sum}[fn]
        return select(agg(col)).where(CMP[op](inner.c[INT_COLS[t % 3][(ci + 1) % 3]], bx(outer, env))).scalar_subquery()
    if h == "ex":
        _, t, ci, op, outer, neg = n
        inner = TABLES[t % 3].alias("ex_%s" % "abc"[t % 3])
        e = exists().where(CMP[op](inner.c[INT_COLS[t % 3][ci % 3]], bx(outer, env)))
        return ~e if neg else e
    if h == "true":
        return true()
    raise ValueError("unknown expr node %r" % (n,))


def _col(e):
    """make sure the left operand is a SQL expression (python literal on the left of an operator)"""
    if hasattr(e, "__clause_element__") or hasattr(e, "_sa__py_wrapper_literal") or hasattr(e, "type"):
        return e
    return literal(e)


# ------------------------------------------------------------------ expression strategies
_ti = st.integers(0, 5)
_ci = st.integers(0, 5)
_base = st.integers(0, 9)
_cmpop = st.sampled_from(list(CMP))
_ineq = st.sampled_from(["<", "<=", ">", ">="])

_icol = st.tuples(st.just("ci"), _ti, _ci).map(list)
_scol = st.tuples(st.just("cs"), _ti).map(list)
_ilit = st.tuples(st.just("li"), _base).map(list)
_slit = st.tuples(st.just("ls"), _base).map(list)
_ilitx = st.one_of(
    _ilit, _ilit, _ilit,
    st.tuples(st.just("lx"), _base).map(list),
    st.tuples(st.just("bp"), _base, st.integers(0, 3)).map(list),
    st.tuples(st.just("bp"), _base, st.integers(0, 3)).map(list),
    st.tuples(st.just("lt"), _base, st.sampled_from(["i", "I", "D1", "D2", "N"])).map(list),
)


def typed_expr(num_only=False):
    """a cast / type_coerce / typed literal whose type carries constructor arguments"""
    fam = st.integers(0, len(NUM_FAMS) - 1) if num_only else st.integers(0, N_FAMS - 1)
    return st.tuples(
        st.just("tc"), st.sampled_from([0, 0, 1, 2]), st.one_of(_icol, _ilit), fam, st.sampled_from([0, 1, 0, 1, 2, 3]),
        st.sampled_from([None] * 9 + ["V", "E"]),
    ).map(list)


def int_expr(depth):
    leaf = st.one_of(_icol, _icol, _ilitx)
    if depth <= 0:
        return leaf
    sub = int_expr(depth - 1)
    return st.one_of(
        leaf,
        leaf,
        st.tuples(st.just("ar"), st.sampled_from("+-*"), _icol, sub).map(list),
        st.tuples(st.just("fn"), st.just("abs"), sub).map(list),
        st.tuples(st.just("fn"), st.just("coalesce"), _icol, sub).map(list),
        st.tuples(st.just("fn"), st.just("length"), str_expr(depth - 1)).map(list),
        st.tuples(st.just("case"), st.lists(st.tuples(bool_expr(depth - 1), sub).map(list), min_size=1, max_size=2), sub).map(list),
        st.tuples(st.just("cast"), str_expr(depth - 1), st.just("i")).map(list),
        st.tuples(st.just("ssq"), st.sampled_from(["max", "min", "count", "sum"]), st.integers(0, 2), st.integers(0, 2), _cmpop, leaf).map(list),
    )


def str_expr(depth):
    leaf = st.one_of(_scol, _scol, _slit, st.tuples(st.just("lt"), _base, st.sampled_from(["s", "t"])).map(list))
    if depth <= 0:
        return leaf
    sub = str_expr(depth - 1)
    return st.one_of(
        leaf,
        leaf,
        st.tuples(st.just("cat"), _scol, sub).map(list),
        st.tuples(st.just("fn"), st.sampled_from(["lower", "upper"]), sub).map(list),
        st.tuples(st.just("fn"), st.just("coalesce"), _scol, sub).map(list),
        st.tuples(st.just("cast"), int_expr(depth - 1), st.just("s")).map(list),
    )


def bool_expr(depth):
    ie = int_expr(max(depth - 1, 0))
    se = str_expr(max(depth - 1, 0))
    leaf = st.one_of(
        st.tuples(st.just("cmp"), _ineq, _icol, ie).map(list),
        st.tuples(st.just("cmp"), _cmpop, ie, ie).map(list),
        st.tuples(st.just("cmp"), _ineq, _scol, se).map(list),
        st.tuples(st.just("in"), _icol, st.tuples(st.just("inl"), st.integers(0, 3), _base).map(list), st.booleans()).map(list),
        st.tuples(st.just("isn"), st.one_of(_icol, _scol), st.booleans()).map(list),
        st.tuples(st.just("btw"), _icol, _ilit, _ilit).map(list),
        st.tuples(st.just("cmp"), _ineq, typed_expr(num_only=True), _ilit).map(list),
        _lk_leaf(),
        _lk_leaf(),
        st.tuples(st.just("rx"), _scol, _slit, st.booleans()).map(list),
        st.tuples(st.just("idf"), st.one_of(_icol, _icol, _scol), st.one_of(_icol, _ilit), st.booleans()).map(list),
    )
    if depth <= 0:
        return leaf
    sub = bool_expr(depth - 1)
    return st.one_of(
        leaf,
        leaf,
        leaf,
        st.tuples(st.just("and"), st.lists(sub, min_size=2, max_size=3)).map(list),
        st.tuples(st.just("or"), st.lists(sub, min_size=2, max_size=3)).map(list),
        st.tuples(st.just("not"), sub).map(list),
        st.tuples(st.just("ex"), st.integers(0, 2), st.integers(0, 2), _cmpop, st.one_of(_icol, _ilit), st.booleans()).map(list),
    )


def _lk_leaf():
    return st.tuples(
        st.just("lk"), _scol, st.sampled_from(LK_KINDS), _slit, st.sampled_from([False, False, True]),
        st.sampled_from([None, None, "esc", "auto"]), st.booleans(),
    ).map(list)


def bool_expr_c(depth):
    """bool_expr plus operators that only compile (not executable on SQLite): match, any_/all_, regexp_replace, JSON getitem"""
    extra = st.one_of(
        st.tuples(st.just("match"), _scol, _slit, st.booleans()).map(list),
        st.tuples(st.just("anyall"), st.integers(0, 1), _icol, st.tuples(st.just("inl"), st.integers(1, 3), _base).map(list)).map(list),
        st.tuples(st.just("cmp"), _cmpop, st.tuples(st.just("rxr"), _scol, _slit, _slit).map(list), _slit).map(list),
        st.tuples(st.just("cmp"), _cmpop, st.tuples(st.just("jget"), _scol, st.integers(0, 2), st.just(1)).map(list), _ilit).map(list),
        st.tuples(st.just("cmp"), _cmpop, st.tuples(st.just("aget"), _ilit, _ilit, st.integers(0, 1)).map(list), _icol).map(list),
    )
    return st.one_of(bool_expr(depth), bool_expr(depth), bool_expr(depth), extra)


def any_expr_c(depth):
    extra = st.one_of(
        st.tuples(st.just("rxr"), _scol, _slit, _slit).map(list),
        st.tuples(st.just("jget"), _scol, st.integers(0, 2), st.integers(0, 1)).map(list),
        st.tuples(st.just("aget"), _ilit, _ilit, st.integers(0, 1)).map(list),
        bool_expr(0),
    )
    return st.one_of(any_expr(depth), any_expr(depth), extra)


def any_expr(depth):
    return st.one_of(int_expr(depth), int_expr(depth), str_expr(depth))


def order_expr():
    """never a bare constant (SQLite reads an integer constant in ORDER BY as a column position)"""
    return st.one_of(_icol, _scol, st.tuples(st.just("ar"), st.sampled_from("+-*"), _icol, _ilitx).map(list), st.tuples(st.just("fn"), st.just("coalesce"), _icol, _ilit).map(list))


def lit_int_expr():
    """column-free integer expression (INSERT ... VALUES)"""
    return st.one_of(_ilit, _ilitx, st.tuples(st.just("ar"), st.sampled_from("+-*"), _ilit, _ilitx).map(list))


# ------------------------------------------------------------------ statement descriptions
LABELS = ["l0", "l1", "lx", "lid"]  # never equal to a column name: an explicit label colliding with an unlabelled column of that name is a documented error once wrapped
LOADERS = ["joined", "selectin", "subquery", "lazy", "raise"]


def _opt():
    return st.one_of(
        st.tuples(st.sampled_from(LOADERS), st.lists(st.integers(0, 3), min_size=1, max_size=2)).map(lambda t: {"o": t[0], "path": t[1]}),
        st.tuples(st.sampled_from(["defer", "load_only"]), st.integers(0, 3)).map(lambda t: {"o": t[0], "col": t[1]}),
        st.tuples(st.integers(0, 2), bool_expr(0), st.booleans()).map(lambda t: {"o": "wlc", "ent": t[0], "crit": t[1], "aliases": t[2]}),
    )


@st.composite
def select_desc(draw, depth=1, allow_wrap=True, orm=None):
    orm = draw(st.booleans()) if orm is None else orm
    d = {
        "k": "sel",
        "orm": int(orm),
        "base": draw(st.integers(0, 2)),
        "joins": draw(
            st.lists(
                st.fixed_dictionaries(
                    {"t": st.integers(0, 5), "outer": st.integers(0, 1), "full": st.sampled_from([0, 0, 0, 1]), "on": st.one_of(st.none(), bool_expr(0))}
                ),
                max_size=2,
            )
        ),
        "where": draw(st.lists(bool_expr(depth), max_size=3)),
        "order": draw(st.lists(st.tuples(order_expr(), st.integers(0, 1)).map(list), max_size=2)),
        "total": draw(st.integers(0, 1)),
        "limit": draw(st.one_of(st.none(), st.tuples(st.just("lim"), st.integers(0, 5)).map(list))),
        "offset": draw(st.one_of(st.none(), st.none(), st.tuples(st.just("lim"), st.integers(0, 5)).map(list))),
        "distinct": draw(st.sampled_from([0, 0, 1])),
        "for_update": draw(st.sampled_from([0, 0, 0, 1])),
        "prefix": draw(st.sampled_from([0, 0, 0, 1])),
        "label_style": draw(st.sampled_from([0, 0, 1, 2])),
        "opts": [],
        "wrap": None,
        "agg": None,
        "setop": None,
        "xopt": draw(st.sampled_from([None, None, None, "foo", "yield", "populate"])),
        "xjoin": draw(st.sampled_from([0, 1])),
        "np": draw(st.one_of(
            st.none(), st.none(), st.none(),
            st.fixed_dictionaries({"shape": st.integers(0, 3), "at": st.integers(0, 7),
                                   "vals": st.lists(st.tuples(st.just("lim"), st.integers(0, 5)).map(list), min_size=3, max_size=3)}),
        )),
    }
    shape = draw(st.sampled_from(["cols", "ent", "ent", "agg"] if orm else ["cols", "cols", "ent", "agg"]))
    if shape == "ent":
        d["cols"] = None  # whole table / entity (+ second entity of the first join in ORM mode)
        if orm:
            d["opts"] = draw(st.lists(_opt(), min_size=draw(st.integers(0, 1)), max_size=3))
            for o in d["opts"]:
                if o["o"] == "wlc" and draw(st.booleans()):
                    o["ent"] = d["base"]  # criteria on the lead entity always take effect
            d["contains_eager"] = draw(st.sampled_from([0, 0, 1]))
    elif shape == "agg":
        d["cols"] = None
        d["agg"] = {
            "group": draw(st.lists(st.one_of(_icol, _scol), min_size=0, max_size=2)),
            "aggs": draw(st.lists(st.tuples(st.sampled_from(["count", "max", "min", "sum"]), _icol).map(list), min_size=1, max_size=2)),
            "having": draw(st.one_of(st.none(), st.tuples(_ineq, _ilit).map(list))),
        }
        d["distinct"] = 0
    else:
        d["cols"] = draw(st.lists(st.tuples(st.one_of(any_expr(depth), any_expr(depth), typed_expr(), typed_expr(num_only=True), _lk_leaf()), st.one_of(st.none(), st.integers(0, 3))).map(list), min_size=1, max_size=4))
    if allow_wrap and not (orm and shape == "ent"):
        w = draw(st.sampled_from([None, None, "subq", "cte", "setop"]))
        if w in ("subq", "cte"):
            d["wrap"] = {
                "kind": w,
                "name": draw(st.one_of(st.none(), st.integers(0, 1))),
                "where": draw(st.lists(st.tuples(st.integers(0, 5), _ineq, _ilit).map(list), max_size=2)),
                "join": draw(st.one_of(st.none(), st.integers(0, 2))),
                "limit": draw(st.one_of(st.none(), st.tuples(st.just("lim"), st.integers(0, 5)).map(list))),
            }
            d["for_update"] = 0
        elif w == "setop" and shape != "ent":
            d["setop"] = {
                "op": draw(st.sampled_from(["union", "union_all", "intersect", "except"])),
                "where2": draw(st.lists(bool_expr(0), max_size=2)),
                "base2": draw(st.integers(0, 2)),
                "order": draw(st.integers(0, 1)),
                "limit": draw(st.one_of(st.none(), st.tuples(st.just("lim"), st.integers(0, 5)).map(list))),
                "sub": draw(st.integers(0, 1)),
            }
            d["for_update"] = 0
            d["limit"] = d["offset"] = None
            d["order"] = []
            d["total"] = 0
    return d


@st.composite
def dml_desc(draw, depth=1):
    k = draw(st.sampled_from(["ins", "ins", "upd", "upd", "del", "insfs"]))
    t = draw(st.integers(0, 2))
    ret = draw(st.one_of(st.none(), st.lists(st.integers(0, 3), min_size=1, max_size=3)))
    d = {"k": k, "t": t, "ret": ret, "orm": 0, "pvals": [["li", b] for b in draw(st.lists(_base, min_size=6, max_size=6))]}
    if k == "ins":
        d["vals"] = draw(st.lists(st.tuples(st.integers(0, 2), lit_int_expr()).map(list), max_size=2))
        d["sval"] = draw(st.one_of(st.none(), _slit))
        d["pcols"] = draw(st.lists(st.integers(0, 2), max_size=2))  # columns supplied as execute() parameters
        d["many"] = draw(st.sampled_from([0, 0, 0, 2, 3]))  # executemany with n parameter sets
        d["inline_multi"] = draw(st.sampled_from([0, 0, 0, 2]))  # values([...]) multi-row VALUES
    elif k == "upd":
        d["orm"] = draw(st.sampled_from([0, 0, 1]))
        d["sync"] = draw(st.sampled_from(["auto", "fetch", False]))
        d["vals"] = draw(st.lists(st.tuples(st.integers(0, 1), int_expr(depth)).map(list), min_size=1, max_size=2))
        d["sval"] = draw(st.one_of(st.none(), _slit))
        d["where"] = draw(st.lists(bool_expr(depth), max_size=2))
        d["pcols"] = draw(st.lists(st.integers(0, 1), max_size=1))
    elif k == "del":
        d["orm"] = draw(st.sampled_from([0, 0, 1]))
        d["sync"] = draw(st.sampled_from(["auto", "fetch", False]))
        d["where"] = draw(st.lists(bool_expr(depth), min_size=1, max_size=2))
    else:  # insert from select
        d["sel_where"] = draw(st.lists(bool_expr(depth), max_size=2))
        d["src"] = draw(st.integers(0, 2))
        d["exprs"] = [draw(int_expr(depth)), draw(int_expr(0)), draw(str_expr(0))]
    return d


def stmt_desc(depth=1):
    return st.one_of(select_desc(depth), select_desc(depth), select_desc(depth), dml_desc(depth))


# ------------------------------------------------------------------ toggles (structural siblings)
SEL_TOGGLES = [
    "distinct", "outer0", "full0", "label0", "limit", "offset", "for_update", "prefix", "col_order", "label_style",
    "lit_type", "cast_type", "literal_execute", "where_drop", "order_desc", "op_flip", "in_neg", "wrap_name", "setop_op",
    "join_drop", "loader", "opt_drop", "total", "wlc_flag", "having_op", "agg_fn", "where_dup", "xopt", "nocache_type", "delta_type", "xjoin", "wlc_op", "type_arg", "type_mode", "lk_kind", "lk_neg", "lk_esc", "bind_src1", "bind_src2", "bind_src3", "np_at1", "np_at2", "np_at3", "np_shape",
]
DML_TOGGLES = ["ret", "ret_more", "pcols_more", "many", "val_drop", "where_drop", "op_flip", "lit_type", "in_neg", "sync", "sval", "literal_execute", "nocache_type", "delta_type", "type_arg", "type_mode", "lk_kind", "lk_neg", "lk_esc", "bind_src1", "bind_src2", "bind_src3"]


def toggles_for(desc):
    return SEL_TOGGLES if desc["k"] == "sel" else DML_TOGGLES


def relevant_toggles(desc):
    """the toggles that actually change this description"""
    return [n for n in toggles_for(desc) if apply_toggles(desc, [n]) != desc]


def _walk(node, fn):
    """apply fn to every expression node (list with str head) until fn returns True (done)"""
    if isinstance(node, dict):
        for k in sorted(node):
            if _walk(node[k], fn):
                return True
        return False
    if isinstance(node, list):
        if node and isinstance(node[0], str) and fn(node):
            return True
        for x in node:
            if isinstance(x, (list, dict)) and _walk(x, fn):
                return True
    return False


_FLIP = {"<": "<=", "<=": "<", ">": ">=", ">=": ">", "==": "!=", "!=": "=="}


def apply_toggles(desc, names):
    """returns a deep copy of desc with each named single structural attribute toggled
    (a toggle that does not apply to this description is a no-op)"""
    d = _copy.deepcopy(desc)
    for name in names:
        _toggle(d, name)
    return d


def _toggle(d, name):
    def flip(key):
        d[key] = 0 if d.get(key) else 1

    if name == "xjoin":
        if d.get("joins") and not d.get("orm"):
            flip("xjoin")
    elif name in ("distinct", "for_update", "prefix", "total"):
        if name in d:
            if name == "for_update" and (d.get("wrap") or d.get("setop")):
                return
            if name == "distinct" and d.get("agg"):
                return
            flip(name)
    elif name in ("outer0", "full0"):
        if d.get("joins"):
            j = d["joins"][0]
            k = name[:-1]
            j[k] = 0 if j[k] else 1
    elif name == "join_drop":
        if d.get("joins"):
            d["joins"].pop()
    elif name == "label0":
        if d.get("cols"):
            c = d["cols"][0]
            c[1] = 0 if c[1] is None else (c[1] + 1) % len(LABELS)
    elif name == "col_order":
        if d.get("cols"):
            d["cols"].reverse()
    elif name == "label_style":
        if "label_style" in d:
            d["label_style"] = (d["label_style"] + 1) % 3
    elif name in ("limit", "offset"):
        if name in d and not d.get("setop"):
            d[name] = None if d[name] is not None else ["lim", 2]
    elif name == "lit_type":
        def f(n):
            if n[0] == "li":
                n[:] = ["lt", n[1], "I"]
                return True
            if n[0] == "lt":
                n[2] = _TYPE_CYCLE[n[2]]
                return True
            if n[0] == "ls":
                n[:] = ["lt", n[1], "t"]
                return True
        _walk(d, f)
    elif name in ("np_at1", "np_at2", "np_at3", "np_shape"):
        if d.get("np"):
            if name == "np_shape":
                d["np"]["shape"] = (d["np"]["shape"] + 1) % 4
            else:
                d["np"]["at"] = (d["np"]["at"] + [0, 1, 3, 5][int(name[-1])]) % 8
    elif name in ("bind_src1", "bind_src2", "bind_src3"):
        def f(n):
            if n[0] == "bp":
                cur = n[2] if len(n) > 2 else 0
                n[:] = ["bp", n[1], (cur + int(name[-1])) % 4]
                return True
        _walk(d, f)
    elif name in ("lk_kind", "lk_neg", "lk_esc"):
        def f(n):
            if n[0] == "lk":
                if name == "lk_kind":
                    n[2] = LK_KINDS[(LK_KINDS.index(n[2]) + 3) % len(LK_KINDS)]
                elif name == "lk_neg":
                    n[4] = not n[4]
                else:
                    n[5] = {None: "esc", "esc": "auto", "auto": None}[n[5]]
                return True
        _walk(d, f)
    elif name in ("type_arg", "type_mode"):
        def f(n):
            if n[0] == "tc":
                if name == "type_arg":
                    n[4] = n[4] ^ 1  # the other member of the argument pair
                else:
                    n[1] = 1 if n[1] != 1 else 0  # cast / typed literal <-> type_coerce
                return True
        _walk(d, f)
    elif name in ("nocache_type", "delta_type"):
        def f(n):
            if n[0] == "li" or (n[0] == "lt" and n[2] in ("i", "I", "D1", "D2", "N")):
                cur = n[2] if n[0] == "lt" else "i"
                if name == "nocache_type":
                    new = "i" if cur == "N" else "N"
                else:
                    new = "D2" if cur == "D1" else "D1"
                n[:] = ["lt", n[1], new]
                return True
        _walk(d, f)
    elif name == "cast_type":
        def f(n):
            if n[0] == "cast":
                n[2] = {"i": "I", "I": "i", "s": "t", "t": "s"}[n[2]]
                return True
        _walk(d, f)
    elif name == "literal_execute":
        def f(n):
            if n[0] == "li":
                n[0] = "lx"
                return True
            if n[0] == "lx":
                n[0] = "li"
                return True
        _walk(d, f)
    elif name == "where_drop":
        if d.get("where"):
            d["where"].pop()
    elif name == "where_dup":
        if d.get("where"):
            d["where"].append(_copy.deepcopy(d["where"][0]))
    elif name == "order_desc":
        if d.get("order"):
            d["order"][0][1] = 0 if d["order"][0][1] else 1
    elif name == "op_flip":
        def f(n):
            if n[0] == "cmp":
                n[1] = _FLIP[n[1]]
                return True
        _walk(d.get("where", []), f) or _walk(d, f)
    elif name == "in_neg":
        def f(n):
            if n[0] == "in":
                n[3] = not n[3]
                return True
            if n[0] == "isn":
                n[2] = not n[2]
                return True
        _walk(d, f)
    elif name == "wrap_name":
        if d.get("wrap"):
            w = d["wrap"]
            w["name"] = 0 if w["name"] is None else (None if w["name"] == 1 else 1)
    elif name == "setop_op":
        if d.get("setop"):
            ops = ["union", "union_all", "intersect", "except"]
            d["setop"]["op"] = ops[(ops.index(d["setop"]["op"]) + 1) % 4]
    elif name == "loader":
        for o in d.get("opts", []):
            if o["o"] in LOADERS:
                o["o"] = LOADERS[(LOADERS.index(o["o"]) + 1) % len(LOADERS)]
                break
    elif name == "opt_drop":
        if d.get("opts"):
            d["opts"].pop()
    elif name == "wlc_op":
        for o in d.get("opts", []):
            if o["o"] == "wlc":
                def f(n):
                    if n[0] == "cmp":
                        n[1] = _FLIP[n[1]]
                        return True
                    if n[0] in ("in", "isn"):
                        n[-1 if n[0] == "isn" else 3] = not n[-1 if n[0] == "isn" else 3]
                        return True
                    if n[0] == "btw":
                        n[:] = ["not", list(n)]
                        return True
                    if n[0] == "like":
                        n[2] = "starts" if n[2] != "starts" else "contains"
                        return True
                _walk([o["crit"]], f)
                break
    elif name == "wlc_flag":
        for o in d.get("opts", []):
            if o["o"] == "wlc":
                o["aliases"] = not o["aliases"]
                break
    elif name == "xopt":
        if "xopt" in d:
            order = [None, "foo", "yield", "populate"]
            d["xopt"] = order[(order.index(d["xopt"]) + 1) % 4]
    elif name == "having_op":
        if d.get("agg") and d["agg"]["having"]:
            d["agg"]["having"][0] = _FLIP[d["agg"]["having"][0]]
    elif name == "agg_fn":
        if d.get("agg"):
            fns = ["count", "max", "min", "sum"]
            a = d["agg"]["aggs"][0]
            a[0] = fns[(fns.index(a[0]) + 1) % 4]
    # ---- DML
    elif name == "ret":
        if "ret" in d and d["k"] != "sel":
            d["ret"] = None if d["ret"] else [0]
    elif name == "ret_more":
        if d.get("ret"):
            d["ret"].append(len(d["ret"]))
    elif name == "pcols_more":
        if "pcols" in d:
            d["pcols"] = sorted(set(d["pcols"]) ^ {1})
    elif name == "many":
        if "many" in d:
            d["many"] = 0 if d["many"] else 2
    elif name == "val_drop":
        if d.get("vals") and len(d["vals"]) > 1:
            d["vals"].pop()
    elif name == "sync":
        if "sync" in d:
            d["sync"] = {"auto": "fetch", "fetch": False, False: "auto"}[d["sync"]]
    elif name == "sval":
        if "sval" in d:
            d["sval"] = None if d["sval"] else ["ls", 3]


# ------------------------------------------------------------------ statement builder
class Built:
    """a built statement plus how to execute it"""

    def __init__(self, stmt, params=None, orm=False, unique=False, total=False, is_dml=False, returns_rows=True, exec_opts=None):
        self.stmt = stmt
        self.params = params  # None | dict | list of dicts
        self.orm = orm
        self.unique = unique
        self.total = total
        self.is_dml = is_dml
        self.returns_rows = returns_rows
        self.exec_opts = exec_opts or {}


LABEL_STYLES = [LABEL_STYLE_DISAMBIGUATE_ONLY, LABEL_STYLE_TABLENAME_PLUS_COL, LABEL_STYLE_NONE]


def _scope(d):
    """tables in scope: base then join targets (distinct, resolved modulo the remaining tables)"""
    base = d["base"] % 3
    scope = [base]
    joins = []
    for j in d.get("joins", []):
        rest = [t for t in range(3) if t not in scope]
        if not rest:
            break
        t = rest[j["t"] % len(rest)]
        joins.append((t, j))
        scope.append(t)
    return scope, joins


def _fk_on(scope, t, src):
    """FK equality joining table t to some table already in scope, or None"""
    for s in scope:
        if (t, s) in FK:
            return src[t][1](FK[(t, s)]) == src[s][1]("id")
        if (s, t) in FK:
            return src[s][1](FK[(s, t)]) == src[t][1]("id")
    return None


def build(desc, tagger=None, order=0):
    """abstract description -> Built.  ``order`` selects one of several
    construction orders of the generative calls that yield the same statement."""
    tg = tagger or Tagger()
    d = concretize(desc, tg)
    if d["k"] == "sel":
        return _build_select(d, order)
    return _build_dml(d, order)


def _core_select(d, order, params):
    """the inner SELECT (no wrap / setop).  returns (stmt, env, scope, unique)"""
    orm = bool(d["orm"])
    scope, joins = _scope(d)
    src = {t: table_src(t, orm) for t in range(3)}
    env = Env([src[t] for t in scope], params, orm)
    unique = False
    # columns
    if d.get("agg"):
        a = d["agg"]
        gcols = [bx(g, env) for g in a["group"]]
        aggs = []
        for i, (fn, c) in enumerate(a["aggs"]):
            f = {"count": func.count, "max": func.max, "min": func.min, "sum": func.sum}[fn]
            aggs.append(f(bx(c, env)).label("agg%d" % i))
        cols = gcols + aggs
    elif d["cols"] is None:
        if orm:
            cols = [ENTS[scope[0]]]
        else:
            cols = [TABLES[scope[0]]]
    else:
        cols = []
        built_cols = [bx(e, env) for e, _ in d["cols"]]
        # an explicit label must not collide with another explicit label nor with the name of an unlabelled column
        # (documented InvalidRequestError "Please use unique names for explicit labels" once the SELECT is wrapped)
        used = {getattr(c, "name", None) for c, (_, lab) in zip(built_cols, d["cols"]) if lab is None}
        for pos, (e, lab) in enumerate(d["cols"]):
            c = built_cols[pos]
            if lab is not None:
                name = LABELS[lab % len(LABELS)]
                if name in used:
                    name = "%s_%d" % (name, pos)
                used.add(name)
                c = c.label(name)
            cols.append(c)
    steps = []
    base_from = ENTS[scope[0]] if orm else TABLES[scope[0]]
    steps.append(("from", lambda s: s.select_from(base_from)))
    # construction variant: one explicit Join object passed to select_from() instead of Select.join() calls
    explicit_join = bool(d.get("xjoin")) and not orm
    cur_join = [base_from]
    in_scope = [scope[0]]
    for t, j in joins:
        on_env = Env([src[x] for x in in_scope + [t]], params, orm)
        on = bx(j["on"], on_env) if j["on"] is not None else None
        fk = _fk_on(in_scope, t, src)
        if on is None:
            on = fk
        elif fk is not None:
            on = and_(fk, on)
        if on is None:
            on = src[t][1]("id") == src[in_scope[0]][1]("id")
        target = ENTS[t] if orm else TABLES[t]
        if explicit_join:
            cur_join[0] = sa_join(cur_join[0], target, on, isouter=bool(j["outer"]), full=bool(j["full"]))
        else:
            steps.append(("join", lambda s, target=target, on=on, j=j: s.join(target, on, isouter=bool(j["outer"]), full=bool(j["full"]))))
        in_scope.append(t)
    if explicit_join and joins:
        steps[0] = ("from", lambda s: s.select_from(cur_join[0]))
    for w in d["where"]:
        steps.append(("where", lambda s, w=w: s.where(bx(w, env))))
    if d.get("agg"):
        a = d["agg"]
        if a["group"]:
            steps.append(("group", lambda s: s.group_by(*gcols)))
        if a["having"]:
            op, lit = a["having"]
            steps.append(("having", lambda s: s.having(CMP[op](aggs[0].element, bx(lit, env)))))
    obs = []
    in_setop = bool(d.get("setop"))  # members of a compound select carry no ORDER BY / LIMIT (SQLite grammar)
    for e, desc_ in d["order"]:
        if d.get("agg") or in_setop:
            break
        c = bx(e, env)
        obs.append(c.desc() if desc_ else c)
    if d["total"] and not in_setop:
        if d.get("agg"):
            obs.extend(gcols)
        else:
            for t in scope:
                obs.extend(src[t][1](n) for n in ("id",))
    if obs:
        steps.append(("order", lambda s: s.order_by(*obs)))
    if d["limit"] is not None and not in_setop:
        steps.append(("limit", lambda s: s.limit(d["limit"][1])))
    if d["offset"] is not None and not in_setop:
        steps.append(("offset", lambda s: s.offset(d["offset"][1])))
    if d["distinct"]:
        steps.append(("distinct", lambda s: s.distinct()))
    if d["for_update"]:
        steps.append(("for_update", lambda s: s.with_for_update()))
    if d["prefix"]:
        steps.append(("prefix", lambda s: s.prefix_with("/* p */")))
    if d["label_style"]:
        steps.append(("label_style", lambda s: s.set_label_style(LABEL_STYLES[d["label_style"]])))
    if orm and d["cols"] is None and not d.get("agg"):
        ent_t = scope[0]
        if d.get("contains_eager") and len(in_scope) > 1:
            for rel in RELS[ent_t]:
                if REL_TARGET[(ent_t, rel)] == in_scope[1]:
                    steps.append(("options", lambda s, rel=rel: s.options(contains_eager(getattr(ENTS[ent_t], rel)))))
                    unique = True
                    break
        used_rel = set()
        if unique:
            used_rel.add(rel)
        for o in d.get("opts", []):
            if o["o"] in LOADERS:
                first = RELS[ent_t][o["path"][0] % len(RELS[ent_t])]
                if first in used_rel:
                    continue  # two strategies for one path is a documented error
                used_rel.add(first)
            elif o["o"] in ("defer", "load_only"):
                if "colopt" in used_rel:
                    continue
                used_rel.add("colopt")
            opt = _build_option(o, ent_t, env)
            if opt is not None:
                steps.append(("options", lambda s, opt=opt: s.options(opt)))
                if o["o"] == "joined":
                    unique = True
    stmt = select(*cols)
    for kind, fn in _reorder(steps, order):
        stmt = fn(stmt)
    return stmt, env, scope, unique


def _reorder(steps, order):
    """permute the generative calls by *kind* (relative order inside one kind is
    kept; 'from' stays first so join() has its left side)"""
    if not order:
        return steps
    kinds = []
    for k, _ in steps:
        if k not in kinds and k != "from":
            kinds.append(k)
    if order % 2 == 1:
        kinds.reverse()
    rot = (order // 2) % max(len(kinds), 1)
    kinds = kinds[rot:] + kinds[:rot]
    out = [s for s in steps if s[0] == "from"]
    for k in kinds:
        out.extend(s for s in steps if s[0] == k)
    return out


def _build_option(o, ent_t, env):
    if o["o"] in LOADERS:
        fn = {"joined": joinedload, "selectin": selectinload, "subquery": subqueryload, "lazy": lazyload, "raise": raiseload}[o["o"]]
        t = ent_t
        opt = None
        for step, ri in enumerate(o["path"]):
            rels = RELS[t]
            rel = rels[ri % len(rels)]
            attr = getattr(ENTS[t], rel)
            if opt is None:
                opt = fn(attr)
            else:
                opt = getattr(opt, {"joined": "joinedload", "selectin": "selectinload", "subquery": "subqueryload", "lazy": "lazyload", "raise": "raiseload"}[o["o"]])(attr)
            t = REL_TARGET[(t, rel)]
        return opt
    if o["o"] in ("defer", "load_only"):
        names = ["x", "y", "s", "a_id", "b_id"]
        cols = [n for n in names if n in TABLES[ent_t].c]
        attr = getattr(ENTS[ent_t], cols[o["col"] % len(cols)])
        return defer(attr) if o["o"] == "defer" else load_only(attr)
    if o["o"] == "wlc":
        t = o["ent"] % 3
        e2 = Env([table_src(t, True)], env.params, True)
        return with_loader_criteria(ENTS[t], bx(o["crit"], e2), include_aliases=bool(o["aliases"]))
    return None


WRAP_NAMES = ["w0", "w1"]


XOPTS = {"foo": {"foo": 1}, "yield": {"yield_per": 2}, "populate": {"populate_existing": True}}


NP_SHAPES = ["exists", "scalar", "union", "text"]


def _nested_params(stmt, np_):
    """one named bind ("nq") used on up to three nesting levels, with statement-level .params(nq=...) applied on the
    drawn levels (bit 1: enclosing statement, bit 2: enclosed statement, bit 4: innermost statement / UNION member).
    The enclosing statement's value wins.  Returns (statement, value needed at execute() time or None)"""
    shape = NP_SHAPES[np_["shape"] % 4]
    at = np_["at"] % 8
    vals = [v[1] for v in np_["vals"]]
    nq = lambda: bindparam("nq", type_=Integer)  # noqa: E731
    applied = at & 1
    if shape == "text":
        l1 = text("SELECT id FROM tb WHERE id < :nq").columns(sa_column("id", Integer))
        if at & 2:
            l1 = l1.params(nq=vals[1])
            applied |= 2
        nested = select(l1.subquery("np_t").c.id)
    elif shape == "union":
        m1 = select(tb.c.id).where(tb.c.id < nq())
        m2 = select(tc.c.id).where(tc.c.id > nq())
        if at & 4:
            m1 = m1.params(nq=vals[2])
            applied |= 4
        u = union(m1, m2)
        if at & 2:
            u = u.params(nq=vals[1])
            applied |= 2
        nested = select(u.subquery("np_u").c.id)
    else:
        l2 = select(tb.c.id).where(tb.c.id < nq())
        if at & 4:
            l2 = l2.params(nq=vals[2])
            applied |= 4
        sq = l2.subquery("np_q")
        l1 = select(sq.c.id).where(sq.c.id != nq())
        if at & 2:
            l1 = l1.params(nq=vals[1])
            applied |= 2
        nested = l1
    if shape == "scalar":
        crit = nq() >= select(func.count()).select_from(nested.subquery("np_c")).scalar_subquery()
    else:
        crit = and_(nq() != -1, exists(nested))
    stmt = stmt.where(crit)
    if at & 1:
        stmt = stmt.params(nq=vals[0])
    STATS["nested_params"] += 1
    return stmt, (None if applied else vals[0])


def _build_select(d, order):
    b = _build_select_inner(d, order)
    if d.get("np") and hasattr(b.stmt, "where") and not b.stmt.is_dml:
        b.stmt, need = _nested_params(b.stmt, d["np"])
        if need is not None:
            b.params = dict(b.params or {}, nq=need)
    post = b.params.pop("__post__", None) if b.params else None
    if post:
        b.stmt = b.stmt.params(post)  # bind source 3: values attached with statement.params()
    if not b.params:
        b.params = None
    x = d.get("xopt")
    if x and not (x == "yield" and b.unique):  # yield_per + unique() is a documented error
        b.stmt = b.stmt.execution_options(**XOPTS[x])
    return b


def _build_select_inner(d, order):
    params = {}
    stmt, env, scope, unique = _core_select(d, order, params)
    orm = bool(d["orm"])
    total = bool(d["total"])
    w = d.get("wrap")
    so = d.get("setop")
    if so:
        d2 = dict(d)
        d2["base"] = so["base2"]
        d2["where"] = so["where2"]
        d2["joins"] = [] if d.get("cols") is None else d["joins"]
        if d.get("cols") is None and not d.get("agg"):
            d2["base"] = d["base"]
        stmt2, _, _, _ = _core_select(d2, 0, params)
        fn = {"union": union, "union_all": union_all, "intersect": intersect, "except": except_}[so["op"]]
        comp = fn(stmt, stmt2)
        if so["sub"]:
            sq = comp.subquery("u")
            comp = select(sq)
            if so["order"]:
                comp = comp.order_by(*list(sq.c))
        if so["limit"] is not None:
            comp = comp.limit(so["limit"][1])
        return Built(comp, params or None, orm=orm, total=False)
    if w:
        name = None if w["name"] is None else WRAP_NAMES[w["name"]]
        inner = stmt
        sq = inner.cte(name) if w["kind"] == "cte" else inner.subquery(name)
        cols = list(sq.c)
        outer = select(sq)
        j = w["join"]
        if j is not None:
            tj = TABLES[j]
            outer = select(sq, tj.c.id.label("jid")).join_from(sq, tj, cols[0] == tj.c.id, isouter=True)
        for ci, op, lit in w["where"]:
            c = cols[ci % len(cols)]
            v = bx(lit, env)
            if isinstance(c.type, String):
                v = cast(v, String)
            outer = outer.where(CMP[op](c, v))
        if w["limit"] is not None:
            outer = outer.limit(w["limit"][1])
        return Built(outer, params or None, orm=orm, total=False)
    return Built(stmt, params or None, orm=orm, unique=unique, total=total)


def _build_dml(d, order):
    t = d["t"] % 3
    tbl = TABLES[t]
    orm = bool(d.get("orm"))
    params = {}
    env = Env([table_src(t, False)], params)
    ret_names = ["id"] + DATA_COLS[t] + ["s"]
    k = d["k"]
    exec_params = None
    exec_opts = {}
    # params() is not available on DML statements: bind source 3 arrives at execute() time instead
    def _nopost(n):
        if n[0] == "bpv" and len(n) > 3 and n[3] == 3:
            n[3] = 0
        return False

    _walk(d, _nopost)
    if k == "ins":
        vals = {}
        if d["many"]:
            # 'literal_execute' parameters can't be used with executemany() (documented error)
            def _nolx(n):
                if n[0] == "v" and n[2] == "ix":
                    n[2] = "i"
                return False

            _walk(d, _nolx)
        # unique primary key token: reuse the first literal's tag space via a dedicated literal
        for ci, e in d["vals"]:
            vals[DATA_COLS[t][ci % 2]] = bx(e, env)
        if d["sval"] is not None:
            vals["s"] = bx(d["sval"], env)
        stmt = insert(tbl)
        pnames = []
        for c in d["pcols"]:
            n = (DATA_COLS[t] + ["s"])[c % 3]
            if n not in vals and n not in pnames:
                pnames.append(n)
        if d["inline_multi"] and not pnames and not d["many"]:
            rows = []
            for i in range(d["inline_multi"]):
                r = {kk: (v if i == 0 else v) for kk, v in vals.items()}
                rows.append(r)
            stmt = stmt.values(rows) if vals else stmt
        elif vals:
            steps = [lambda s, kk=kk, v=v: s.values({kk: v}) for kk, v in vals.items()]
            if order % 2:
                steps.reverse()
            for f in steps:
                stmt = f(stmt)
        n_sets = d["many"] if d["many"] else 1
        sets = []
        pv = [v for v in _dml_param_values(d)]
        for i in range(n_sets):
            ps = dict(params)
            for j, n in enumerate(pnames):
                ps[n] = (pv[(i * 3 + j) % len(pv)] if n != "s" else "q%d" % pv[(i * 3 + j) % len(pv)])
            sets.append(ps)
        if d["many"]:
            exec_params = sets
        elif sets[0]:
            exec_params = sets[0]
    elif k == "upd":
        stmt = update(ENTS[t] if orm else tbl)
        oenv = Env([table_src(t, orm)], params, orm)
        steps = []
        for ci, e in d["vals"]:
            steps.append(("values", lambda s, ci=ci, e=e: s.values({DATA_COLS[t][ci % 2]: bx(e, oenv)})))
        if d["sval"] is not None:
            steps.append(("values", lambda s: s.values({"s": bx(d["sval"], oenv)})))
        for w in d["where"]:
            steps.append(("where", lambda s, w=w: s.where(bx(w, oenv))))
        for kind, f in _reorder(steps, order):
            stmt = f(stmt)
        if d["pcols"] and not orm:
            n = DATA_COLS[t][(d["pcols"][0] + 1) % 2]
            used = {DATA_COLS[t][ci % 2] for ci, _ in d["vals"]}
            if n not in used:
                params[n] = _dml_param_values(d)[0]
        exec_params = params or None
        if orm:
            exec_opts = {"synchronize_session": d["sync"]}
    elif k == "del":
        stmt = delete(ENTS[t] if orm else tbl)
        oenv = Env([table_src(t, orm)], params, orm)
        for w in d["where"]:
            stmt = stmt.where(bx(w, oenv))
        exec_params = params or None
        if orm:
            exec_opts = {"synchronize_session": d["sync"]}
    else:  # insert from select
        src_t = d["src"] % 3
        senv = Env([table_src(src_t, False)], params)
        sel = select(*[bx(e, senv) for e in d["exprs"]]).select_from(TABLES[src_t])
        for w in d["sel_where"]:
            sel = sel.where(bx(w, senv))
        stmt = insert(tbl).from_select(DATA_COLS[t] + ["s"], sel)
        exec_params = params or None
    returns_rows = False
    if d["ret"]:
        cols = []
        for i in d["ret"]:
            c = tbl.c[ret_names[i % len(ret_names)]]
            if c not in cols:
                cols.append(c)
        if orm:
            cols = [getattr(ENTS[t], c.name) for c in cols]
        stmt = stmt.returning(*cols)
        returns_rows = True
    return Built(stmt, exec_params, orm=orm, is_dml=True, returns_rows=returns_rows, exec_opts=exec_opts)


def _dml_param_values(d):
    """execute()-level parameter values: dedicated tagged literals of the (concretized) description"""
    return [n[1] for n in d["pvals"]]


# ------------------------------------------------------------------ result normalisation
def norm(v, depth=0):
    """rows / ORM entities -> comparable plain data (what is loaded is part of the value)"""
    if isinstance(v, (A, B, C)):
        if depth >= 3:
            return (type(v).__name__, v.__dict__.get("id"))
        items = []
        for k in sorted(v.__dict__):
            if k == "_sa_instance_state":
                continue
            items.append((k, norm(v.__dict__[k], depth + 1)))
        return (type(v).__name__, tuple(items))
    if isinstance(v, (list, tuple)) or hasattr(v, "_fields"):
        return tuple(norm(x, depth + 1) for x in v)
    return v
