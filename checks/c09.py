"""C09 - column types round-trip values and apply processing exactly once.

Three sub-checks:

roundtrip   a value of a generic type is written to a live SQLite table (drawn write
            path) and read back through a drawn *nesting context* (chain of label /
            subquery / CTE / UNION / scalar-subquery / type_coerce / cast wrappers, or
            INSERT/UPDATE..RETURNING, or one of several ORM load paths); what is read
            must equal what was written within the type's documented precision.
once        the same machinery with a counting, NON-idempotent TypeDecorator (bind wraps
            the value in a marker envelope, result unwraps it): the value stored in the
            database (observed with raw SQL) carries exactly one envelope, the value read
            back carries none, and both counters equal the number of non-None values.
procs       processor level, no server: dialect impls of PG / MySQL / MSSQL types are
            asked for their bind and result processors, which are composed with a
            documented *driver model* (what the DBAPI returns for that column type) and
            must round trip; PG ARRAY applies its item processors exactly once per
            element at every dimension.
"""
from __future__ import annotations

import datetime as dt
import decimal
import enum
import uuid

from hypothesis import strategies as st

from vf.api import Generated, Violation

PROPERTY = "C09"
LEVEL = "exploration"
RULE = (
    "roundtrip: drawn type spec (14 kinds x options x plain/TypeDecorator/with_variant wrapper), 1-4 boundary-biased values (None allowed), "
    "drawn write path (single/executemany/multi-VALUES/ORM add/UPDATE) and drawn read context (0-3 chained wrappers from label/subq/cte/union/scalar/coerce/cast "
    "+ terminal core|orm_exec|returning|orm entity/column_property/deferred/aliased-subquery/refresh). "
    "once: counting envelope TypeDecorator over String/Integer/JSON/DateTime/PickleType impl in the same contexts + bind-side probes (WHERE ==, IN, literal()). "
    "procs: dialect-impl processors of PG/MySQL/MSSQL fed through a driver model. "
    "lastrowid: 1-6 single-row INSERTs (pk generated / values() / execution parameter / explicit None / ORM) into a table whose autoincrement integer PK (single or composite) is a counting TypeDecorator, read through inserted_primary_key(_rows). "
    "Non-trivial: at least one value is a boundary/special value of its type, or the read context nests >=2 wrappers, or (once/procs) every case; "
    "distinct = canonical JSON of the case"
)
ASSUMPTIONS = [
    "live tier is SQLite/pysqlite only; DateTime(timezone=True) is not generated because SQLite storage drops tzinfo (documented)",
    "Numeric on SQLite goes through float (documented warning): values are limited to <=15 significant digits and compared exactly after that",
    "Float(asdecimal=True) is compared within 0.5*10^-decimal_return_scale of the exact binary value; Float(asdecimal=False) exactly (binary64 REAL)",
    "top-level JSON scalars are limited to None/bool/str/|int|<2^53 because SQLite gives a column declared JSON NUMERIC affinity (text->number conversion is SQLite's); nested JSON is unrestricted",
    "CAST contexts only for types whose SQLite CAST is value preserving (Integer family, String/Text, LargeBinary, Float, Uuid as CHAR(32), and the counting decorators over String/Integer)",
    "counters count non-None values only (the ORM omits None attributes from INSERT parameter sets by design)",
    "procs tier trusts the driver model: PG drivers return list for arrays, str for enum labels, Decimal for NUMERIC (type code 1700) and float for FLOAT8 (701); MySQL drivers return timedelta for TIME; DBAPI Binary() wrappers carry bytes unchanged; date/time types are modelled only where the bind processor hands the driver the same Python type",
    "Interval (non-native) domain is epoch+delta within datetime.min..max",
]

# ---------------------------------------------------------------------------------------
# value strategies (JSON-able encodings) and decoders
# ---------------------------------------------------------------------------------------
_TEXT = st.text(st.characters(exclude_categories=["Cs"]), max_size=12)
_EDGE_TEXT = st.sampled_from(["", " ", "\x00", "a\x00b", "\U0001F600", "é", "é", "'", '"', "%", "\\", "\n", " ", "NULL", "null", "0", "\U0010FFFF", "﻿x", "a" * 300])
TEXTS = st.one_of(_EDGE_TEXT, _TEXT)


def _edge_ints(bits):
    m = 2 ** (bits - 1)
    return st.one_of(st.sampled_from([0, 1, -1, m - 1, -m, m - 2, -m + 1, 255, 256, -129]), st.integers(-m, m - 1))


_MAX_ORD = dt.date.max.toordinal()
DATES = st.one_of(st.sampled_from([1, 2, _MAX_ORD, _MAX_ORD - 1, 719163, 719162, dt.date(2000, 2, 29).toordinal(), dt.date(1900, 3, 1).toordinal(), dt.date(999, 12, 31).toordinal()]), st.integers(1, _MAX_ORD))
SECS = st.one_of(st.sampled_from([0, 1, 59, 60, 3599, 3600, 43200, 86399]), st.integers(0, 86399))
MICROS = st.one_of(st.sampled_from([0, 1, 10, 100, 1000, 999, 100000, 500000, 999999, 999990]), st.integers(0, 999999))
_IV_MIN_DAYS = -719162
_IV_MAX_DAYS = 2932896
IV_DAYS = st.one_of(st.sampled_from([0, -1, 1, _IV_MIN_DAYS, _IV_MAX_DAYS, 365, -365, 30]), st.integers(_IV_MIN_DAYS, _IV_MAX_DAYS))
FLOATS = st.one_of(
    st.sampled_from([0.0, -0.0, 1.0, -1.0, 0.1, 1e-7, 5e-324, 2.2250738585072014e-308, 1.7976931348623157e308, -1.7976931348623157e308, 1e16, 9007199254740993.0, 0.30000000000000004, 1e22, 123456789.123456789, 2.5, 0.5, 1e-10, 0.00000000005]),
    st.floats(allow_nan=False, allow_infinity=False),
    st.floats(min_value=-1000, max_value=1000, allow_nan=False),
)
_JSON_LEAF = st.one_of(st.none(), st.booleans(), st.integers(-(2**70), 2**70), st.sampled_from([0, -1, 2**63, -(2**63) - 1, 2**53 + 1]), st.floats(allow_nan=False, allow_infinity=False), st.sampled_from([-0.0, 1e308, 5e-324, 0.1]), TEXTS)
JSONS = st.recursive(_JSON_LEAF, lambda ch: st.one_of(st.lists(ch, max_size=4), st.dictionaries(TEXTS, ch, max_size=4)), max_leaves=8)
_JSON_TOP_SCALAR = st.one_of(st.none(), st.booleans(), st.integers(-(2**53) + 1, 2**53 - 1), TEXTS)
JSON_TOP = st.one_of(_JSON_TOP_SCALAR, st.lists(JSONS, max_size=4), st.dictionaries(TEXTS, JSONS, max_size=4))
BINS = st.one_of(st.sampled_from(["", "00", "0000", "ff", "00ff00", "27", "5c", "80", "c328", "efbbbf"]), st.binary(max_size=24).map(bytes.hex))
UUIDS = st.one_of(st.sampled_from(["0" * 32, "f" * 32, "0" * 31 + "1", "8" + "0" * 31, "A" * 32]), st.integers(0, 2**128 - 1).map(lambda i: "%032x" % i))

_NAME_ALPHA = st.characters(exclude_categories=["Cs", "Cc"])
ENUM_NAMES = st.lists(st.one_of(st.sampled_from(["a", "b", "A", "a b", "x'y", "é", "NULL", "1", "%s", ":p", "a,b", '"q"', "\\"]), st.text(_NAME_ALPHA, min_size=1, max_size=6)), min_size=1, max_size=4, unique=True)


@st.composite
def type_specs(draw, kinds=None):
    k = draw(st.sampled_from(kinds or KINDS))
    spec = {"k": k}
    if k == "int":
        spec["cls"] = draw(st.sampled_from(["SmallInteger", "Integer", "BigInteger"]))
    elif k == "numeric":
        p = draw(st.integers(1, 15))
        spec["p"], spec["s"] = p, draw(st.integers(0, p))
        spec["asdecimal"] = draw(st.booleans())
    elif k == "float":
        spec["cls"] = draw(st.sampled_from(["Float", "Double", "REAL"]))
        spec["asdecimal"] = draw(st.booleans())
        spec["scale"] = draw(st.sampled_from([None, 0, 1, 4, 10, 17]))
    elif k == "str":
        spec["cls"] = draw(st.sampled_from(["String", "String50", "Text", "Unicode", "UnicodeText", "CHAR", "VARCHAR"]))
    elif k == "bool":
        spec["constraint"] = draw(st.booleans())
    elif k == "interval":
        spec["native"] = draw(st.booleans())
        spec["sp"] = draw(st.sampled_from([None, 0, 6]))
    elif k == "enum":
        spec["names"] = draw(ENUM_NAMES)
        spec["mode"] = draw(st.sampled_from(["str", "pyenum", "pyenum_values", "pyenum_int_values"]))
        spec["validate"] = draw(st.booleans())
        spec["constraint"] = draw(st.booleans())
        spec["native"] = draw(st.booleans())
    elif k == "json":
        spec["none_as_null"] = draw(st.booleans())
    elif k == "uuid":
        spec["as_uuid"] = draw(st.booleans())
        spec["native"] = draw(st.booleans())
    elif k == "pickle":
        spec["tuples"] = draw(st.booleans())
        spec["protocol"] = draw(st.sampled_from([2, 4, 5]))
    spec["wrap"] = draw(st.sampled_from(["none", "none", "decorator", "variant_hit", "variant_miss"]))
    return spec


KINDS = ["int", "numeric", "float", "str", "bool", "date", "datetime", "time", "interval", "binary", "enum", "json", "uuid", "pickle"]


def value_strategy(spec):
    k = spec["k"]
    if k == "int":
        return _edge_ints({"SmallInteger": 16, "Integer": 32, "BigInteger": 64}[spec["cls"]])
    if k == "numeric":
        lim = 10 ** spec["p"] - 1
        return st.one_of(st.sampled_from([0, 1, -1, lim, -lim, 5, 10 ** (spec["p"] - 1)]), st.integers(-lim, lim))
    if k == "float":
        return FLOATS
    if k == "str":
        return TEXTS
    if k == "bool":
        return st.booleans()
    if k == "date":
        return DATES
    if k == "datetime":
        return st.tuples(DATES, SECS, MICROS).map(list)
    if k == "time":
        return st.tuples(SECS, MICROS).map(list)
    if k == "interval":
        return st.tuples(IV_DAYS, SECS, MICROS).map(list)
    if k == "binary":
        return BINS
    if k == "enum":
        return st.integers(0, len(spec["names"]) - 1)
    if k == "json":
        return JSON_TOP
    if k == "uuid":
        return UUIDS
    if k == "pickle":
        return JSONS
    raise AssertionError(k)


def _tupled(v):
    if isinstance(v, list):
        return tuple(_tupled(x) for x in v)
    if isinstance(v, dict):
        return {k: _tupled(x) for k, x in v.items()}
    return v


def decode(spec, enc, rt):
    """JSON encoding -> Python value handed to SQLAlchemy (rt: per-case runtime objects)"""
    if enc is None:
        return None
    k = spec["k"]
    if k in ("int", "float", "str", "bool", "json"):
        return enc
    if k == "numeric":
        return decimal.Decimal(enc).scaleb(-spec["s"])
    if k == "date":
        return dt.date.fromordinal(enc)
    if k == "datetime":
        d, s, us = enc
        return dt.datetime.combine(dt.date.fromordinal(d), dt.time(s // 3600, s // 60 % 60, s % 60, us))
    if k == "time":
        s, us = enc
        return dt.time(s // 3600, s // 60 % 60, s % 60, us)
    if k == "interval":
        d, s, us = enc
        return dt.timedelta(days=d, seconds=s, microseconds=us)
    if k == "binary":
        return bytes.fromhex(enc)
    if k == "enum":
        return rt["enum_values"][enc]
    if k == "uuid":
        u = uuid.UUID(hex=enc)
        return u if spec["as_uuid"] else str(u)
    if k == "pickle":
        return _tupled(enc) if spec["tuples"] else enc
    raise AssertionError(k)


def is_special(spec, enc):
    """boundary / special value of the type (for the non-trivial rule)"""
    if enc is None:
        return True
    k = spec["k"]
    if k == "int":
        m = 2 ** ({"SmallInteger": 16, "Integer": 32, "BigInteger": 64}[spec["cls"]] - 1)
        return enc in (0, -1, m - 1, -m, m - 2, -m + 1)
    if k == "numeric":
        lim = 10 ** spec["p"] - 1
        return abs(enc) in (0, lim) or (spec["s"] > 0 and enc % 10 != 0)
    if k == "float":
        return enc == 0 or abs(enc) >= 1e15 or abs(enc) < 1e-6 or len(repr(enc)) > 12
    if k == "str":
        return enc == "" or any(ord(c) > 127 or ord(c) < 32 or c in "'\"%\\" for c in enc)
    if k == "bool":
        return True
    if k == "date":
        return enc < 366 or enc > _MAX_ORD - 366 or enc < 719163
    if k == "datetime":
        return enc[2] != 0 or enc[0] < 366 or enc[0] > _MAX_ORD - 366
    if k == "time":
        return enc[1] != 0 or enc[0] in (0, 86399)
    if k == "interval":
        return enc[0] < 0 or enc[0] > 0 or enc[2] != 0
    if k == "binary":
        return enc == "" or "00" in enc or len(enc) >= 2 and int(enc[:2], 16) > 127
    if k == "enum":
        return True
    if k == "json":
        return enc is None or isinstance(enc, (list, dict))
    if k == "uuid":
        return enc in ("0" * 32, "f" * 32) or enc[0] in "89abcdefABCDEF"
    if k == "pickle":
        return isinstance(enc, (list, dict))
    return False


def build_type(spec, rt):
    import sqlalchemy as sa

    k = spec["k"]
    if k == "int":
        t = getattr(sa, spec["cls"])()
    elif k == "numeric":
        t = sa.Numeric(spec["p"], spec["s"], asdecimal=spec["asdecimal"])
    elif k == "float":
        cls = getattr(sa, spec["cls"])
        kw = {"asdecimal": spec["asdecimal"]}
        if spec["scale"] is not None:
            kw["decimal_return_scale"] = spec["scale"]
        t = cls(**kw)
    elif k == "str":
        t = {"String": sa.String(), "String50": sa.String(50), "Text": sa.Text(), "Unicode": sa.Unicode(), "UnicodeText": sa.UnicodeText(), "CHAR": sa.CHAR(400), "VARCHAR": sa.VARCHAR(400)}[spec["cls"]]
    elif k == "bool":
        t = sa.Boolean(create_constraint=spec["constraint"])
    elif k == "date":
        t = sa.Date()
    elif k == "datetime":
        t = sa.DateTime()
    elif k == "time":
        t = sa.Time()
    elif k == "interval":
        t = sa.Interval(native=spec["native"], second_precision=spec["sp"])
    elif k == "binary":
        t = sa.LargeBinary()
    elif k == "enum":
        names = spec["names"]
        mode = spec["mode"]
        kw = dict(validate_strings=spec["validate"], create_constraint=spec["constraint"], native_enum=spec["native"])
        if mode == "str":
            t = sa.Enum(*names, name="e_t", **kw)
            rt["enum_values"] = list(names)
        else:
            if mode == "pyenum_int_values":
                E = enum.Enum("E", {f"m{i}": i for i, n in enumerate(names)})
            else:
                # member *names* are the persisted form by default; use safe python names and the drawn strings as values
                E = enum.Enum("E", {f"m{i}": n for i, n in enumerate(names)})
            rt["enum_values"] = list(E)
            if mode == "pyenum_values":
                kw["values_callable"] = lambda x: [str(e.value) for e in x]
            t = sa.Enum(E, **kw)
    elif k == "json":
        t = sa.JSON(none_as_null=spec["none_as_null"])
    elif k == "uuid":
        t = sa.Uuid(as_uuid=spec["as_uuid"], native_uuid=spec["native"])
    elif k == "pickle":
        t = sa.PickleType(protocol=spec["protocol"])
    else:
        raise AssertionError(k)
    w = spec.get("wrap", "none")
    if w == "decorator":
        inner = t

        class Passthru(sa.TypeDecorator):
            impl = type(inner)
            cache_ok = True

            def load_dialect_impl(self, dialect):
                return dialect.type_descriptor(inner)

        # a pass-through TypeDecorator (no process_* overrides) delegating to the configured instance
        Passthru.__name__ = "Passthru_" + k
        t = Passthru()
    elif w == "variant_hit":
        t = sa.String(7).with_variant(t, "sqlite")
    elif w == "variant_miss":
        t = t.with_variant(sa.String(7), "postgresql", "mysql")
    return t


def values_equal(spec, got, want):
    """None, or a short reason string when `got` does not match the written `want`"""
    if want is None:
        return None if got is None else "expected None"
    if got is None:
        return "got None"
    k = spec["k"]
    if k == "numeric":
        if spec["asdecimal"]:
            if not isinstance(got, decimal.Decimal):
                return f"expected Decimal, got {type(got).__name__}"
            return None if got == want else "value"
        return None if float(got) == float(want) else "value"
    if k == "float":
        if spec["asdecimal"]:
            if not isinstance(got, decimal.Decimal):
                return f"expected Decimal, got {type(got).__name__}"
            scale = 10 if spec["scale"] is None else spec["scale"]
            with decimal.localcontext() as c:
                c.prec = 1200
                err = abs(got - decimal.Decimal(want))
                return None if err <= decimal.Decimal(5).scaleb(-scale - 1) else "precision"
        if isinstance(got, bool) or not isinstance(got, (int, float)):
            return f"type {type(got).__name__}"
        return None if got == want else "value"
    if k == "bool":
        return None if got is want else "value"
    if k == "enum":
        if spec["mode"] != "str":
            return None if got is want else "value"
        return None if got == want and type(got) is str else "value"
    if k in ("date", "datetime", "time", "interval", "uuid", "binary", "str"):
        if type(got) is not type(want):
            return f"type {type(got).__name__}"
        return None if got == want else "value"
    return None if got == want else "value"


# ---------------------------------------------------------------------------------------
# contexts
# ---------------------------------------------------------------------------------------
WRAPS = ["label", "subq", "cte", "union", "union_d", "scalar", "coerce", "cast"]
TERMINALS = ["core", "core", "core_pair", "orm_exec", "compound_top", "ret_insert", "ret_insert_many", "ret_update", "orm_entity", "orm_cprop", "orm_deferred", "orm_aliased", "orm_refresh", "orm_scalars"]
WRITES = ["single", "many", "multi", "orm_add", "update", "bindparam"]

_TERM_GROUPS = [
    ["core", "core_pair", "compound_top"],
    ["ret_insert", "ret_insert_many", "ret_update"],
    ["orm_entity", "orm_cprop", "orm_deferred", "orm_refresh"],
    ["orm_exec", "orm_scalars", "orm_aliased"],
    ["ret_supplemental", "orm_bulk_returning"],  # rewound supplemental RETURNING (insertmanyvalues + sentinel tuple filter)
]


def contexts(castable=False):
    wraps = WRAPS + (["cast", "cast"] if castable else [])
    wraps = [w for w in wraps if castable or w != "cast"]
    return st.fixed_dictionaries(
        {
            "wraps": st.lists(st.sampled_from(wraps), max_size=3),
            "term": st.one_of([st.sampled_from(g) for g in _TERM_GROUPS[2:4] + _TERM_GROUPS[4:] + _TERM_GROUPS[:2]]),
            "write": st.sampled_from(WRITES[1:] + WRITES[:1]),
            "split": st.integers(0, 4),
        }
    )


CASTABLE = {"int", "str", "binary", "uuid"}


def _castable(spec):
    if spec["k"] == "float":
        return not spec["asdecimal"]
    if spec["k"] == "uuid":
        return True
    return spec["k"] in CASTABLE and spec.get("wrap", "none") in ("none", "decorator")


class Harness:
    """per-case table, engine, optional mapped class; write + read through a context"""

    def __init__(self, coltype, cast_ok):
        import sqlalchemy as sa
        from vf.sautil import mem_engine

        self.sa = sa
        self.coltype = coltype
        self.cast_ok = cast_ok
        self.eng = mem_engine()
        self.md = sa.MetaData()
        self.t = sa.Table("t", self.md, sa.Column("id", sa.Integer, primary_key=True, autoincrement=False), sa.Column("c", coltype, nullable=True))
        self.md.create_all(self.eng)
        self.reg = None
        self.Cls = None
        self.raw_table = "t"
        self.effective_values = None  # set when a read context had to write a different value list (>= 2 parameter sets)

    def close(self):
        if self.reg is not None:
            self.reg.dispose()
        self.eng.dispose()

    def mapped(self):
        if self.Cls is None:
            from sqlalchemy.orm import column_property, registry

            self.reg = registry()

            class Cls:
                pass

            t = self.t
            self.reg.map_imperatively(
                Cls,
                t,
                properties={
                    "c": t.c.c,
                    "cp": column_property(t.c.c.label("cp_l")),
                    "dc": column_property(t.c.c.label("dc_l"), deferred=True),
                },
            )
            self.Cls = Cls
        return self.Cls

    # ---- write ------------------------------------------------------------------
    def write(self, how, values):
        sa, t = self.sa, self.t
        rows = [{"id": i + 1, "c": v} for i, v in enumerate(values)]
        if how == "orm_add":
            from sqlalchemy.orm import Session

            Cls = self.mapped()
            with Session(self.eng) as s:
                objs = []
                for r in rows:
                    o = Cls()
                    o.id = r["id"]
                    o.c = r["c"]
                    objs.append(o)
                s.add_all(objs)
                s.commit()
            return
        with self.eng.begin() as conn:
            if how == "single":
                for r in rows:
                    conn.execute(t.insert().values(id=r["id"], c=r["c"]))
            elif how == "many":
                conn.execute(t.insert(), rows)
            elif how == "multi":
                conn.execute(t.insert().values(rows))
            elif how == "bindparam":
                stmt = t.insert().values(id=sa.bindparam("pid"), c=sa.bindparam("pc"))
                for r in rows:
                    conn.execute(stmt, {"pid": r["id"], "pc": r["c"]})
            elif how == "update":
                conn.execute(t.insert(), [{"id": r["id"]} for r in rows])
                for r in rows:
                    conn.execute(t.update().where(t.c.id == r["id"]).values(c=r["c"]))
            else:
                raise AssertionError(how)

    def raw(self):
        with self.eng.connect() as conn:
            return [r[0] for r in conn.exec_driver_sql(f"select c from {self.raw_table} order by id").all()]

    def read_rewound(self, term, split, vals):
        """insertmanyvalues (>= 2 parameter sets) + sort_by_parameter_order + supplemental RETURNING on a table whose insert
        sentinel is an extra trailing RETURNING column: the result is fetched once internally and then *rewound*"""
        import itertools

        sa = self.sa
        vals = list(vals) if len(vals) >= 2 else list(vals) * 2
        self.effective_values = vals
        counter = itertools.count(1)
        md2 = sa.MetaData()
        explicit_sentinel = term == "ret_supplemental" and split % 2 == 1
        if explicit_sentinel:
            ts = sa.Table("ts", md2, sa.Column("id", sa.Integer, primary_key=True), sa.Column("c", self.coltype, nullable=True), sa.insert_sentinel("sentinel"))
        else:
            # client-side default primary key (deterministic counter): qualifies as sentinel, is not part of the implicit RETURNING
            ts = sa.Table("ts", md2, sa.Column("id", sa.Integer, primary_key=True, autoincrement=False, default=lambda: next(counter)), sa.Column("c", self.coltype, nullable=True))
        md2.create_all(self.eng)
        self.raw_table = "ts"
        params = [{"c": v} for v in vals]
        if term == "ret_supplemental":
            with self.eng.begin() as conn:
                res = conn.execute(ts.insert().return_defaults(supplemental_cols=[ts.c.c], sort_by_parameter_order=True), params)
                a = [r._mapping[ts.c.c] for r in res.returned_defaults_rows]
                pks = res.inserted_primary_key_rows
                b = [r._mapping[ts.c.c] for r in res.all()]  # the rewound rows
            if len(pks) != len(vals):
                return [("PKROWS", len(pks))], ["returning", "rewound"]
            try:
                same = a == b
            except Exception:
                same = False
            return (b if not same else a), ["returning", "rewound"] + (["explicit_sentinel"] if explicit_sentinel else ["default_pk_sentinel"])
        from sqlalchemy.orm import Session, registry

        reg2 = registry()

        class Cls2:
            pass

        reg2.map_imperatively(Cls2, ts)
        try:
            with Session(self.eng) as s:
                objs = s.execute(sa.insert(Cls2).returning(Cls2, sort_by_parameter_order=True), params).scalars().all()
                out = [o.c for o in objs]
                s.commit()
        finally:
            reg2.dispose()
        return out, ["returning", "rewound", "orm", "default_pk_sentinel"]

    # ---- read -------------------------------------------------------------------
    def build_select(self, wraps, split, idc, cc):
        """returns (idc, cc, applied wraps) after applying the wrapper chain"""
        sa = self.sa
        applied = []
        n = 0
        for w in wraps:
            n += 1
            if w == "label":
                cc = cc.label(f"L{n}")
            elif w == "coerce":
                cc = sa.type_coerce(cc, self.coltype)
            elif w == "cast":
                if not self.cast_ok:
                    continue
                cc = sa.cast(cc, self.coltype)
            elif w == "subq":
                sq = sa.select(idc, cc).subquery()
                idc, cc = list(sq.c)
            elif w == "cte":
                sq = sa.select(idc, cc).cte(f"cte{n}")
                idc, cc = list(sq.c)
            elif w in ("union", "union_d"):
                base = sa.select(idc, cc)
                fn = sa.union_all if w == "union" else sa.union
                u = fn(base.where(idc <= split), base.where(idc > split)).subquery()
                idc, cc = list(u.c)
            elif w == "scalar":
                d = sa.select(idc, cc).subquery()
                did, dc = list(d.c)
                if not isinstance(idc, sa.sql.expression.ColumnClause):
                    outer = sa.select(idc, cc).subquery()
                    idc = list(outer.c)[0]
                cc = sa.select(dc).where(did == idc).scalar_subquery()
            else:
                raise AssertionError(w)
            applied.append(w)
        return idc, cc, applied

    def read(self, ctx_spec, values_for_returning):
        """returns (list of values in id order, applied-wrap list)"""
        sa, t = self.sa, self.t
        term = ctx_spec["term"]
        wraps = ctx_spec["wraps"]
        split = ctx_spec["split"]
        if term in ("core", "core_pair", "compound_top"):
            idc, cc, applied = self.build_select(wraps, split, t.c.id, t.c.c)
            with self.eng.connect() as conn:
                if term == "core":
                    return [r[0] for r in conn.execute(sa.select(cc, idc).order_by(idc))], applied
                if term == "core_pair":
                    return [r[1] for r in conn.execute(sa.select(idc, cc).order_by(idc))], applied
                base = sa.select(idc.label("oid"), cc.label("oc"))
                u = sa.union_all(base.where(idc <= split), base.where(idc > split)).order_by("oid")
                return [r.oc for r in conn.execute(u)], applied + ["union"]
        from sqlalchemy.orm import Session, aliased, undefer

        if term in ("ret_supplemental", "orm_bulk_returning"):
            return self.read_rewound(term, split, values_for_returning)
        if term in ("ret_insert", "ret_insert_many", "ret_update"):
            vals = values_for_returning
            with self.eng.begin() as conn:
                if term == "ret_update":
                    out = []
                    for i, v in enumerate(vals):
                        out.append(conn.execute(t.update().where(t.c.id == i + 1).values(c=v).returning(t.c.c)).scalar_one())
                    return out, ["returning"]
                conn.execute(t.delete())
                if term == "ret_insert":
                    out = []
                    for i, v in enumerate(vals):
                        r = conn.execute(t.insert().values(id=i + 1, c=v).returning(t.c.id, t.c.c.label("rc"))).one()
                        out.append(r.rc)
                    return out, ["returning"]
                res = conn.execute(t.insert().returning(t.c.id, t.c.c, sort_by_parameter_order=True), [{"id": i + 1, "c": v} for i, v in enumerate(vals)])
                return [r[1] for r in res.all()], ["returning"]
        Cls = self.mapped()
        with Session(self.eng) as s:
            if term == "orm_exec":
                idc, cc, applied = self.build_select(wraps, split, Cls.id, Cls.c)
                return [r[0] for r in s.execute(sa.select(cc, idc).order_by(idc))], applied + ["orm"]
            if term == "orm_scalars":
                idc, cc, applied = self.build_select(wraps, split, Cls.id, Cls.cp)
                return list(s.scalars(sa.select(cc, idc).order_by(idc))), applied + ["orm"]
            if term == "orm_entity":
                return [o.c for o in s.scalars(sa.select(Cls).order_by(Cls.id))], ["orm"]
            if term == "orm_cprop":
                return [o.cp for o in s.scalars(sa.select(Cls).order_by(Cls.id))], ["orm", "label"]
            if term == "orm_deferred":
                if split % 2:
                    return [o.dc for o in s.scalars(sa.select(Cls).options(undefer(Cls.dc)).order_by(Cls.id))], ["orm"]
                return [o.dc for o in s.scalars(sa.select(Cls).order_by(Cls.id)).all()], ["orm", "deferred"]
            if term == "orm_aliased":
                idc, cc, applied = self.build_select([w for w in wraps if w not in ("scalar", "coerce", "cast", "label")], split, t.c.id, t.c.c)
                sq = sa.select(idc.label("id"), cc.label("c")).subquery()
                A = aliased(Cls, sq)
                return [o.c for o in s.scalars(sa.select(A).order_by(A.id))], applied + ["subq", "orm"]
            if term == "orm_refresh":
                objs = list(s.scalars(sa.select(Cls).order_by(Cls.id)))
                s.expire_all()
                return [o.c for o in objs], ["orm", "refresh"]
        raise AssertionError(term)


# ---------------------------------------------------------------------------------------
# sub-check 1: value round trip
# ---------------------------------------------------------------------------------------
@st.composite
def roundtrip_cases(draw):
    spec = draw(type_specs())
    vs = value_strategy(spec)
    values = draw(st.lists(st.one_of(vs, vs, vs, vs, st.none()), min_size=1, max_size=4))
    return {"type": spec, "values": values, "ctx": draw(contexts(_castable(spec)))}


def check_roundtrip(case, ctx):
    spec, encs, cx = case["type"], case["values"], case["ctx"]
    rt = {}
    coltype = build_type(spec, rt)
    want = [decode(spec, e, rt) for e in encs]
    h = Harness(coltype, _castable(spec))
    try:
        h.write(cx["write"], want)
        got, applied = h.read(cx, want)
        if h.effective_values is not None:
            want = h.effective_values
    finally:
        h.close()
    special = any(is_special(spec, e) for e in encs)
    depth = len(applied)
    ctx.note(
        case,
        special or depth >= 2,
        classes=["kind=" + spec["k"], "wrap=" + spec["wrap"], "term=" + cx["term"], "write=" + cx["write"], f"depth={min(depth, 3)}", "special" if special else "plain"] + ["w=" + a for a in sorted(set(applied))],
    )
    if len(got) != len(want):
        raise Violation(f"C09/roundtrip/{spec['k']}/rowcount", f"{len(got)} rows read, {len(want)} written", observed=repr(got), expected=repr(want))
    for g, w in zip(got, want):
        why = values_equal(spec, g, w)
        if why:
            where = "rewound-returning" if "rewound" in applied else "returning" if cx["term"].startswith("ret_") else ("orm" if cx["term"].startswith("orm") else "select")
            raise Violation(
                f"C09/roundtrip/{spec['k']}/{why.split()[0]}/{where}",
                f"{spec} via write={cx['write']} read={cx['term']}{applied}: wrote {w!r} read {g!r} ({why})",
                observed=repr(got),
                expected=repr(want),
            )


# ---------------------------------------------------------------------------------------
# sub-check 2: exactly once (counting, non-idempotent envelope TypeDecorator)
# ---------------------------------------------------------------------------------------
_L, _R = "⟦", "⟧"
_K = 1000003
ENV_KINDS = ["str", "int", "json", "datetime", "pickle"]
_SAFE_TEXT = st.one_of(st.sampled_from(["", "a", "é", "\U0001F600", "%", "'"]), st.text(st.characters(exclude_categories=["Cs"], exclude_characters=_L + _R), max_size=6))


def env_value_strategy(kind):
    if kind == "str":
        return _SAFE_TEXT
    if kind == "int":
        return st.integers(-(2**40), 2**40)
    if kind == "json":
        return st.one_of(st.lists(st.integers(-5, 5), max_size=3), st.dictionaries(st.sampled_from(["w", "x"]), st.integers(0, 3), max_size=2), st.integers(0, 9), _SAFE_TEXT)
    if kind == "datetime":
        return st.tuples(st.integers(10, _MAX_ORD - 10), SECS, MICROS).map(list)
    if kind == "pickle":
        return st.one_of(st.lists(st.integers(-5, 5), max_size=3), st.integers(0, 9), _SAFE_TEXT)
    raise AssertionError(kind)


def make_envelope_type(kind, counters):
    """fresh TypeDecorator class per case; returns (type instance, wrap(v), depth(stored raw) fn)"""
    import sqlalchemy as sa

    def wrap(v):
        if kind == "str":
            return _L + v + _R
        if kind == "int":
            return v + _K
        if kind == "json":
            return {"__env": v}
        if kind == "datetime":
            return v + dt.timedelta(days=1, microseconds=1)
        if kind == "pickle":
            return ("__env", v)

    def unwrap(v):
        if kind == "str":
            if isinstance(v, str) and v.startswith(_L) and v.endswith(_R):
                return v[1:-1]
            return ("UNDERFLOW", v)
        if kind == "int":
            return v - _K
        if kind == "json":
            if isinstance(v, dict) and set(v) == {"__env"}:
                return v["__env"]
            return ("UNDERFLOW", v)
        if kind == "datetime":
            if not isinstance(v, dt.datetime):
                return ("UNDERFLOW", v)
            return v - dt.timedelta(days=1, microseconds=1)
        if kind == "pickle":
            if isinstance(v, tuple) and len(v) == 2 and v[0] == "__env":
                return v[1]
            return ("UNDERFLOW", v)

    impl_t = {"str": sa.String, "int": sa.BigInteger, "json": sa.JSON, "datetime": sa.DateTime, "pickle": sa.PickleType}[kind]

    class Envelope(sa.TypeDecorator):
        impl = impl_t
        cache_ok = True

        def process_bind_param(self, value, dialect):
            if value is None:
                return None
            counters["bind"] += 1
            return wrap(value)

        def process_result_value(self, value, dialect):
            if value is None:
                return None
            counters["result"] += 1
            return unwrap(value)

        def coerce_compared_value(self, op, value):
            # documented recipe: keep this type for the right-hand side of comparisons
            return self

    Envelope.__name__ = "Envelope_" + kind
    return Envelope(), wrap, unwrap


def env_decode(kind, enc):
    if enc is None:
        return None
    if kind == "datetime":
        d, s, us = enc
        return dt.datetime.combine(dt.date.fromordinal(d), dt.time(s // 3600, s // 60 % 60, s % 60, us))
    return enc


def env_depth(kind, raw, orig):
    """number of envelopes around `orig` in the raw stored value, or None if unrecognisable"""
    import json
    import pickle

    if raw is None:
        return None
    try:
        if kind == "str":
            d, s = 0, raw
            while s != orig and isinstance(s, str) and s.startswith(_L) and s.endswith(_R):
                s, d = s[1:-1], d + 1
            return d if s == orig else None
        if kind == "int":
            q, r = divmod(raw - orig, _K)
            return q if r == 0 else None
        if kind == "json":
            v, d = (json.loads(raw) if isinstance(raw, str) else raw), 0
            while v != orig and isinstance(v, dict) and set(v) == {"__env"}:
                v, d = v["__env"], d + 1
            return d if v == orig else None
        if kind == "datetime":
            v = dt.datetime.strptime(raw, "%Y-%m-%d %H:%M:%S.%f")
            delta = v - orig
            q, r = divmod(delta, dt.timedelta(days=1, microseconds=1))
            return q if not r else None
        if kind == "pickle":
            v, d = pickle.loads(raw), 0
            while v != orig and isinstance(v, tuple) and len(v) == 2 and v[0] == "__env":
                v, d = v[1], d + 1
            return d if v == orig else None
    except Exception:
        return None


PROBES = ["none", "where_eq", "where_in", "literal", "bindparam_typed", "literal_coerce"]


@st.composite
def once_cases(draw):
    kind = draw(st.sampled_from(ENV_KINDS))
    vs = env_value_strategy(kind)
    values = draw(st.lists(st.one_of(vs, vs, vs, vs, vs, st.none()), min_size=1, max_size=4))
    return {"kind": kind, "values": values, "ctx": draw(contexts(kind in ("str", "int"))), "probe": draw(st.sampled_from(PROBES)), "variant": draw(st.sampled_from(["none", "none", "hit", "miss"]))}


def check_once(case, ctx):
    import sqlalchemy as sa

    kind, encs, cx, probe = case["kind"], case["values"], case["ctx"], case["probe"]
    counters = {"bind": 0, "result": 0}
    etype, wrap, unwrap = make_envelope_type(kind, counters)
    decoy_counters = {"bind": 0, "result": 0}
    coltype = etype
    variant = case["variant"]
    if variant == "hit" and kind in _DIALECT_SENSITIVE_IMPL and not case.get("pinned"):
        # known finding C09/once/variant-typedecorator-impl-not-adapted: keep searching behind it with the plain type
        ctx.exclude("TypeDecorator.with_variant(TypeDecorator over a dialect-adapted impl) (known finding)")
        variant = "none"
    if variant == "hit":
        decoy, _, _ = make_envelope_type("str", decoy_counters)
        coltype = decoy.with_variant(etype, "sqlite")
    elif variant == "miss":
        decoy, _, _ = make_envelope_type("str", decoy_counters)
        coltype = etype.with_variant(decoy, "postgresql", "oracle")
    want = [env_decode(kind, e) for e in encs]
    nn = sum(1 for v in want if v is not None)
    cast_ok = kind in ("str", "int")
    h = Harness(coltype, cast_ok)
    applied = []
    try:
        # -- write
        # root-cause classifier for the variant finding: the type the dialect will use is a TypeDecorator whose impl was left generic
        di = coltype.dialect_impl(h.eng.dialect)
        unadapted = None
        if isinstance(di, sa.TypeDecorator) and type(di.impl_instance) is not type(h.eng.dialect.type_descriptor(di.impl_instance)):
            unadapted = type(di.impl_instance).__name__
        h.write(cx["write"], want)
        binds_after_write = counters["bind"]
        raw = h.raw()
        term = cx["term"]
        expected_binds = nn
        if cx["write"] == "update":
            expected_binds = nn  # the placeholder insert binds no c values
        note_classes = ["kind=" + kind, "term=" + term, "write=" + cx["write"], "probe=" + probe, "variant=" + variant]
        # -- bind-side probes (each returns ids; must find exactly the row(s) holding v)
        probe_fail = None
        t = h.t
        nonnull = [(i + 1, v) for i, v in enumerate(want) if v is not None]
        cmp_ok = kind in ("str", "int", "datetime")  # JSON/pickle equality is not a documented SQL comparison
        if probe != "none" and nonnull:
            b0, r0 = counters["bind"], counters["result"]
            with h.eng.connect() as conn:
                rid, v = nonnull[0]
                same = sorted(i for i, x in nonnull if x == v)
                if probe == "where_eq" and cmp_ok:
                    ids = sorted(conn.execute(sa.select(t.c.id).where(t.c.c == v)).scalars())
                    if ids != same or counters["bind"] - b0 != 1:
                        probe_fail = ("where_eq", ids, same, counters["bind"] - b0, 1)
                elif probe == "where_in" and cmp_ok:
                    vals = [x for _, x in nonnull]
                    ids = sorted(conn.execute(sa.select(t.c.id).where(t.c.c.in_(vals))).scalars())
                    if ids != [i for i, _ in nonnull] or counters["bind"] - b0 != len(vals):
                        probe_fail = ("where_in", ids, [i for i, _ in nonnull], counters["bind"] - b0, len(vals))
                elif probe == "literal":
                    g = conn.execute(sa.select(sa.literal(v, coltype))).scalar_one()
                    if g != v or counters["bind"] - b0 != 1 or counters["result"] - r0 != 1:
                        probe_fail = ("literal", repr(g), repr(v), (counters["bind"] - b0, counters["result"] - r0), (1, 1))
                elif probe == "bindparam_typed":
                    g = conn.execute(sa.select(sa.bindparam("p", type_=coltype).label("x")), {"p": v}).scalar_one()
                    if g != v or counters["bind"] - b0 != 1 or counters["result"] - r0 != 1:
                        probe_fail = ("bindparam_typed", repr(g), repr(v), (counters["bind"] - b0, counters["result"] - r0), (1, 1))
                elif probe == "literal_coerce":
                    # type_coerce of a plain Python value: bind processing of the target type applies once
                    g = conn.execute(sa.select(sa.type_coerce(v, coltype).label("x"))).scalar_one()
                    if g != v or counters["bind"] - b0 != 1 or counters["result"] - r0 != 1:
                        probe_fail = ("literal_coerce", repr(g), repr(v), (counters["bind"] - b0, counters["result"] - r0), (1, 1))
        # -- read
        counters["bind"] = 0
        counters["result"] = 0
        got, applied = h.read(cx, want)
        read_binds, read_results = counters["bind"], counters["result"]
        if h.effective_values is not None:
            want = h.effective_values
            nn = sum(1 for v in want if v is not None)
        raw_after = h.raw()
    finally:
        h.close()
    depth = len(applied)
    ctx.note(case, True, classes=note_classes + [f"depth={min(depth, 3)}"] + ["w=" + a for a in sorted(set(applied))])
    try:
        _judge_once(**{k: v for k, v in locals().items() if k in _JUDGE_ARGS})
    except Violation as v:
        if unadapted:
            raise Violation(
                "C09/once/variant-typedecorator-impl-not-adapted",
                f"TypeDecorator().with_variant({type(etype).__name__}(), 'sqlite'): the variant TypeDecorator is used without adapting its impl to the dialect "
                f"(impl_instance is generic {unadapted}), so the impl's dialect-level bind/result processing is skipped; first symptom: {v.message}",
                observed=v.observed,
                expected=v.expected,
            )
        raise


_JUDGE_ARGS = {"case", "kind", "cx", "term", "probe_fail", "want", "got", "raw", "raw_after", "applied", "nn", "wrap", "binds_after_write", "expected_binds", "decoy_counters", "read_binds", "read_results"}
_DIALECT_SENSITIVE_IMPL = {"datetime"}


def _judge_once(case, kind, cx, term, probe_fail, want, got, raw, raw_after, applied, nn, wrap, binds_after_write, expected_binds, decoy_counters, read_binds, read_results):

    where = "rewound-returning" if "rewound" in applied else "returning" if term.startswith("ret_") else ("orm" if term.startswith("orm") else "select")
    # bind side of the original write
    if binds_after_write != expected_binds:
        raise Violation(f"C09/once/bind-count/write={cx['write']}", f"{kind}: bind processor ran {binds_after_write}x for {expected_binds} non-None values (write={cx['write']})", observed=binds_after_write, expected=expected_binds)
    for r, w in zip(raw, want):
        if w is None:  # None passes through the envelope untouched (the impl may still store e.g. JSON null)
            continue
        d = env_depth(kind, r, w)
        if d != 1:
            raise Violation(f"C09/once/stored-depth/write={cx['write']}", f"{kind}: stored raw value {r!r} for {w!r} has envelope depth {d} (expected 1)", observed=repr(r), expected=repr(wrap(w)))
    if decoy_counters["bind"] or decoy_counters["result"]:
        raise Violation(f"C09/once/variant/wrong-type-used", f"variant={case['variant']}: the non-selected variant type processed values {decoy_counters}", observed=decoy_counters)
    if probe_fail:
        raise Violation(f"C09/once/probe/{probe_fail[0]}", f"{kind}: probe {probe_fail[0]} observed {probe_fail[1]} expected {probe_fail[2]}; processor calls {probe_fail[3]} expected {probe_fail[4]}", observed=repr(probe_fail[1:]), expected=None)
    # read side
    if term.startswith("ret_") or "rewound" in applied:
        if read_binds != nn:
            raise Violation(f"C09/once/bind-count/{term}", f"{kind}: {term} bound {nn} values, bind processor ran {read_binds}x", observed=read_binds, expected=nn)
        for r, w in zip(raw_after, want):
            if w is None:
                continue
            d = env_depth(kind, r, w)
            if d != 1:
                raise Violation(f"C09/once/stored-depth/{term}", f"{kind}: {term} stored {r!r} for {w!r}: envelope depth {d} (expected 1)", observed=repr(r), expected=repr(wrap(w)))
    if len(got) != len(want):
        raise Violation(f"C09/once/rowcount/{where}", f"{len(got)} rows read, {len(want)} written", observed=repr(got), expected=repr(want))
    for g, w in zip(got, want):
        if g != w or type(g) is not type(w):
            # classify: envelope still present (result skipped) or underflow (result doubled)
            if isinstance(g, tuple) and g and g[0] == "UNDERFLOW":
                cls = "result-applied-twice"
            else:
                try:
                    cls = "result-skipped" if w is not None and g == wrap(w) else "wrong-value"
                except Exception:
                    cls = "wrong-value"
            raise Violation(f"C09/once/{cls}/{where}", f"{kind} via read={term}{applied}: wrote {w!r} read {g!r}", observed=repr(got), expected=repr(want))
    # entity loads fetch the column once per mapped attribute on it (c, cp; dc when undeferred / lazily loaded); refresh loads c, cp again
    mult = {"orm_entity": 2, "orm_cprop": 2, "orm_deferred": 3, "orm_aliased": 2, "orm_refresh": 4}.get(term, 1)
    if read_results != nn * mult:
        raise Violation(f"C09/once/result-count/{where}", f"{kind} via read={term}{applied}: result processor ran {read_results}x for {nn} non-None values x {mult} fetched columns each", observed=read_results, expected=nn * mult)


# ---------------------------------------------------------------------------------------
# sub-check 3: dialect-impl processors against a driver model (no server)
# ---------------------------------------------------------------------------------------
PROC_DIALECTS = ["postgresql+psycopg2", "postgresql+psycopg", "postgresql+asyncpg", "postgresql+pg8000", "mysql+pymysql", "mysql+mysqldb", "mariadb+mariadbconnector", "mssql+pyodbc", "mssql+pymssql"]
PROC_KINDS = ["array", "array_enum", "array_env", "enum", "interval_nn", "uuid_nn", "pickle", "bool_nn", "mysql_time", "numeric_str", "json_text", "date_generic"]


@st.composite
def proc_cases(draw):
    k = draw(st.sampled_from(PROC_KINDS))
    case = {"k": k, "dialect": draw(st.sampled_from(PROC_DIALECTS))}
    if k in ("array", "array_enum", "array_env"):
        case["dialect"] = draw(st.sampled_from(PROC_DIALECTS[:4]))
        dims = draw(st.sampled_from([None, 1, 2, 3]))
        case["dims"] = dims
        case["as_tuple"] = draw(st.booleans())
        if k == "array":
            spec = draw(type_specs(kinds=["int", "str", "interval", "uuid", "bool", "datetime", "binary"]))
            spec["wrap"] = "none"
            if spec["k"] == "interval":
                spec["native"] = False
            if spec["k"] == "uuid":
                spec["native"] = False
            case["item"] = spec
            leaf = st.one_of(value_strategy(spec), st.none())
        elif k == "array_enum":
            case["names"] = draw(ENUM_NAMES)
            case["native"] = draw(st.booleans())
            leaf = st.one_of(st.integers(0, len(case["names"]) - 1), st.none())
        else:
            leaf = st.one_of(_SAFE_TEXT, st.none())
        depth = dims or draw(st.integers(1, 2))
        s = leaf
        for _ in range(depth):
            s = st.lists(s, min_size=0 if _ == depth - 1 else 1, max_size=3)
        case["depth"] = depth
        case["value"] = draw(s)
    elif k == "enum":
        case["names"] = draw(ENUM_NAMES)
        case["mode"] = draw(st.sampled_from(["str", "pyenum", "pyenum_values"]))
        case["native"] = draw(st.booleans())
        case["value"] = draw(st.integers(0, len(case["names"]) - 1))
    elif k == "interval_nn":
        case["value"] = draw(st.tuples(IV_DAYS, SECS, MICROS).map(list))
    elif k == "uuid_nn":
        case["as_uuid"] = draw(st.booleans())
        case["value"] = draw(UUIDS)
    elif k == "pickle":
        case["value"] = draw(JSONS)
    elif k == "bool_nn":
        case["value"] = draw(st.booleans())
    elif k == "mysql_time":
        case["dialect"] = draw(st.sampled_from([d for d in PROC_DIALECTS if d.startswith(("mysql", "mariadb"))]))
        case["value"] = draw(st.tuples(SECS, MICROS).map(list))
    elif k == "numeric_str":
        p = draw(st.integers(1, 30))
        case["p"], case["s"] = p, draw(st.integers(0, p))
        lim = 10**p - 1
        case["value"] = draw(st.one_of(st.sampled_from([0, lim, -lim, 1]), st.integers(-lim, lim)))
        case["driver_returns"] = draw(st.sampled_from(["decimal", "float"]))
    elif k == "json_text":
        case["value"] = draw(JSONS)
        case["none_as_null"] = draw(st.booleans())
    elif k == "date_generic":
        case["value"] = draw(st.tuples(DATES, SECS, MICROS).map(list))
    return case


_DIALECTS = {}


def _dialect(name):
    """one dialect instance per process and name (stateless for processor construction; types are fresh per case)"""
    from sqlalchemy.engine import url as _url

    if name not in _DIALECTS:
        _DIALECTS[name] = _url.make_url(name + "://").get_dialect()()
    return _DIALECTS[name]


def _procs(typ, dialect, coltype=None):
    impl = typ._cached_bind_processor(dialect), typ._cached_result_processor(dialect, coltype)
    return (impl[0] or (lambda v: v)), (impl[1] or (lambda v: v))


def _map_nested(v, f, depth):
    """apply f to the leaves found exactly `depth` list levels down (leaf encodings may be lists themselves)"""
    if depth == 0 or v is None:
        return f(v)
    return [_map_nested(x, f, depth - 1) for x in v]


def _tuple_depth(v, depth):
    if depth == 0 or v is None:
        return v
    return tuple(_tuple_depth(x, depth - 1) for x in v)


def check_procs(case, ctx):
    import sqlalchemy as sa
    from sqlalchemy.dialects import mysql, postgresql

    k = case["k"]
    d = _dialect(case["dialect"])
    ctx.note(case, True, classes=["k=" + k, "dialect=" + case["dialect"].split("+")[0]])
    sig = f"C09/procs/{k}"
    if k in ("array", "array_enum", "array_env"):
        counters = {"bind": 0, "result": 0}
        rt = {}
        if k == "array":
            item = build_type(case["item"], rt)
            dec = lambda e: decode(case["item"], e, rt)  # noqa: E731
        elif k == "array_enum":
            E = enum.Enum("E", {f"m{i}": n for i, n in enumerate(case["names"])})
            members = list(E)
            item = sa.Enum(E, native_enum=case["native"])
            dec = lambda e: None if e is None else members[e]  # noqa: E731
        else:
            item, _, _ = make_envelope_type("str", counters)
            dec = lambda e: e  # noqa: E731
        typ = postgresql.ARRAY(item, dimensions=case["dims"], as_tuple=case["as_tuple"])
        value = _map_nested(case["value"], dec, case["depth"])
        bp, rp = _procs(typ, d)
        bound = bp(value)
        # driver model: psycopg2/psycopg/asyncpg/pg8000 hand lists to the server and return lists of the element's driver type
        if not isinstance(bound, list):
            raise Violation(sig + "/bind-not-list", f"ARRAY bind processor returned {type(bound).__name__}", observed=repr(bound))
        got = rp(bound)
        want = value
        if case["as_tuple"]:
            want = _tuple_depth(value, case["depth"])
        n_leaves = 0

        def count(v):
            nonlocal n_leaves
            if isinstance(v, (list, tuple)):
                for x in v:
                    count(x)
            elif v is not None:
                n_leaves += 1

        if k == "array_env":
            count(value)
            if counters["bind"] != n_leaves or counters["result"] != n_leaves:
                raise Violation(sig + "/item-processor-count", f"dims={case['dims']} value={value!r}: item bind ran {counters['bind']}x, result {counters['result']}x for {n_leaves} elements", observed=counters, expected=n_leaves)
        if got != want or (case["as_tuple"] and type(got) is not tuple) or (not case["as_tuple"] and type(got) is not list):
            raise Violation(sig + "/value", f"ARRAY({item!r}, dimensions={case['dims']}, as_tuple={case['as_tuple']}) on {case['dialect']}: {value!r} -> bind {bound!r} -> result {got!r}", observed=repr(got), expected=repr(want))
        return
    if k == "enum":
        names = case["names"]
        if case["mode"] == "str":
            typ = sa.Enum(*names, name="e_t", native_enum=case["native"])
            value = names[case["value"]]
            stored = value
        else:
            E = enum.Enum("E", {f"m{i}": n for i, n in enumerate(names)})
            kw = {}
            if case["mode"] == "pyenum_values":
                kw["values_callable"] = lambda x: [str(e.value) for e in x]
            typ = sa.Enum(E, native_enum=case["native"], **kw)
            value = list(E)[case["value"]]
            stored = str(value.value) if case["mode"] == "pyenum_values" else value.name
        bp, rp = _procs(typ, d)
        bound = bp(value)
        if bound != stored:
            raise Violation(sig + "/bind", f"Enum bind of {value!r} gave {bound!r}, persisted label should be {stored!r}", observed=repr(bound), expected=repr(stored))
        got = rp(bound)  # drivers return the label as str
        if got is not value and got != value:
            raise Violation(sig + "/result", f"Enum result of {bound!r} gave {got!r}", observed=repr(got), expected=repr(value))
        return
    if k == "interval_nn":
        dd, s, us = case["value"]
        value = dt.timedelta(days=dd, seconds=s, microseconds=us)
        typ = sa.Interval(native=False)
        bp, rp = _procs(typ, d)
        bound = bp(value)
        if not isinstance(bound, dt.datetime):
            # MSSQL legacy date handling etc. may coerce; model only datetime-returning impls
            ctx.info("interval_nn bound non-datetime")
            return
        got = rp(bound)
        if got != value:
            raise Violation(sig + "/value", f"Interval(native=False) on {case['dialect']}: {value!r} -> {bound!r} -> {got!r}", observed=repr(got), expected=repr(value))
        return
    if k == "uuid_nn":
        u = uuid.UUID(hex=case["value"])
        value = u if case["as_uuid"] else str(u)
        typ = sa.Uuid(as_uuid=case["as_uuid"], native_uuid=False)
        bp, rp = _procs(typ, d)
        bound = bp(value)
        if bound != u.hex:
            raise Violation(sig + "/bind", f"Uuid(native_uuid=False) bound {value!r} as {bound!r}; documented storage is CHAR(32) hex", observed=repr(bound), expected=u.hex)
        got = rp(bound)
        if got != value or type(got) is not type(value):
            raise Violation(sig + "/result", f"Uuid result {got!r} for {value!r}", observed=repr(got), expected=repr(value))
        return
    if k == "pickle":
        typ = sa.PickleType()
        bp, rp = _procs(typ, d)
        bound = bp(case["value"])
        if case["value"] is None:
            if bound is not None:
                raise Violation(sig + "/none", f"PickleType bound None as {bound!r}", observed=repr(bound))
            return
        # driver model: DBAPI Binary() wrappers carry the bytes unchanged and the driver returns bytes / memoryview
        if hasattr(bound, "adapted"):
            bound = bound.adapted
        if not isinstance(bound, (bytes, bytearray, memoryview)):
            ctx.info("pickle bound via opaque driver wrapper " + type(bound).__name__)
            return
        got = rp(bytes(bound))
        if got != case["value"]:
            raise Violation(sig + "/value", f"PickleType {case['value']!r} -> {got!r}", observed=repr(got), expected=repr(case["value"]))
        return
    if k == "bool_nn":
        typ = sa.Boolean()
        bp, rp = _procs(typ, d)
        bound = bp(case["value"])
        if d.supports_native_boolean:
            model = bound
        else:
            if bound not in (0, 1) or isinstance(bound, bool) and False:
                raise Violation(sig + "/bind", f"non-native Boolean bound {case['value']!r} as {bound!r}", observed=repr(bound))
            model = int(bound)
        got = rp(model)
        if got is not case["value"]:
            raise Violation(sig + "/result", f"Boolean on {case['dialect']}: {case['value']!r} -> {bound!r} -> {got!r}", observed=repr(got), expected=repr(case["value"]))
        return
    if k == "mysql_time":
        s, us = case["value"]
        value = dt.time(s // 3600, s // 60 % 60, s % 60, us)
        typ = mysql.TIME(fsp=6)
        bp, rp = _procs(typ, d)
        bound = bp(value)
        # driver model: MySQL drivers accept datetime.time and return datetime.timedelta for TIME columns
        if bound != value:
            raise Violation(sig + "/bind", f"mysql TIME bound {value!r} as {bound!r}", observed=repr(bound))
        got = rp(dt.timedelta(seconds=s, microseconds=us))
        if got != value:
            raise Violation(sig + "/result", f"mysql TIME result of timedelta({s}s,{us}us) is {got!r}, expected {value!r}", observed=repr(got), expected=repr(value))
        return
    if k == "numeric_str":
        value = decimal.Decimal(case["value"]).scaleb(-case["s"])
        typ = sa.Numeric(case["p"], case["s"])
        # cursor.description type_code as the PG drivers report it: 1700 NUMERIC (Decimal), 701 FLOAT8 (float)
        coltype = (1700 if case["driver_returns"] == "decimal" else 701) if d.name == "postgresql" else None
        bp, rp = _procs(typ, d, coltype)
        bound = bp(value)
        if d.supports_native_decimal:
            if bound != value:
                raise Violation(sig + "/bind", f"Numeric bound {value!r} as {bound!r} on native-decimal dialect", observed=repr(bound))
            if case["driver_returns"] == "decimal":
                got = rp(value)
            elif case["p"] <= 15 and d.name == "postgresql":
                # only the PG drivers document a float-returning column class (FLOAT8, type_code 701) for a Numeric
                got = rp(float(value))
            else:
                return
        else:
            if case["p"] > 15:
                return
            got = rp(bound)
        if got != value or not isinstance(got, decimal.Decimal):
            raise Violation(sig + "/result", f"Numeric({case['p']},{case['s']}) on {case['dialect']}: {value!r} -> {bound!r} -> {got!r}", observed=repr(got), expected=repr(value))
        return
    if k == "json_text":
        typ = sa.JSON(none_as_null=case["none_as_null"])
        impl = typ.dialect_impl(d)
        bp = impl.bind_processor(d)
        rp = impl.result_processor(d, None)
        if bp is None or rp is None:
            ctx.info("json handled natively by driver")
            return
        bound = bp(case["value"])
        if case["value"] is None and case["none_as_null"]:
            if bound is not None:
                raise Violation(sig + "/none_as_null", f"none_as_null=True bound None as {bound!r}", observed=repr(bound))
            return
        if not isinstance(bound, (str, bytes)):
            ctx.info("json bound non-text")
            return
        got = rp(bound)
        if got != case["value"]:
            raise Violation(sig + "/value", f"JSON on {case['dialect']}: {case['value']!r} -> {bound!r} -> {got!r}", observed=repr(got), expected=repr(case["value"]))
        return
    if k == "date_generic":
        dd, s, us = case["value"]
        value = dt.datetime.combine(dt.date.fromordinal(dd), dt.time(s // 3600, s // 60 % 60, s % 60, us))
        for typ, v in ((sa.DateTime(), value), (sa.Date(), value.date()), (sa.Time(), value.time())):
            if d.name in ("mysql", "mariadb") and isinstance(typ, sa.Time):
                continue  # MySQL drivers return timedelta for TIME: sub-case mysql_time
            bp, rp = _procs(typ, d)
            bound = bp(v)
            if type(bound) is not type(v):
                ctx.info("date_generic bound converted type")
                continue
            got = rp(bound)
            if got != v:
                raise Violation(sig + "/value", f"{typ!r} on {case['dialect']}: {v!r} -> {bound!r} -> {got!r}", observed=repr(got), expected=repr(v))
        return
    raise AssertionError(k)


# ---------------------------------------------------------------------------------------
# sub-check 4: CursorResult.inserted_primary_key on the cursor.lastrowid path
# ---------------------------------------------------------------------------------------
# (values(id=None) is not generated: on the unchanged tree it reports (None,) although the database generates a key; undocumented either way)
PK_MODES = ["gen", "values", "param", "none", "orm_gen", "orm_explicit", "param", "values"]

lastrowid_cases = st.fixed_dictionaries(
    {
        "ops": st.lists(st.tuples(st.sampled_from(PK_MODES), st.integers(-50, 5000)).map(list), min_size=1, max_size=6),
        "composite": st.booleans(),
        "table_implicit_returning": st.sampled_from([True, False, False]),
        "envelope": st.sampled_from(["offset", "prefix"]),
    }
)


def check_lastrowid(case, ctx):
    """single-row INSERTs whose new primary key is fetched with cursor.lastrowid (SQLite's default for one row; also forced with
    Table(implicit_returning=False)); the autoincrement integer PK is typed with a counting non-idempotent TypeDecorator.
    inserted_primary_key / inserted_primary_key_rows: result processing is applied exactly once to a database generated
    lastrowid and never to a value the caller supplied (values(), execution parameter, ORM attribute)"""
    import sqlalchemy as sa
    from sqlalchemy.orm import Session, registry
    from vf.sautil import mem_engine

    counters = {"bind": 0, "result": 0}
    prefix = case["envelope"] == "prefix"

    class PK(sa.TypeDecorator):
        impl = sa.Integer
        cache_ok = True

        def process_bind_param(self, value, dialect):
            if value is None:
                return None
            counters["bind"] += 1
            return int(value[4:]) if prefix else value - 1000

        def process_result_value(self, value, dialect):
            if value is None:
                return None
            counters["result"] += 1
            if prefix:
                return ("UNDERFLOW", value) if not isinstance(value, int) else "INT_%d" % value
            return value + 1000

    def py(raw):  # python-domain value of a raw database integer
        return "INT_%d" % raw if prefix else raw + 1000

    composite = case["composite"]
    md = sa.MetaData()
    kw = {} if case["table_implicit_returning"] else {"implicit_returning": False}
    if composite:
        # only `id` is the autoincrement column; SQLite cannot generate it in a composite key, so it is always supplied there
        t = sa.Table("tpk", md, sa.Column("id", PK, primary_key=True, autoincrement=True), sa.Column("k", PK, primary_key=True, autoincrement=False), sa.Column("data", sa.String(20)), **kw)
    else:
        t = sa.Table("tpk", md, sa.Column("id", PK, primary_key=True), sa.Column("data", sa.String(20)), **kw)
    eng = mem_engine()
    reg = registry()

    class Thing:
        pass

    reg.map_imperatively(Thing, t)
    modes = []
    fail = None
    try:
        if composite:
            # SQLite's DDL compiler rejects autoincrement=True inside a composite key; the table is created by hand while the
            # Table object keeps `id` as its autoincrement column (what a reflected / other-backend table looks like)
            with eng.begin() as conn:
                conn.exec_driver_sql("CREATE TABLE tpk (id INTEGER NOT NULL, k INTEGER NOT NULL, data VARCHAR(20), PRIMARY KEY (id, k))")
        else:
            md.create_all(eng)
        used_raw = set()
        max_raw = 0
        expected_ids = []
        for step, (mode, x) in enumerate(case["ops"]):
            if composite and mode in ("gen", "none", "values_none", "orm_gen"):
                mode = {"gen": "values", "none": "param", "values_none": "values", "orm_gen": "orm_explicit"}[mode]
            raw = abs(x) + 1
            while raw in used_raw:
                raw += 1
            supplied = mode in ("values", "param", "orm_explicit")
            if not supplied:
                raw = max_raw + 1  # SQLite rowid of an INTEGER PRIMARY KEY without AUTOINCREMENT: max(rowid) + 1
            used_raw.add(raw)
            max_raw = max(max_raw, raw)
            X = py(raw)
            kval = py(7 + step)
            modes.append(("composite-" if composite else "") + mode)
            b0, r0 = counters["bind"], counters["result"]
            if mode.startswith("orm"):
                with Session(eng) as s:
                    o = Thing()
                    o.data = f"d{step}"
                    if supplied:
                        o.id = X
                    if composite:
                        o.k = kval
                    s.add(o)
                    s.flush()
                    got_pk = (o.id, o.k) if composite else (o.id,)
                    got_rows = None
                    s.commit()
            else:
                with eng.begin() as conn:
                    if mode == "gen":
                        r = conn.execute(t.insert().values(data=f"d{step}"))
                    elif mode == "values":
                        vals = {"id": X, "data": f"d{step}"}
                        if composite:
                            vals["k"] = kval
                        r = conn.execute(t.insert().values(**vals))
                    elif mode == "param":
                        params = {"id": X, "data": f"d{step}"}
                        if composite:
                            params["k"] = kval
                        r = conn.execute(t.insert(), params)
                    elif mode == "none":
                        r = conn.execute(t.insert(), {"id": None, "data": f"d{step}"})
                    else:
                        r = conn.execute(t.insert().values(id=None, data=f"d{step}"))
                    got_pk = tuple(r.inserted_primary_key)
                    got_rows = [tuple(x_) for x_ in r.inserted_primary_key_rows]
            want_pk = (X, kval) if composite else (X,)
            expected_ids.append(X)
            binds, results = counters["bind"] - b0, counters["result"] - r0
            want_binds = (2 if composite else 1) if supplied else 0
            # the lastrowid processor may run on the raw lastrowid even when the caller's value is then preferred (harmless);
            # what counts is the reported value; for a generated key it must have run exactly once
            if got_pk != want_pk and fail is None:
                how = "caller-supplied" if supplied else "generated"
                fail = Violation(
                    f"C09/lastrowid/{how}-pk-{'reprocessed' if supplied else 'wrong'}",
                    f"step {step} mode={mode} composite={composite}: inserted_primary_key {got_pk!r}, expected {want_pk!r} (raw {raw}); processors ran bind={binds} result={results}",
                    observed=repr(got_pk),
                    expected=repr(want_pk),
                )
            elif got_rows is not None and got_rows != [want_pk] and fail is None:
                fail = Violation("C09/lastrowid/inserted_primary_key_rows", f"step {step} mode={mode}: inserted_primary_key_rows {got_rows!r}, expected {[want_pk]!r}", observed=repr(got_rows), expected=repr([want_pk]))
            elif binds != want_binds and not mode.startswith("orm") and fail is None:
                fail = Violation("C09/lastrowid/bind-count", f"step {step} mode={mode}: bind processor ran {binds}x, expected {want_binds}", observed=binds, expected=want_binds)
            elif not supplied and results != 1 and not mode.startswith("orm") and fail is None:
                fail = Violation("C09/lastrowid/result-count", f"step {step} mode={mode}: result processor ran {results}x on the generated lastrowid, expected 1", observed=results, expected=1)
            if fail is not None:
                break
            # the reported key must locate the row
            with eng.connect() as conn:
                found = conn.execute(sa.select(t.c.data).where(t.c.id == got_pk[0])).scalar()
            if found != f"d{step}":
                fail = Violation("C09/lastrowid/reported-pk-does-not-locate-row", f"step {step} mode={mode}: row looked up by reported pk {got_pk!r} -> {found!r}", observed=repr(found), expected=f"d{step}")
                break
        if fail is None:
            with eng.connect() as conn:
                back = [r_[0] for r_ in conn.execute(sa.select(t.c.id).order_by(t.c.data))]
                raw_back = [r_[0] for r_ in conn.exec_driver_sql("select id from tpk order by data")]
            if back != expected_ids:
                fail = Violation("C09/lastrowid/select-back", f"ids selected back {back!r}, expected {expected_ids!r} (raw {raw_back!r})", observed=repr(back), expected=repr(expected_ids))
    finally:
        reg.dispose()
        eng.dispose()
    ctx.note(case, True, classes=["pk=" + m for m in sorted(set(modes))] + ["implicit_returning=" + str(case["table_implicit_returning"]), "envelope=" + case["envelope"], "composite" if composite else "single"])
    if fail is not None:
        raise fail


def subs(tier):
    return [
        Generated("roundtrip", check_roundtrip, strategy=roundtrip_cases(), quick=7000, thorough=200000),
        Generated("once", check_once, strategy=once_cases(), quick=6000, thorough=160000),
        Generated("procs", check_procs, strategy=proc_cases(), quick=4000, thorough=100000),
        Generated("lastrowid", check_lastrowid, strategy=lastrowid_cases, quick=2500, thorough=60000),
    ]
