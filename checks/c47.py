"""C47 - with autoflush on, queries see all pending changes.

Twin run.  The same initial rows and the same SQL-free history of pending
changes are applied in three sessions on three separate databases:

    auto     autoflush=True,  probe
    flushed  autoflush=False, session.flush(), probe        (the specification)
    control  autoflush=False, probe                         (must be able to differ)

The probe result, the database as seen through the session's connection right
after the probe, the new/dirty/deleted emptiness and the committed rows must be
equal between *auto* and *flushed*.  *control* is the vacuity guard: the case
is non-trivial only if control observes something else than auto.
"""
from __future__ import annotations

from hypothesis import strategies as st

from vf.api import Generated, HarnessError, Violation
from vf.sautil import Capture

from . import _orm_sess as F

PROPERTY = "C47"
LEVEL = "exploration"
RULE = (
    "initial rows (0-2 owners, 1-3 parents, 0-4 children, 0-3 grandchildren, 0-3 tags + links) with a drawn subset of collections left unloaded; "
    "history of 1-10 pending changes that emits no SQL (add Parent/Child/Grandchild/Tag, set scalar, delete, re-parent via many-to-one or via a loaded "
    "collection, tag add/remove, owner change); one probe: ORM select (filter / by-FK / join / count / aggregate), select of ORM-mapped columns, legacy Query, "
    "Session.get of absent/present identity, lazy load of an unloaded collection, refresh of an untouched object, bulk ORM UPDATE, Query.count, and the query-form dimension "
    "{Session.execute, scalars, scalar} x {ORM entity, Core Table, text()} x {count(*), id list} and legacy Query x {ORM entity, ORM column, Core table, Core column, "
    "func over Core column, Core table .count()} on the table a pending change is about. "
    "Non-trivial: the control session (no autoflush, no flush) observes a different probe result or post-probe database than the autoflush session. "
    "Sub-check inherit_attr: a joined-inheritance object with column_property attributes on base and sub table (length of a column, correlated count), loaded by get / through the "
    "base class / with attributes expired by name, 0-3 pending changes (own columns, related rows added / deleted), then 1-3 attribute reads: autoflush run vs the same program with "
    "flush() before the reads, compared on the reads that emit a load; non-trivial = a sub-table read-only attribute is loaded while a change is pending; "
    "distinct = canonical JSON of the case"
)
ASSUMPTIONS = [
    "the history itself emits no SQL in any of the three sessions (checked with a cursor-level capture; harness error otherwise), so the only flush before the probe is the one under test",
    "Session.get of a *present* identity and refresh/lazy-load subjects are restricted to objects that are not pending-deleted; refresh subjects additionally have no pending change of their own "
    "(refresh expires its subject before autoflushing - documented order - so 'as if flushed first' does not apply to the subject's own changes)",
    "lazy loads are probed on persistent objects only (lazy loads from pending objects do not autoflush by design)",
    "Core (Table / Column only) and text() statements sent through Session.execute / scalars / scalar are probed as well: the Session autoflushes for them too (issue #9809; "
    "session.py 'unconditionally autoflush for Core statements'), although session_basics.rst only lists ORM-enabled constructs",
    "the explicit-flush twin is the specification; a defect common to flush() itself is out of scope here (C30/C36)",
]

KINDS = ["owner", "parent", "child", "grandchild", "tag"]
COLATTRS = {"owner": ["id", "name"], "parent": ["id", "name", "x", "y", "owner_id"], "child": ["id", "parent_id", "name", "x"],
            "grandchild": ["id", "child_id", "x"], "tag": ["id", "name"]}
NAMES = ["a", "b", "c"]


def _initial(case):
    n_o, n_p = case["n_o"], case["n_p"]
    owners = [dict(id=i + 1, name=NAMES[i % 3]) for i in range(n_o)]
    parents = [dict(id=i + 1, name=NAMES[p[0] % 3], x=p[1], y=p[2], owner_id=(None if p[3] is None or not n_o else p[3] % n_o + 1)) for i, p in enumerate(case["parents"])]
    children = [dict(id=i + 1, parent_id=(None if c[0] is None else c[0] % n_p + 1), name=NAMES[c[1] % 3], x=c[2]) for i, c in enumerate(case["children"])]
    n_c = len(children)
    grands = [dict(id=i + 1, child_id=(None if g[0] is None or not n_c else g[0] % n_c + 1), x=g[1]) for i, g in enumerate(case["grands"])]
    tags = [dict(id=i + 1, name=NAMES[i % 3]) for i in range(case["n_t"])]
    links = sorted({(l[0] % n_p + 1, l[1] % case["n_t"] + 1) for l in case["links"]}) if case["n_t"] else []
    return owners, parents, children, grands, tags, links


class _World:
    """one session + the harness' handle on its objects"""

    def __init__(self, ctx, fam, case, autoflush):
        from sqlalchemy import select
        from sqlalchemy.orm import Session

        self.fam = fam
        self.eng = F.new_db(ctx, fam)
        rc = F.raw(self.eng)
        owners, parents, children, grands, tags, links = _initial(case)
        F.raw_insert(rc, "owner", owners)
        F.raw_insert(rc, "parent", parents)
        F.raw_insert(rc, "child", children)
        F.raw_insert(rc, "grandchild", grands)
        F.raw_insert(rc, "tag", tags)
        F.raw_insert(rc, "parent_tag", [dict(parent_id=a, tag_id=b) for a, b in links])
        rc.close()
        self.sess = Session(self.eng, autoflush=autoflush, expire_on_commit=False)
        s = self.sess
        self.objs = {k: list(s.scalars(select(fam.classes[k]).order_by(fam.classes[k].id))) for k in KINDS}
        # many-to-one sides: always loaded (targets are in the identity map: no SQL)
        for c in self.objs["child"]:
            c.parent
        for g in self.objs["grandchild"]:
            g.child
        for p in self.objs["parent"]:
            p.owner
        # collections: loaded for the drawn subset only
        self.unloaded = []  # (kind, index, relname)
        m = case["loadmask"]
        bit = 0
        for kind, rel in (("parent", "children"), ("parent", "tags"), ("child", "grandchildren"), ("owner", "parents")):
            for i, o in enumerate(self.objs[kind]):
                if m >> (bit % 16) & 1:
                    getattr(o, rel)
                else:
                    self.unloaded.append((kind, i, rel))
                bit += 1
        self.n_initial = {k: len(v) for k, v in self.objs.items()}
        self.deleted = set()  # (kind, index)
        self.touched = set()  # (kind, index) objects with pending changes of their own (incl. backref side)
        self.new = set()
        self.effects = []  # what the effective history steps changed: ["obj", kind, i] | ["rel", kind, i, relname] | ["m2m"]
        self.next_id = {k: len(v) + 1 for k, v in self.objs.items()}

    def is_loaded(self, kind, i, rel):
        return (kind, i) in self.new or (kind, i, rel) not in self.unloaded

    def live(self, kind, i):
        return (kind, i) not in self.deleted

    def close(self):
        self.sess.close()
        F.drop_db(self.eng)


def _apply_history(w: _World, ops, classes):
    """apply the pending-change program; identical decisions in every world because they depend only on harness bookkeeping"""
    fam, s, objs = w.fam, w.sess, w.objs
    for op in ops:
        k = op[0]
        if k == "newp":
            o = fam.Parent(id=w.next_id["parent"], name=NAMES[op[1] % 3], x=op[2], y=op[3])
            w.next_id["parent"] += 1
            objs["parent"].append(o)
            w.new.add(("parent", len(objs["parent"]) - 1))
            s.add(o)
            w.effects.append(["obj", "parent", len(objs["parent"]) - 1])
            classes.add("add")
        elif k == "newc":
            o = fam.Child(id=w.next_id["child"], name=NAMES[op[1] % 3], x=op[2])
            w.next_id["child"] += 1
            objs["child"].append(o)
            ci = len(objs["child"]) - 1
            w.new.add(("child", ci))
            s.add(o)
            if op[3] is not None:
                pi = op[3] % len(objs["parent"])
                if w.live("parent", pi):
                    o.parent = objs["parent"][pi]
                    w.touched.add(("parent", pi))
                    w.effects.append(["rel", "parent", pi, "children"])
            w.effects.append(["obj", "child", ci])
            classes.add("add")
        elif k == "newg":
            o = fam.Grandchild(id=w.next_id["grandchild"], x=op[1])
            w.next_id["grandchild"] += 1
            objs["grandchild"].append(o)
            w.new.add(("grandchild", len(objs["grandchild"]) - 1))
            s.add(o)
            if op[2] is not None and objs["child"]:
                ci = op[2] % len(objs["child"])
                if w.live("child", ci):
                    o.child = objs["child"][ci]
                    w.touched.add(("child", ci))
                    w.effects.append(["rel", "child", ci, "grandchildren"])
            w.effects.append(["obj", "grandchild", len(objs["grandchild"]) - 1])
            classes.add("add")
        elif k == "newt":
            o = fam.Tag(id=w.next_id["tag"], name=NAMES[op[1] % 3])
            w.next_id["tag"] += 1
            objs["tag"].append(o)
            w.new.add(("tag", len(objs["tag"]) - 1))
            s.add(o)
            w.effects.append(["obj", "tag", len(objs["tag"]) - 1])
            classes.add("add")
        elif k == "set":
            kind = ["parent", "child", "grandchild"][op[1] % 3]
            if not objs[kind]:
                continue
            i = op[2] % len(objs[kind])
            if not w.live(kind, i):
                continue
            attr = {"parent": ["x", "y", "name"], "child": ["x", "name", "x"], "grandchild": ["x", "x", "x"]}[kind][op[3] % 3]
            setattr(objs[kind][i], attr, NAMES[op[4] % 3] if attr == "name" else op[4])
            w.touched.add((kind, i))
            w.effects.append(["obj", kind, i])
            classes.add("modify")
        elif k == "del":
            kind = ["parent", "child", "grandchild", "tag", "owner"][op[1] % 5]
            if not objs[kind]:
                continue
            i = op[2] % len(objs[kind])
            if (kind, i) in w.new or not w.live(kind, i):
                continue
            # session.delete() walks delete cascades only; default cascades: none of the collections is loaded for that
            s.delete(objs[kind][i])
            w.deleted.add((kind, i))
            w.touched.add((kind, i))
            w.effects.append(["obj", kind, i])
            classes.add("delete")
        elif k == "move":
            if not objs["child"]:
                continue
            ci = op[1] % len(objs["child"])
            if not w.live("child", ci):
                continue
            c = objs["child"][ci]
            if op[2] is None:
                c.parent = None
            else:
                pi = op[2] % len(objs["parent"])
                if not w.live("parent", pi):
                    continue
                c.parent = objs["parent"][pi]
                w.touched.add(("parent", pi))
                w.effects.append(["rel", "parent", pi, "children"])
            w.effects.append(["obj", "child", ci])
            w.touched.add(("child", ci))
            for pi2 in range(len(objs["parent"])):
                w.touched.add(("parent", pi2))  # the old parent (whichever it was) is touched through the backref
            classes.add("reparent-m2o")
        elif k == "append":
            if not objs["child"]:
                continue
            pi, ci = op[1] % len(objs["parent"]), op[2] % len(objs["child"])
            if not (w.live("parent", pi) and w.live("child", ci)):
                continue
            p, c = objs["parent"][pi], objs["child"][ci]
            if w.is_loaded("parent", pi, "children"):
                if c in p.children:
                    continue
                p.children.append(c)
                classes.add("reparent-collection")
            else:
                c.parent = p
                classes.add("reparent-m2o")
            w.effects.append(["obj", "child", ci])
            w.effects.append(["rel", "parent", pi, "children"])
            w.touched.add(("child", ci))
            for pi2 in range(len(objs["parent"])):
                w.touched.add(("parent", pi2))
        elif k == "remove":
            pi = op[1] % len(objs["parent"])
            if not w.live("parent", pi) or not w.is_loaded("parent", pi, "children"):
                continue
            p = objs["parent"][pi]
            if not p.children:
                continue
            c = p.children[op[2] % len(p.children)]
            p.children.remove(c)
            w.touched.add(("parent", pi))
            w.touched.add(("child", objs["child"].index(c)))
            w.effects.append(["obj", "child", objs["child"].index(c)])
            classes.add("collection-remove")
        elif k == "tag":
            if not objs["tag"]:
                continue
            pi, ti = op[1] % len(objs["parent"]), op[2] % len(objs["tag"])
            if not (w.live("parent", pi) and w.live("tag", ti)) or not w.is_loaded("parent", pi, "tags"):
                continue
            p, t = objs["parent"][pi], objs["tag"][ti]
            if t in p.tags:
                p.tags.remove(t)
            else:
                p.tags.append(t)
            w.touched.add(("parent", pi))
            w.effects.append(["m2m"])
            classes.add("m2m-change")
        elif k == "own":
            pi = op[1] % len(objs["parent"])
            if not w.live("parent", pi):
                continue
            if op[2] is None or not objs["owner"]:
                objs["parent"][pi].owner = None
            else:
                oi = op[2] % len(objs["owner"])
                if not w.live("owner", oi):
                    continue
                objs["parent"][pi].owner = objs["owner"][oi]
                w.effects.append(["rel", "owner", oi, "parents"])
            w.effects.append(["obj", "parent", pi])
            w.touched.add(("parent", pi))
            for oi2 in range(len(objs["owner"])):
                w.touched.add(("owner", oi2))
            classes.add("owner-change")
        elif k == "gmove":
            if not objs["grandchild"]:
                continue
            gi = op[1] % len(objs["grandchild"])
            if not w.live("grandchild", gi):
                continue
            if op[2] is None or not objs["child"]:
                objs["grandchild"][gi].child = None
            else:
                ci = op[2] % len(objs["child"])
                if not w.live("child", ci):
                    continue
                objs["grandchild"][gi].child = objs["child"][ci]
                w.effects.append(["rel", "child", ci, "grandchildren"])
            w.effects.append(["obj", "grandchild", gi])
            w.touched.add(("grandchild", gi))
            for ci2 in range(len(objs["child"])):
                w.touched.add(("child", ci2))
            classes.add("reparent-m2o")
        else:
            raise AssertionError(op)


def _ent(o):
    if o is None:
        return None
    kind = type(o).__name__.lower()
    return [kind] + [getattr(o, a) for a in COLATTRS[kind]]


def _run_probe(w: _World, probe, classes):
    """returns a JSON-able canonical result"""
    from sqlalchemy import func, select, text, update

    fam, s, objs = w.fam, w.sess, w.objs
    P, C, G, T, O = fam.Parent, fam.Child, fam.Grandchild, fam.Tag, fam.Owner
    k = probe[0]
    a, b = probe[1], probe[2]
    c = probe[3] if len(probe) > 3 else 0  # query form x statement kind x shape (probe "form")
    form_kind = None
    forced_lazy = None
    if k == "target":
        # aim the probe at something the history changed (same decision in every world: it depends on harness bookkeeping only)
        if not w.effects:
            k = "sel_all"
        else:
            eff = w.effects[-1 - (a // 4) % min(len(w.effects), 3)]
            ki = {"parent": 0, "child": 1, "grandchild": 2, "tag": 3, "owner": 4}
            if eff[0] == "m2m":
                k = "m2m"
            elif eff[0] == "rel":
                if (eff[1], eff[2], eff[3]) in w.unloaded and w.live(eff[1], eff[2]) and (eff[1], eff[2]) not in w.new:
                    k, forced_lazy = "lazy", (eff[1], eff[2], eff[3])
                elif eff[3] == "children":
                    k, a = ["sel_c_fk", "agg", "sel_join"][a % 3], eff[2]
                    if k == "sel_c_fk":
                        a = w.objs["parent"][eff[2]].id - 1
                else:
                    k, a = "sel_all", ki[{"grandchildren": "grandchild", "parents": "parent"}[eff[3]]]
            else:
                kind, i = eff[1], eff[2]
                choice = a % 4
                if (a + c) % 3:
                    # two thirds of the aimed probes go through the query-form dimension on the affected table
                    k, form_kind = "form", kind
                elif choice == 3 and a % 8 == 3 and (kind, i) in w.new and kind != "owner":
                    k, a, b = "get", {"parent": 0, "child": 1, "tag": 2, "grandchild": 3}[kind], 1 + 3 * sorted(j for (kk, j) in w.new if kk == kind).index(i)
                elif choice == 1 and kind in ("parent", "child"):
                    k, a = "cols", 1 if kind == "parent" else 0
                elif choice == 2:
                    k, a = "count", ki[kind]
                else:
                    k, a = "sel_all", ki[kind]
    label = k

    def identities(ents):
        # every returned entity with a key the harness holds must be the harness' instance (single instance per identity)
        for e in ents:
            kind = type(e).__name__.lower()
            for h in objs[kind]:
                if h.__dict__.get("id") == e.__dict__.get("id") and h is not e and h in s:
                    raise Violation("C47/identity/second-instance", f"probe returned a second instance for {kind}#{e.id}")

    if k == "sel_p":
        cmp = [P.x == b, P.x >= b, P.y < b, P.name == NAMES[b % 3]][a % 4]
        r = s.scalars(select(P).where(cmp).order_by(P.id)).all()
        identities(r)
        out = [_ent(e) for e in r]
    elif k == "sel_c_fk":
        pid = a % (len(objs["parent"]) + 1) + 1
        r = s.scalars(select(C).where(C.parent_id == pid).order_by(C.id)).all()
        identities(r)
        out = [_ent(e) for e in r]
    elif k == "sel_join":
        r = s.scalars(select(P).join(P.children).where(C.x >= b % 3).distinct().order_by(P.id)).all()
        identities(r)
        out = [_ent(e) for e in r]
    elif k == "sel_all":
        cls = [P, C, G, T, O, C, P, C][a % 8]
        r = s.scalars(select(cls).order_by(cls.id)).all()
        identities(r)
        out = [_ent(e) for e in r]
    elif k == "count":
        cls = [P, C, G, T, O, C, P, C][a % 8]
        out = s.scalar(select(func.count()).select_from(cls))
    elif k == "qcount":
        cls = [P, C, G, T, O, C, P, C][a % 8]
        out = s.query(cls).count()
    elif k == "form":
        # {Session.execute, Session.scalars, Session.scalar} x {ORM entity, Core Table, text()} x {count(*), id list}
        kind = form_kind or ["parent", "child", "grandchild", "tag", "owner", "child", "parent", "child"][a % 8]
        cls = fam.classes[kind]
        tbl = cls.__table__
        how, stk = [("scalar", "core"), ("query", "core-column"), ("scalar", "text"), ("query", "core-func"), ("execute", "core"), ("query", "core-table"),
                    ("scalars", "text"), ("query", "core-table-count"), ("execute", "text"), ("scalars", "core"), ("query", "orm-column"),
                    ("scalar", "orm"), ("query", "orm-entity"), ("execute", "orm"), ("scalars", "orm")][c % 15]
        shape = ["count", "ids"][(c // 15) % 2]
        if how == "query":
            # legacy Query x {ORM entity, ORM column, Core table, Core column, SQL function over a Core column}
            shape = "query"
            if stk == "orm-entity":
                out = [e.id for e in s.query(cls).order_by(cls.id).all()]
            elif stk == "orm-column":
                out = [list(r) for r in s.query(cls.id).order_by(cls.id).all()]
            elif stk == "core-table":
                out = [list(r)[:1] for r in s.query(tbl).order_by(tbl.c.id).all()]
            elif stk == "core-table-count":
                out = s.query(tbl).filter(tbl.c.id > 0).count()
            elif stk == "core-column":
                out = [list(r) for r in s.query(tbl.c.id).order_by(tbl.c.id).all()]
            else:
                out = [list(r) for r in s.query(func.max(tbl.c.id), func.count(tbl.c.id)).all()]
        elif shape == "count":
            stmt = {"orm": select(func.count()).select_from(cls), "core": select(func.count()).select_from(tbl), "text": text(f"SELECT count(*) FROM {kind}")}[stk]
        else:
            stmt = {"orm": select(cls.id).order_by(cls.id), "core": select(tbl.c.id).order_by(tbl.c.id), "text": text(f"SELECT id FROM {kind} ORDER BY id")}[stk]
        if how == "query":
            pass
        elif how == "execute":
            out = [list(r) for r in s.execute(stmt)]
        elif how == "scalars":
            out = list(s.scalars(stmt))
        else:
            out = s.scalar(stmt)
        label = f"form-{how}-{stk}"
        classes.add(f"form-shape-{shape}")
    elif k == "agg":
        out = [list(r) for r in s.execute(select(C.parent_id, func.count(C.id), func.sum(C.x)).group_by(C.parent_id).order_by(C.parent_id))]
    elif k == "cols":
        if a % 2:
            out = [list(r) for r in s.execute(select(P.id, P.name, P.x, P.y, P.owner_id).order_by(P.id))]
        else:
            out = [list(r) for r in s.execute(select(C.id, C.parent_id, C.x).order_by(C.id))]
    elif k == "m2m":
        out = [list(r) for r in s.execute(select(P.id, T.id).join(P.tags).order_by(P.id, T.id))]
    elif k == "query":
        q = s.query(C).filter(C.x >= b % 3).order_by(C.id) if a % 2 else s.query(P).filter_by(x=b).order_by(P.id)
        r = q.all()
        identities(r)
        out = [_ent(e) for e in r]
    elif k == "get":
        kind = ["parent", "child", "tag", "grandchild"][a % 4]
        cls = fam.classes[kind]
        n = len(objs[kind])
        mode = b % 3
        if mode == 0 or not n:
            ident = w.next_id[kind] + 3  # absent everywhere
            label = "get-absent"
        elif mode == 1 and any((kind, i) in w.new for i in range(n)):
            i = [i for i in range(n) if (kind, i) in w.new][b // 3 % len([i for i in range(n) if (kind, i) in w.new])]
            ident = objs[kind][i].id  # pending: absent from the identity map until flushed
            label = "get-pending-new"
        else:
            cand = [i for i in range(n) if w.live(kind, i) and (kind, i) not in w.new]
            if not cand:
                ident = w.next_id[kind] + 3
                label = "get-absent"
            else:
                ident = objs[kind][cand[b // 3 % len(cand)]].id
                label = "get-present"
        got = s.get(cls, ident)
        if got is not None:
            identities([got])
        # identity-map hit: no SQL, no autoflush due -> only which identity came back is comparable
        out = _ent(got) if label != "get-present" else (None if got is None else [kind, got.id])
    elif k == "lazy":
        cand = [(kind, i, rel) for (kind, i, rel) in w.unloaded if w.live(kind, i)]
        if not cand:
            label = "lazy-none"
            out = s.scalar(select(func.count()).select_from(C))
        else:
            hot = [c_ for c_ in cand if ["rel", c_[0], c_[1], c_[2]] in w.effects]
            if hot and a % 4:
                cand = hot  # prefer a collection that a pending change is about
            kind, i, rel = forced_lazy or cand[a % len(cand)]
            label = "lazy-" + rel
            coll = getattr(objs[kind][i], rel)
            identities(coll)
            out = [kind, i, rel] + [_ent(e) for e in coll]
    elif k == "refresh":
        cand = [(kind, i) for kind in ("parent", "child", "grandchild", "tag") for i in range(w.n_initial[kind]) if (kind, i) not in w.touched and w.live(kind, i)]
        if not cand:
            label = "refresh-none"
            out = s.scalar(select(func.count()).select_from(P))
        else:
            kind, i = cand[a % len(cand)]
            s.refresh(objs[kind][i])
            out = _ent(objs[kind][i])
    elif k == "bulk_upd":
        sync = ["auto", "fetch", "evaluate"][a % 3]
        s.execute(update(P).where(P.x == b).values(y=7).execution_options(synchronize_session=sync))
        out = "bulk"
    else:
        raise AssertionError(probe)
    classes.add("probe-" + label)
    return out, label


def _state_snapshot(w: _World):
    """attribute values of every live harness-held object after the probe (no SQL: read from __dict__)"""
    out = []
    for kind in KINDS:
        for i, o in enumerate(w.objs[kind]):
            out.append([kind, i] + [o.__dict__.get(a, "<unloaded>") for a in COLATTRS[kind]])
    return out


def check(case, ctx):
    fam = F.family()
    classes = set()
    res = {}
    worlds = []
    try:
        for mode in ("auto", "flushed", "control"):
            w = _World(ctx, fam, case, autoflush=(mode == "auto"))
            worlds.append(w)
            cap = Capture(w.eng)
            cls_here = set()
            _apply_history(w, case["ops"], cls_here)
            classes |= cls_here
            if cap.rows:
                raise HarnessError(f"C47 history emitted SQL in mode {mode}: {cap.rows[:2]} case={case}")
            cap.close()
            if mode == "flushed":
                w.sess.flush()
            pc = set()
            out, label = _run_probe(w, case["probe"], pc)
            classes |= pc
            post = F.session_snapshot(w.sess)
            flags = [bool(w.sess.new), bool(w.sess.dirty), bool(w.sess.deleted)]
            objstate = _state_snapshot(w) if case["probe"][0] == "bulk_upd" else None
            final = None
            if mode != "control":
                w.sess.commit()
                rc = F.raw(w.eng)
                final = F.raw_snapshot(rc)
                rc.close()
            res[mode] = {"probe": out, "db_after_probe": post, "pending_flags": flags, "objects": objstate, "committed": final}
        a, b, c = res["auto"], res["flushed"], res["control"]
        pk = label.split("-")[0]
        probe_differs = a["probe"] != c["probe"]
        db_differs = a["db_after_probe"] != c["db_after_probe"]
        # the observable of refresh / bulk UPDATE is the database (and object state), for the others it is the returned result
        differs = probe_differs or (pk in ("refresh", "bulk_upd") and (db_differs or a["objects"] != c["objects"]))
        if differs:
            classes.add("control-differs")
        elif db_differs:
            classes.add("control-db-differs-only")
        else:
            classes.add("no-pending-effect")
        ctx.note(case, differs, classes=classes)
        parts = ("probe", "db_after_probe", "pending_flags", "objects", "committed")
        if label == "get-present":
            # an identity-map hit emits no SQL, hence no autoflush is due: only the result and the eventual commit are compared
            parts = ("probe", "committed")
        for part in parts:
            if a[part] != b[part]:
                raise Violation(
                    f"C47/{pk}/{part}",
                    f"autoflush run and explicit-flush run disagree on {part} for probe {case['probe']}: autoflush={a[part]!r} flushed-first={b[part]!r} (control without flush: {c[part]!r})",
                    observed=a[part], expected=b[part],
                )
    finally:
        for w in worlds:
            w.close()


_v = st.integers(0, 3)
_opt = lambda n: st.one_of(st.none(), st.integers(0, n))  # noqa: E731


@st.composite
def _cases(draw):
    n_p = draw(st.integers(1, 3))
    case = {
        "n_o": draw(st.integers(0, 2)),
        "n_p": n_p,
        "parents": [[draw(st.integers(0, 2)), draw(_v), draw(_v), draw(_opt(1))] for _ in range(n_p)],
        "children": [[draw(_opt(2)), draw(st.integers(0, 2)), draw(_v)] for _ in range(draw(st.integers(0, 4)))],
        "grands": [[draw(_opt(3)), draw(_v)] for _ in range(draw(st.integers(0, 3)))],
        "n_t": draw(st.integers(0, 3)),
        "links": [[draw(st.integers(0, 2)), draw(st.integers(0, 2))] for _ in range(draw(st.integers(0, 3)))],
        "loadmask": draw(st.integers(0, 2**16 - 1)),
    }
    ops = []
    for _ in range(draw(st.integers(1, 10))):
        k = draw(st.sampled_from(["newp", "newc", "newc", "newg", "newt", "set", "set", "set", "del", "del", "move", "move", "append", "append", "remove", "tag", "tag", "own", "gmove"]))
        if k == "newp":
            ops.append([k, draw(st.integers(0, 2)), draw(_v), draw(_v)])
        elif k == "newc":
            ops.append([k, draw(st.integers(0, 2)), draw(_v), draw(_opt(3))])
        elif k == "newg":
            ops.append([k, draw(_v), draw(_opt(4))])
        elif k == "newt":
            ops.append([k, draw(st.integers(0, 2))])
        elif k == "set":
            ops.append([k, draw(st.integers(0, 2)), draw(st.integers(0, 5)), draw(st.integers(0, 2)), draw(_v)])
        elif k == "del":
            ops.append([k, draw(st.integers(0, 4)), draw(st.integers(0, 5))])
        elif k in ("move", "own", "gmove"):
            ops.append([k, draw(st.integers(0, 5)), draw(_opt(4))])
        else:
            ops.append([k, draw(st.integers(0, 5)), draw(st.integers(0, 5))])
    case["ops"] = ops
    pk = draw(st.sampled_from(["target"] * 14 + ["form"] * 6 + ["qcount", "sel_p", "sel_c_fk", "sel_join", "sel_all", "sel_all", "count", "count", "agg", "cols", "cols", "m2m", "query", "get", "get", "get", "lazy", "lazy", "lazy", "lazy", "lazy", "lazy", "lazy", "lazy", "refresh", "bulk_upd", "bulk_upd"]))
    case["probe"] = [pk, draw(st.integers(0, 11)), draw(_v), draw(st.sampled_from(list(range(30))))]
    return case

# --------------------------------------------------------------------------- attribute loads on a joined-inheritance subclass
_INH = {}


def _inh_family():
    if not _INH:
        from sqlalchemy import Column, ForeignKey, Integer, String, func, select
        from sqlalchemy.orm import column_property, declarative_base

        Base = declarative_base()

        class IPerson(Base):
            __tablename__ = "iperson"
            id = Column(Integer, primary_key=True)
            type = Column(String(20))
            name = Column(String(50))
            name_len = column_property(func.length(name))
            __mapper_args__ = {"polymorphic_on": type, "polymorphic_identity": "p"}

        class IEngineer(IPerson):
            __tablename__ = "iengineer"
            id = Column(Integer, ForeignKey("iperson.id"), primary_key=True)
            info = Column(String(50))
            info_len = column_property(func.length(info))
            __mapper_args__ = {"polymorphic_identity": "e"}

        class ITask(Base):
            __tablename__ = "itask"
            id = Column(Integer, primary_key=True)
            engineer_id = Column(Integer, ForeignKey("iengineer.id"))

        IEngineer.task_count = column_property(
            select(func.count(ITask.id)).where(ITask.engineer_id == IEngineer.__table__.c.id).correlate(IEngineer.__table__).scalar_subquery()
        )
        _INH.update(Base=Base, P=IPerson, E=IEngineer, T=ITask)
    return _INH


_INH_ATTRS = ["info_len", "task_count", "name_len", "info", "name"]


def _inh_run(case, flush_first):
    from sqlalchemy import select
    from sqlalchemy.orm import Session

    from vf.sautil import mem_engine

    fam = _inh_family()
    P, E, T = fam["P"], fam["E"], fam["T"]
    eng = mem_engine()
    fam["Base"].metadata.create_all(eng)
    try:
        with Session(eng) as s0:
            s0.add(E(id=1, name="ed", info="abc"))
            for i in range(case["tasks"]):
                s0.add(T(id=i + 1, engineer_id=1))
            s0.commit()
        out = []
        with Session(eng, autoflush=True) as s:
            obj = s.scalars(select(P)).one() if case["load"] == "base_query" else s.get(E, 1)
            if case["load"] == "get_touch":
                _ = [getattr(obj, a) for a in _INH_ATTRS]
            for ch in case["changes"]:
                if ch[0] == "info":
                    obj.info = "x" * ch[1]
                elif ch[0] == "name":
                    obj.name = "n" * ch[1]
                elif ch[0] == "add_task":
                    s.add(T(id=10 + ch[1], engineer_id=1))
                elif ch[0] == "del_task":
                    t = s.get(T, ch[1] % max(case["tasks"], 1) + 1) if case["tasks"] else None
                    if t is not None:
                        s.delete(t)
            names = [a for a in case["expire"] if a in ("info_len", "task_count", "name_len")]
            if names:
                s.expire(obj, names)
            if flush_first:
                s.flush()
            from sqlalchemy import inspect

            for a in case["read"]:
                was_unloaded = a in inspect(obj).unloaded
                out.append((a, getattr(obj, a), was_unloaded))
            out.append(("rows", s.connection().exec_driver_sql("select info from iengineer").fetchall(), s.connection().exec_driver_sql("select count(*) from itask").scalar()))
        return out
    finally:
        eng.dispose()


def check_inherit_attr(case, ctx):
    """autoflush run vs the same program with an explicit flush() in front of the reads: every attribute load - including the
    single-table 'optimized get' that refreshes sub-table attributes of a joined-inheritance object - must see the pending changes"""
    if not case.get("pinned") and len(case["read"]) > 1 and any(c[0] in ("info", "name") for c in case["changes"]):
        # known finding: an UPDATE of the object's own row expires its read-only column_property attributes; when that UPDATE is the
        # autoflush inside an attribute load, the load goes on with the attribute set chosen before the flush, and the other read-only
        # attributes are afterwards neither loaded nor expired: they read None without SQL.  Only the first (loading) read is generated.
        ctx.exclude("second read-only attribute read after an autoflush UPDATE inside an attribute load (known finding)")
        case = dict(case, read=case["read"][:1])
    auto = _inh_run(case, False)
    ref = _inh_run(case, True)
    sub_only = any(a in ("info_len", "task_count") for a in case["read"])
    pending = bool(case["changes"])
    ctx.note(case, sub_only and pending and (case["load"] == "base_query" or bool(case["expire"])), classes=["load=" + case["load"]] + sorted({c[0] for c in case["changes"]}) + ["read=" + a for a in case["read"]])
    # only a read that emits a load autoflushes: an attribute still loaded in the autoflush run keeps its value by design, and without
    # any load nothing is flushed either (the rows are then compared only from the first loading read on)
    loads = [i for i, e in enumerate(auto[:-1]) if e[2]]
    if not loads:
        return
    auto = [e[:2] for e in auto[loads[0]:-1] if e[2]] + [auto[-1]]
    keep = {e[0] for e in auto[:-1]}
    ref = [e[:2] for e in ref[loads[0]:-1] if e[0] in keep] + [ref[-1]]
    if auto != ref:
        bad = [a for a, b in zip(auto, ref) if a != b][0]
        if bad[0] in ("name_len", "info_len", "task_count") and bad[1] is None and bad is not auto[0]:
            raise Violation("C47/inherit_attr/readonly-attribute-lost-after-autoflush-in-load", f"{bad[0]} reads None without a load after the autoflush inside the "
                            f"sub-table attribute load: {auto} vs {ref} for {case}", observed=auto, expected=ref)
        raise Violation(f"C47/inherit_attr/{bad[0]}", f"autoflush run and explicit-flush run disagree: {auto} vs {ref} for {case}", observed=auto, expected=ref)


@st.composite
def _inh_cases(draw):
    ch = st.one_of(
        st.tuples(st.sampled_from(["info", "name"]), st.integers(0, 9)).map(list),
        st.tuples(st.sampled_from(["add_task", "del_task"]), st.integers(0, 3)).map(list),
    )
    return {
        "tasks": draw(st.integers(0, 2)),
        "load": draw(st.sampled_from(["get", "get_touch", "get_touch", "base_query", "base_query"])),
        "changes": draw(st.lists(ch, max_size=3, unique_by=lambda c: (c[0], c[1]))),
        "expire": draw(st.lists(st.sampled_from(["info_len", "task_count", "name_len"]), max_size=3, unique=True)),
        "read": draw(st.lists(st.sampled_from(_INH_ATTRS), min_size=1, max_size=3, unique=True)),
    }


def subs(tier):
    return [
        Generated("twin", check, strategy=_cases(), quick=1000, thorough=40000),
        Generated("inherit_attr", check_inherit_attr, strategy=_inh_cases(), quick=600, thorough=20000),
    ]
