"""Shared E-ORM universe for C40 / C41 (owner: ORM-query group).

One fixed mapped family, built once per process in a private ``registry()``:

    Parent -< Child -< Grandchild      one-to-many, collections ordered by PK
    Parent >-< Tag                     many-to-many through parent_tag
    Node -< Node                       self-referential (children / parent)

Data sets are JSON (``{"parent": [[id, name, x, note], ...], ...}``), inserted
with Core inserts into a fresh in-memory SQLite engine.  ``Model`` is the
harness-side relational reference (plain Python over the generated rows).

Abstract queries are JSON trees rendered three ways: ORM statement (code under
test), Core statement over the bare tables (C41 twin) and SQL text with inline
literals (C40 primary-row oracle).
"""
from __future__ import annotations

from hypothesis import strategies as st

from vf import sautil

# --------------------------------------------------------------------- schema
# table -> ordered column names (first is the PK)
COLS = {
    "parent": ["id", "name", "x", "note"],
    "child": ["id", "parent_id", "name", "x", "note"],
    "grandchild": ["id", "child_id", "name", "x"],
    "tag": ["id", "name"],
    "node": ["id", "parent_id", "name", "x"],
}
STR_COLS = {"name", "note"}
EMP_COLS = ["id", "type", "boss_id", "name", "x"]
# single-table hierarchy: class -> discriminator values of the class and its subclasses
EMP_DISC = {"Employee": None, "Engineer": ["eng"], "Manager": ["mgr", "boss"], "Boss": ["boss"]}
EMP_TYPE_CLS = {"emp": "Employee", "eng": "Engineer", "mgr": "Manager", "boss": "Boss"}
CLS_TABLE = {"Parent": "parent", "Child": "child", "Grandchild": "grandchild", "Tag": "tag", "Node": "node"}
TABLE_CLS = {v: k for k, v in CLS_TABLE.items()}
# columns deferred in the mapping (undefer / undefer_group have something to do)
DEFERRED = {"Parent": {"note": None}, "Child": {"note": "g"}}

# class -> relname -> (target class, uselist, kind, local col, remote col)
#   kind o2m: target.remote == self.id ; m2o: target.id == self.local ; m2m through parent_tag
# relationship order_by per collection (col, desc) lists; deliberately not the natural rowid order, NULLs sort
# lowest on SQLite (first ASC, last DESC)
REL_ORDER = {
    ("Parent", "children"): [("x", True), ("id", False)],
    ("Parent", "tags"): [("name", False), ("id", True)],
    ("Child", "grandchildren"): [("name", True), ("id", False)],
    ("Tag", "parents"): [("x", False), ("id", True)],
    ("Node", "children"): [("id", True)],
}

RELS = {
    "Parent": {
        "children": ("Child", True, "o2m", "id", "parent_id"),
        "tags": ("Tag", True, "m2m", "parent_id", "tag_id"),
    },
    "Child": {
        "parent": ("Parent", False, "m2o", "parent_id", "id"),
        "grandchildren": ("Grandchild", True, "o2m", "id", "child_id"),
    },
    "Grandchild": {"child": ("Child", False, "m2o", "child_id", "id")},
    "Tag": {"parents": ("Parent", True, "m2m", "tag_id", "parent_id")},
    "Node": {
        "children": ("Node", True, "o2m", "id", "parent_id"),
        "parent": ("Node", False, "m2o", "parent_id", "id"),
    },
}

_FAMILY = None


class Family:
    """the mapped classes + tables (immutable after construction)"""

    def __init__(self):
        from sqlalchemy import Column, ForeignKey, Integer, String, Table
        from sqlalchemy.orm import deferred, registry, relationship

        reg = registry()
        md = reg.metadata
        t = {}
        t["parent"] = Table("parent", md, Column("id", Integer, primary_key=True), Column("name", String), Column("x", Integer), Column("note", String))
        t["child"] = Table(
            "child", md, Column("id", Integer, primary_key=True), Column("parent_id", ForeignKey("parent.id")),
            Column("name", String), Column("x", Integer), Column("note", String),
        )
        t["grandchild"] = Table(
            "grandchild", md, Column("id", Integer, primary_key=True), Column("child_id", ForeignKey("child.id")),
            Column("name", String), Column("x", Integer),
        )
        t["tag"] = Table("tag", md, Column("id", Integer, primary_key=True), Column("name", String))
        t["parent_tag"] = Table(
            "parent_tag", md, Column("parent_id", ForeignKey("parent.id"), primary_key=True), Column("tag_id", ForeignKey("tag.id"), primary_key=True)
        )
        t["node"] = Table(
            "node", md, Column("id", Integer, primary_key=True), Column("parent_id", ForeignKey("node.id")), Column("name", String), Column("x", Integer)
        )

        # single-table inheritance hierarchy (used by C41 "sti" shapes only; not part of RELS / the C40 snapshot)
        t["employee"] = Table(
            "employee", md, Column("id", Integer, primary_key=True), Column("type", String, nullable=False),
            Column("boss_id", ForeignKey("employee.id")), Column("name", String), Column("x", Integer),
        )

        def _ob(cls, rel):
            tt = t[CLS_TABLE[RELS[cls][rel][0]]]
            return [tt.c[c].desc() if d else tt.c[c].asc() for c, d in REL_ORDER[(cls, rel)]]

        def mk(name):
            return type(name, (object,), {"__repr__": lambda self: f"<{name} {getattr(self, 'id', '?')}>"})

        Parent, Child, Grandchild, Tag, Node = (mk(n) for n in ("Parent", "Child", "Grandchild", "Tag", "Node"))
        reg.map_imperatively(
            Parent, t["parent"],
            properties={
                "note": deferred(t["parent"].c.note),
                "children": relationship(Child, back_populates="parent", order_by=_ob("Parent", "children")),
                "tags": relationship(Tag, secondary=t["parent_tag"], back_populates="parents", order_by=_ob("Parent", "tags")),
            },
        )
        reg.map_imperatively(
            Child, t["child"],
            properties={
                "note": deferred(t["child"].c.note, group="g"),
                "parent": relationship(Parent, back_populates="children"),
                "grandchildren": relationship(Grandchild, back_populates="child", order_by=_ob("Child", "grandchildren")),
            },
        )
        reg.map_imperatively(Grandchild, t["grandchild"], properties={"child": relationship(Child, back_populates="grandchildren")})
        reg.map_imperatively(
            Tag, t["tag"], properties={"parents": relationship(Parent, secondary=t["parent_tag"], back_populates="tags", order_by=_ob("Tag", "parents"))}
        )
        reg.map_imperatively(
            Node, t["node"],
            properties={
                "children": relationship(Node, back_populates="parent", order_by=_ob("Node", "children")),
                "parent": relationship(Node, back_populates="children", remote_side=[t["node"].c.id]),
            },
        )
        Employee, Engineer, Manager, Boss = mk("Employee"), None, None, None
        Engineer = type("Engineer", (Employee,), {})
        Manager = type("Manager", (Employee,), {})
        Boss = type("Boss", (Manager,), {})
        reg.map_imperatively(
            Employee, t["employee"], polymorphic_on=t["employee"].c.type, polymorphic_identity="emp",
            properties={"boss": relationship(Employee, remote_side=[t["employee"].c.id])},
        )
        reg.map_imperatively(Engineer, inherits=Employee, polymorphic_identity="eng")
        reg.map_imperatively(Manager, inherits=Employee, polymorphic_identity="mgr")
        reg.map_imperatively(Boss, inherits=Manager, polymorphic_identity="boss")
        reg.configure()
        self.registry = reg
        self.metadata = md
        self.tables = t
        self.classes = {"Parent": Parent, "Child": Child, "Grandchild": Grandchild, "Tag": Tag, "Node": Node,
                        "Employee": Employee, "Engineer": Engineer, "Manager": Manager, "Boss": Boss}


def family() -> Family:
    global _FAMILY
    if _FAMILY is None:
        _FAMILY = Family()
    return _FAMILY


# --------------------------------------------------------------------- data
NAMES = [None, "a", "b", "ab", "A", ""]
XS = [None, 0, 1, 2, -1]


_NV = len(NAMES)
_XV = len(XS)


def _vals(code, n_str, with_x=True):
    """decode one drawn integer into (name, x, [note]) values: one draw per row keeps generation cheap"""
    out = [NAMES[code % _NV]]
    code //= _NV
    if with_x:
        out.append(XS[code % _XV])
        code //= _XV
    if n_str > 1:
        out.append(NAMES[code % _NV])
    return out


@st.composite
def datasets(draw, max_parents=6, max_children=4, max_grand=3):
    """JSON data set; ``tot_c`` / ``tot_g`` / ``tot_t`` force every parent / child to have >=1 child /
    grandchild / tag, ``no_orphans`` removes NULL FKs (so that innerjoin=True is inside its documented
    domain on some relationships of some cases, independently per level)"""
    code = st.integers(0, _NV * _XV * _NV - 1)
    flags = draw(st.integers(0, 80))
    tot_c, tot_g, tot_t, no_orphans = (flags % 3 == 2), (flags // 3 % 3 == 2), (flags // 9 % 3 == 2), (flags // 27 % 3 == 2)
    # sizes are drawn with sampled_from in "interesting first" order (Hypothesis favours early elements / small integers)
    def size(lo, hi, pref):
        return st.sampled_from([v for v in pref if lo <= v <= hi] or [lo])

    np_ = draw(size(1 if tot_c else 0, max_parents, [3, 2, 4, 1, 5, 6, 0]))
    parents, children, grand = [], [], []
    for i in range(np_):
        name, x, note = _vals(draw(code), 2)
        parents.append([i + 1, name, x, note])
    counts = draw(st.lists(size(1 if tot_c else 0, max_children, [2, 1, 0, 3, 4]), min_size=np_, max_size=np_))
    for p, k in zip(parents, counts):
        for _ in range(k):
            name, x, note = _vals(draw(code), 2)
            children.append([len(children) + 1, p[0], name, x, note])
    if not no_orphans:
        for _ in range(draw(st.sampled_from([0, 1, 1, 2]))):  # orphans: NULL FK
            name, x, note = _vals(draw(code), 2)
            children.append([len(children) + 1, None, name, x, note])
    counts = draw(st.lists(size(1 if tot_g else 0, max_grand, [1, 2, 0, 3]), min_size=len(children), max_size=len(children)))
    for c, k in zip(children, counts):
        for _ in range(k):
            name, x = _vals(draw(code), 1)
            grand.append([len(grand) + 1, c[0], name, x])
    if not no_orphans:
        for _ in range(draw(st.sampled_from([0, 1, 1, 2]))):
            name, x = _vals(draw(code), 1)
            grand.append([len(grand) + 1, None, name, x])
    nt = draw(size(1 if tot_t else 0, 4, [2, 3, 1, 4, 0]))
    tags = [[i + 1, NAMES[draw(st.integers(0, _NV - 1))]] for i in range(nt)]
    pt = []
    if parents and tags:
        masks = draw(st.lists(st.integers(0, (1 << nt) - 1), min_size=np_, max_size=np_))
        for p, mask in zip(parents, masks):
            if tot_t and mask == 0:
                mask = 1 << (p[0] % nt)
            for j in range(nt):
                if mask >> j & 1:
                    pt.append([p[0], tags[j][0]])
    nn = draw(st.sampled_from([4, 3, 5, 2, 6, 7, 1, 0]))
    forest = draw(st.integers(0, 2)) != 2
    nodes = []
    for i in range(nn):
        nid = i + 1
        name, x = _vals(draw(code), 1)
        k = draw(st.integers(0, nn))  # 0 -> NULL parent
        if forest:
            pid = None if (nid == 1 or k % nid == 0) else k % nid
        else:
            pid = None if k == 0 else k
        nodes.append([nid, pid, name, x])
    return {"parent": parents, "child": children, "grandchild": grand, "tag": tags, "parent_tag": pt, "node": nodes}


def load_engine(data):
    """fresh in-memory engine with the family's tables and the data inserted by Core"""
    fam = family()
    eng = sautil.mem_engine()
    fam.metadata.create_all(eng)
    with eng.begin() as conn:
        for tname in ("parent", "child", "grandchild", "tag", "node"):
            rows = data.get(tname) or []
            if rows:
                cols = COLS[tname]
                conn.execute(fam.tables[tname].insert(), [dict(zip(cols, r)) for r in rows])
        if data.get("parent_tag"):
            conn.execute(fam.tables["parent_tag"].insert(), [{"parent_id": a, "tag_id": b} for a, b in data["parent_tag"]])
        if data.get("employee"):
            conn.execute(fam.tables["employee"].insert(), [dict(zip(EMP_COLS, r)) for r in data["employee"]])
    return eng


def _null_low(v):
    """sort key putting NULL below every value (SQLite ordering); strings compare by code point (BINARY collation, ASCII data)"""
    return (0, 0) if v is None else (1, v)


class Model:
    """relational reference over the generated rows (plain Python)"""

    def __init__(self, data):
        self.data = data
        self.rows = {}
        for tname, cols in COLS.items():
            self.rows[tname] = {r[0]: dict(zip(cols, r)) for r in (data.get(tname) or [])}
        self.pt = [tuple(p) for p in (data.get("parent_tag") or [])]
        self._ix = {}
        self._rel_cache = {}

    def row(self, cls, pk):
        return self.rows[CLS_TABLE[cls]][pk]

    def _index(self, key):
        ix = self._ix.get(key)
        if ix is None:
            ix = {}
            if key[0] == "pt":
                li = key[1]
                for p in sorted(set(self.pt)):
                    ix.setdefault(p[li], []).append(p[1 - li])
                for v in ix.values():
                    v.sort()
            else:
                tname, col = key
                for k in sorted(self.rows[tname]):
                    ix.setdefault(self.rows[tname][k][col], []).append(k)
            self._ix[key] = ix
        return ix

    def related(self, cls, pk, rel):
        """ordered list of target PKs (scalar relationships: [] or [pk]); collections in REL_ORDER order"""
        ck = (cls, pk, rel)
        got = self._rel_cache.get(ck)
        if got is not None:
            return got
        target, uselist, kind, lcol, rcol = RELS[cls][rel]
        if kind == "o2m":
            out = self._index((CLS_TABLE[target], rcol)).get(pk, [])
        elif kind == "m2o":
            fk = self.row(cls, pk)[lcol]
            out = [fk] if fk is not None and fk in self.rows[CLS_TABLE[target]] else []
        else:
            out = self._index(("pt", 0 if lcol == "parent_id" else 1)).get(pk, [])
        if uselist and len(out) > 1:
            trows = self.rows[CLS_TABLE[target]]
            out = sorted(out)
            for col, desc in reversed(REL_ORDER[(cls, rel)]):  # stable multi-key sort, NULL lowest
                out.sort(key=lambda k: _null_low(trows[k][col]), reverse=desc)
        self._rel_cache[ck] = out
        return out

    def is_total(self, cls, rel):
        """every row of ``cls`` has at least one related row (documented domain of innerjoin=True)"""
        return all(self.related(cls, pk, rel) for pk in self.rows[CLS_TABLE[cls]])

    def snap(self, cls, pk, depth):
        r = self.row(cls, pk)
        out = [cls, pk, [r[c] for c in COLS[CLS_TABLE[cls]]]]
        if depth > 0:
            rels = []
            for rel in sorted(RELS[cls]):
                target, uselist = RELS[cls][rel][:2]
                pks = self.related(cls, pk, rel)
                if uselist:
                    rels.append([rel, [self.snap(target, k, depth - 1) for k in pks]])
                else:
                    rels.append([rel, self.snap(target, pks[0], depth - 1) if pks else None])
            out.append(rels)
        return out


def snap_obj(obj, depth):
    """canonical snapshot of a live object: touches every column and (to ``depth``) every relationship"""
    cls = type(obj).__name__
    out = [cls, obj.id, [getattr(obj, c) for c in COLS[CLS_TABLE[cls]]]]
    if depth > 0:
        rels = []
        for rel in sorted(RELS[cls]):
            uselist = RELS[cls][rel][1]
            v = getattr(obj, rel)
            if uselist:
                rels.append([rel, [snap_obj(o, depth - 1) for o in v]])
            else:
                rels.append([rel, snap_obj(v, depth - 1) if v is not None else None])
        out.append(rels)
    return out


# --------------------------------------------------------------------- abstract expressions
# ["cmp", t, col, op, val] | ["isnull", t, col, neg] | ["in", t, col, [vals]] | ["like", t, col, pat]
# | ["colcmp", t1, c1, op, t2, c2] | ["and", a, b] | ["or", a, b] | ["not", a]
# t: "r" root entity, "j" joined entity (resolved to root when the query has no join)
OPS = ["=", "!=", "<", "<=", ">", ">="]


@st.composite
def _leaf(draw, cols_r, cols_j):
    which = draw(st.sampled_from(["r", "j", "j", "rj"] if cols_j else ["r"]))
    if which == "rj":
        ints_r = [c for c, s in cols_r if not s]
        ints_j = [c for c, s in cols_j if not s]
        if ints_r and ints_j:
            return ["colcmp", "r", draw(st.sampled_from(ints_r)), draw(st.sampled_from(OPS)), "j", draw(st.sampled_from(ints_j))]
        which = "j"
    col, is_str = draw(st.sampled_from(cols_r if which == "r" else cols_j))
    val = st.sampled_from([v for v in NAMES if v is not None]) if is_str else st.sampled_from([v for v in XS if v is not None] + [3])
    kind = draw(st.sampled_from(["cmp", "cmp", "isnull", "in", "like" if is_str else "cmp"]))
    if kind == "cmp":
        return ["cmp", which, col, draw(st.sampled_from(OPS)), draw(val)]
    if kind == "isnull":
        return ["isnull", which, col, draw(st.booleans())]
    if kind == "in":
        return ["in", which, col, draw(st.lists(val, min_size=1, max_size=3))]
    return ["like", which, col, draw(st.sampled_from(["a%", "%b", "%", "_", "A%"]))]


def exprs(cols_r, cols_j, max_leaves=4):
    """strategy for expression trees; cols_*: list of (col, is_str); cols_j may be empty"""
    return st.recursive(
        _leaf(cols_r, cols_j),
        lambda ch: st.one_of(
            st.tuples(st.sampled_from(["and", "or"]), ch, ch).map(list),
            ch.map(lambda e: ["not", e]),
        ),
        max_leaves=max_leaves,
    )


def expr_sa(e, col, ext=None):
    """render with SQLAlchemy operators; ``col(t, name)`` gives an ORM attribute or a Core column;
    ``ext(e)`` renders leaf kinds this module does not know (relationship comparators etc.)"""
    from sqlalchemy import and_, not_, or_

    k = e[0]
    if k == "cmp":
        c, op, v = col(e[1], e[2]), e[3], e[4]
        return {"=": c == v, "!=": c != v, "<": c < v, "<=": c <= v, ">": c > v, ">=": c >= v}[op]
    if k == "isnull":
        c = col(e[1], e[2])
        return c.is_not(None) if e[3] else c.is_(None)
    if k == "in":
        return col(e[1], e[2]).in_(list(e[3]))
    if k == "like":
        return col(e[1], e[2]).like(e[3])
    if k == "colcmp":
        a, op, b = col(e[1], e[2]), e[3], col(e[4], e[5])
        return {"=": a == b, "!=": a != b, "<": a < b, "<=": a <= b, ">": a > b, ">=": a >= b}[op]
    if k == "and":
        return and_(expr_sa(e[1], col, ext), expr_sa(e[2], col, ext))
    if k == "or":
        return or_(expr_sa(e[1], col, ext), expr_sa(e[2], col, ext))
    if k == "not":
        return not_(expr_sa(e[1], col, ext))
    if k == "case":  # CASE WHEN <cond> THEN 1 ELSE 0 END = 1: true iff cond is true, false otherwise (never NULL)
        from sqlalchemy import case

        return case((expr_sa(e[1], col, ext), 1), else_=0) == 1
    if ext is not None:
        return ext(e)
    raise ValueError(k)


def lit(v):
    if v is None:
        return "NULL"
    if isinstance(v, int):
        return str(v)
    assert "'" not in v
    return "'" + v + "'"


def expr_text(e, col):
    """render as SQL text; ``col(t, name)`` gives 'alias.col'"""
    k = e[0]
    if k == "cmp":
        return f"({col(e[1], e[2])} {e[3]} {lit(e[4])})"
    if k == "isnull":
        return f"({col(e[1], e[2])} IS {'NOT ' if e[3] else ''}NULL)"
    if k == "in":
        return f"({col(e[1], e[2])} IN ({', '.join(lit(v) for v in e[3])}))"
    if k == "like":
        return f"({col(e[1], e[2])} LIKE {lit(e[3])})"
    if k == "colcmp":
        return f"({col(e[1], e[2])} {e[3]} {col(e[4], e[5])})"
    if k == "and":
        return f"({expr_text(e[1], col)} AND {expr_text(e[2], col)})"
    if k == "or":
        return f"({expr_text(e[1], col)} OR {expr_text(e[2], col)})"
    if k == "not":
        return f"(NOT {expr_text(e[1], col)})"
    if k == "case":
        return f"(CASE WHEN {expr_text(e[1], col)} THEN 1 ELSE 0 END = 1)"
    raise ValueError(k)


def expr_uses(e, t):
    if e[0] in ("and", "or"):
        return expr_uses(e[1], t) or expr_uses(e[2], t)
    if e[0] in ("not", "case"):
        return expr_uses(e[1], t)
    if e[0] == "colcmp":
        return e[1] == t or e[4] == t
    return e[1] == t


def typed_cols(cls, with_fk=True):
    out = []
    for c in COLS[CLS_TABLE[cls]]:
        if c == "note":
            continue
        out.append((c, c in STR_COLS))
    return out


def join_text(root_cls, rel, outer, r="r", j="j"):
    """FROM-clause text for root joined along rel (m2m outer join written as two LEFT JOINs,
    equivalent to LEFT JOIN (secondary JOIN target) because parent_tag FKs are never dangling)"""
    target, uselist, kind, lcol, rcol = RELS[root_cls][rel]
    rt, jt = CLS_TABLE[root_cls], CLS_TABLE[target]
    J = "LEFT JOIN" if outer else "JOIN"
    if kind == "o2m":
        return f"{rt} AS {r} {J} {jt} AS {j} ON {r}.id = {j}.{rcol}"
    if kind == "m2o":
        return f"{rt} AS {r} {J} {jt} AS {j} ON {j}.id = {r}.{lcol}"
    return f"{rt} AS {r} {J} parent_tag AS {r}{j}_pt ON {r}.id = {r}{j}_pt.{lcol} {J} {jt} AS {j} ON {j}.id = {r}{j}_pt.{rcol}"
