"""C27 - a database disconnect invalidates the connection and blocks silent continuation.

Histories of execute / begin / begin_nested / savepoint commit|rollback / commit /
rollback / close / reconnect on 1-2 Connections of one Engine over vf.fakedb, with
disconnect-classified or ordinary errors injected at the k-th DBAPI call of
cursor / execute (incl. SAVEPOINT statements) / commit / rollback / connect / ping /
close, with or without handle_error listeners (promote an ordinary error to a
disconnect; set invalidate_pool_on_disconnect=False) and pool_pre_ping.

Model of the documented contract (docs: core/pooling.rst "Dealing with Disconnects",
Connection.invalidate, error code 8s2b):

* the raised DBAPIError carries connection_invalidated == (the error is effectively a
  disconnect) and Connection.invalidated becomes True exactly then;
* DBAPI connections older than the failure are never handed out again (generational, as
  Pool._invalidate documents; only the failed one if the listener disabled pool invalidation);
* if a transaction was in progress every further execute / begin_nested / commit /
  savepoint release raises PendingRollbackError *without sending anything to the DBAPI* until
  rollback(); afterwards the next execute runs on a NEW DBAPI connection;
* no call other than close() is ever made on a connection on which a disconnect was
  raised, none on a closed one;
* a non-disconnect error changes neither ``invalidated`` nor the set of open connections;
  a failed commit / RELEASE still requires rollback() before further use.
"""
from __future__ import annotations

import gc
import re

from hypothesis import strategies as st

from vf.api import Enumerated, Generated, Violation
from checks import _faults as F

PROPERTY = "C27"
LEVEL = "fault_enumeration"
RULE = (
    "random: config (pre_ping, handle_error listener none|promote|nopool|promote+nopool, 1-2 Connections, pool_recycle none|large|small) x history (<=20 ops of exec / begin / "
    "begin_nested / sp_commit / sp_rollback / commit / rollback / close / connect / soft-invalidate / virtual-clock tick on connection[i]) x fault plan (1-4 faults [site, k, disconnect|error] over "
    "cursor/execute/commit/rollback/connect/ping/close). enum: fixed 14-op two-connection history x 4 configs x every single fault position (site, k, kind) "
    "[thorough: + every pair]. Non-trivial: an effective disconnect fired while a transaction or savepoint was open, or on commit / rollback itself, and "
    ">=2 further ops followed on that Connection; distinct = canonical JSON of (cfg, ops, plan)"
)
ASSUMPTIONS = [
    "vf.fakedb is the driver: a connection on which a 'disconnect' fault fired raises a disconnect error on every later call; FakeDialect.is_disconnect classifies by exception class",
    "handle_error listeners only promote (ordinary injected error -> is_disconnect=True, the documented use) or set invalidate_pool_on_disconnect=False; demoting a real disconnect is out of scope "
    "(the fake keeps raising on the dead connection)",
    "whether autobegin had already happened when the very first statement of a transaction fails is not part of the contract: the model adopts the observed answer for that one bit",
    "savepoint handles are used in order (C23 covers misuse); single thread; default QueuePool(5, 10)",
    "a Connection whose close() raised is closed again (and finally dropped) by the harness",
    "known finding excluded by construction and pinned: a failing DBAPI rollback of the root transaction leaves open savepoints attached to the Connection",
    "known finding excluded by construction and pinned: a disconnect raised by the autorollback that follows an ordinary error outside a transaction is surfaced with connection_invalidated=False",
    "Pool._invalidate is generational as its docstring states: a failure on a connection that predates the last pool-wide invalidation does not start a new one",
]

SIG_RB_SP = "C27/rollback-failure/savepoint-left-attached"
SIG_NESTED = "C27/flag/connection_invalidated/disconnect-during-autorollback"
_INJ = re.compile(r"injected (disconnect|error) at (\w+)#(\d+)")


class _C:
    """model + real object for one Connection slot"""

    __slots__ = ("obj", "closed", "invalid", "txn", "sps", "cid", "cids", "ops_after_disc", "disc_in_txn")

    def __init__(self):
        self.obj = None
        self.closed = True
        self.invalid = False
        self.txn = None  # None | "active" | "failed"
        self.sps = []  # [[obj, "active"|"failed"]]
        self.cid = None
        self.cids = []
        self.ops_after_disc = None
        self.disc_in_txn = False

    def blocked(self):
        """execute / begin_nested / RELEASE must raise"""
        return (not self.closed) and ((self.invalid and self.txn is not None) or self.txn == "failed" or any(s[1] == "failed" for s in self.sps))

    def commit_blocked(self):
        """Connection.commit() must raise: the transaction was lost with its DBAPI connection, or its commit already failed
        (a failed RELEASE after an ordinary error does not stop the outer COMMIT)"""
        return (not self.closed) and ((self.invalid and self.txn is not None) or self.txn == "failed")


class _Run:
    def __init__(self, case):
        import sqlalchemy as sa
        from sqlalchemy import event

        self.sa = sa
        self.case = case
        self.cfg = cfg = case["cfg"]
        self.clock = F.VClock()
        self.db = F.ClockedDB(self.clock)
        self.recycle = cfg.get("recycle", -1)
        self.eng = self.db.engine(pool_pre_ping=cfg["pre_ping"], pool_recycle=self.recycle)
        self.promote = "promote" in cfg["listener"]
        self.nopool = "nopool" in cfg["listener"]
        if cfg["listener"] != "none":
            event.listen(self.eng, "handle_error", self._on_error)
        self.conns = [_C() for _ in range(cfg["nconn"])]
        self.bans = F.Bans(self.db)
        self.generation_banned = set()
        self.trace = []
        self.cls = set()
        self.nontrivial = False
        self.excluded = []
        self.may_close = set()  # connections the pool is entitled to close (model-derived)
        self.soft_seen = False
        self.close_pos = 0
        self.inj_pos = 0

    def _on_error(self, ctx):
        if self.promote and not ctx.is_disconnect and "injected error" in str(ctx.original_exception):
            ctx.is_disconnect = True
        if self.nopool and ctx.is_disconnect:
            ctx.invalidate_pool_on_disconnect = False

    def eff_disc(self, kind):
        return kind == "disconnect" or (self.promote and kind == "error")

    # ---- op plumbing
    def begin_op(self):
        self.n_inj = len(self.db.injected)
        self.n_log = len(self.db.log)
        self.existing = {c.id for c in self.db.conns}
        self.open_before = set(F.open_ids(self.db))
        self.t0 = self.clock.now
        self.bans.sync_dead_and_closed()
        self.banned_before = dict(self.bans.reason)

    def new_faults(self):
        return self.db.injected[self.n_inj :]

    def new_log(self):
        return self.db.log[self.n_log :]

    def T(self):
        return f"trace={self.trace}"

    def run(self, c, label, fn):
        """returns (exception or None)"""
        if c.txn in (None, "failed") and not c.closed and not self.case.get("pinned"):
            # known finding: ordinary error before autobegin -> autorollback -> disconnect on that rollback is
            # surfaced with connection_invalidated=False.  Keep the second fault away.
            nc, nr = self.db.counts["cursor"], self.db.counts["rollback"]
            first = self.db.plan.get(("cursor", nc))
            if first and not self.eff_disc(first) and self.eff_disc(self.db.plan.get(("rollback", nr), "")):
                del self.db.plan[("rollback", nr)]
                self.excluded.append("disconnect on the autorollback that follows an ordinary pre-autobegin error (known finding: connection_invalidated flag lost)")
        self.begin_op()
        try:
            fn()
        except (self.sa.exc.SQLAlchemyError, F.fakedb.Error) as e:
            return e
        return None

    def fault_of(self, e):
        m = _INJ.search(str(getattr(e, "orig", None) or e))
        if not m:
            return None
        return m.group(2), int(m.group(3)), m.group(1)

    def expect_blocked(self, c, label, e):
        exc = self.sa.exc
        if e is None:
            raise Violation(f"C27/silent-continuation/{label}", f"{label} succeeded although the transaction was lost / failed and rollback() has not been called; {self.T()}",
                            observed="returned normally", expected="PendingRollbackError")
        if isinstance(e, exc.DBAPIError) and not c.invalid:
            nf = self.new_faults()
            if nf and nf[0][1] == "cursor":
                # the cursor is created (on the still-valid connection) before the state check: a fault there surfaces as itself
                self.dbapi_failure(c, label, e, False)
                self.cls.add("blocked-op:cursor-fault")
                return
        if not isinstance(e, exc.PendingRollbackError):
            raise Violation(f"C27/blocked/{label}/wrong-error", f"{label} in need-rollback state raised {type(e).__name__}: {str(e)[:200]}; {self.T()}",
                            observed=type(e).__name__, expected="PendingRollbackError")
        # (a cursor may be created before the state check on a still-valid connection; nothing may be sent)
        calls = [x for x in self.new_log() if x[1] in ("execute", "commit", "rollback", "connect", "ping")]
        if calls:
            raise Violation(f"C27/blocked/{label}/dbapi-touched", f"{label} raised PendingRollbackError but still made DBAPI calls {calls[:4]}; {self.T()}", observed=[list(map(str, x)) for x in calls[:4]])
        self.cls.add("blocked-op-raised")

    def dbapi_failure(self, c, label, e, pre_invalid):
        """common checks for an op that failed with an injected DBAPI error; returns effective-disconnect bool"""
        exc = self.sa.exc
        if not isinstance(e, exc.DBAPIError):
            F.classify_error("C27", e, f"{label}; {self.T()}")
            raise Violation(f"C27/error/{label}/not-wrapped", f"{label} surfaced {type(e).__name__} instead of a DBAPIError: {e!r}; {self.T()}")
        F.classify_error("C27", e, f"{label}; {self.T()}")
        f = self.fault_of(e)
        if f is None:
            # error raised by the fake because the connection is dead / closed: the library used a dead connection
            raise Violation(f"C27/dead-connection-used/{label}", f"{label}: error comes from a call on a dead / closed DBAPI connection: {e.orig!r}; {self.T()}")
        site, k, kind = f
        disc = self.eff_disc(kind)
        self.cls.add(f"fired:{site}:{'disc' if disc else 'err'}")
        nf = self.new_faults()
        if disc and not e.connection_invalidated and site == "rollback" and len(nf) >= 2 and not self.eff_disc(nf[0][3]) and label != "rollback":
            raise Violation(SIG_NESTED, f"{label}: ordinary error at {nf[0][1]}#{nf[0][2]} outside a transaction triggered the autorollback, whose rollback#{k} hit a disconnect: the "
                            f"Connection was invalidated (invalidated={c.obj.invalidated}) but the surfaced DBAPIError has connection_invalidated=False; {self.T()}",
                            observed=False, expected=True)
        if bool(e.connection_invalidated) != disc:
            raise Violation(f"C27/flag/connection_invalidated/{site}", f"{label}: DBAPIError.connection_invalidated={e.connection_invalidated} for a {kind} at {site}#{k} "
                            f"(listener={self.cfg['listener']}); {self.T()}", observed=e.connection_invalidated, expected=disc)
        hit = next((x[0] for x in self.new_faults() if x[1] == site and x[2] == k), None)
        if pre_invalid and site not in ("connect", "ping") and hit is not None and not c.closed:
            # the Connection had transparently re-acquired a DBAPI connection before this error
            self.cls.add("transparent-reconnect")
            c.invalid = False
            self.note_acquired(c, hit, label, as_of_op_start=True)
        if disc and site not in ("connect", "ping"):
            self.apply_disconnect_bans(hit)
            if not c.closed:
                c.invalid = True
                c.cid = None
                if c.txn is not None or c.sps:
                    c.disc_in_txn = True
                if c.ops_after_disc is None:
                    c.ops_after_disc = 0
        elif not disc:
            # a non-disconnect error must leave the set of open connections alone (apart from a reconnect in progress)
            now_open = set(F.open_ids(self.db))
            if not pre_invalid and site not in ("connect", "close", "ping") and now_open != self.open_before:
                raise Violation(f"C27/non-disconnect/{label}/pool-touched", f"{label}: ordinary error at {site}#{k} changed the open connections {sorted(self.open_before)} -> {sorted(now_open)}; {self.T()}")
        return disc

    def apply_disconnect_bans(self, hit):
        self.may_close.add(hit)
        if not self.nopool and hit not in self.generation_banned:
            self.may_close.update(self.existing)
        if self.nopool:
            self.bans.ban(hit, "a disconnect was detected on it (pool invalidation disabled by listener)")
            self.cls.add("disconnect-nopool")
        elif hit in self.generation_banned:
            self.bans.ban(hit, "a disconnect was detected on it")
            self.cls.add("pool-wide-invalidation:stale-generation")
        else:
            for i in self.existing:
                self.bans.ban(i, "it is older than a disconnect detected by a Connection (pool-wide invalidation)")
                self.generation_banned.add(i)
            self.cls.add("pool-wide-invalidation")

    def ping_faults_transparent(self):
        """pre-ping disconnects consumed inside a successful checkout: pool-wide ban"""
        for cid, site, k, kind in self.new_faults():
            if site == "ping" and self.eff_disc(kind):
                self.may_close.add(cid)
            if site == "ping" and self.eff_disc(kind) and cid not in self.generation_banned:
                self.may_close.update(self.existing)
                for i in self.existing:
                    self.bans.ban(i, "it is older than a failed pre-ping (pool-wide invalidation)")
                    self.generation_banned.add(i)

    def check_swallowed(self, label, sites=("cursor", "execute", "commit")):
        bad = [f for f in self.new_faults() if f[1] in sites]
        if bad:
            raise Violation(f"C27/error-swallowed/{label}", f"{label} returned normally although {bad[0][1]}#{bad[0][2]} ({bad[0][3]}) was injected in it; {self.T()}", observed=[list(map(str, b)) for b in bad])

    def acquired(self, c, label):
        """the Connection now sits on a (possibly new) DBAPI connection"""
        return self.note_acquired(c, c.obj.connection.dbapi_connection.id, label)

    def note_acquired(self, c, cid, label, as_of_op_start=False):
        if cid != c.cid:
            if cid in c.cids:
                raise Violation("C27/reconnect/same-dbapi-connection", f"{label}: Connection went back to DBAPI connection {cid} it had before; {self.T()}", observed=cid)
            if as_of_op_start:
                # the connection has failed (and may be closed) by now: judge it by what was known when it was handed out
                if cid in self.banned_before:
                    raise Violation(f"C27/reuse/{F._slug(self.banned_before[cid])}", f"{label}: DBAPI connection {cid} was handed out although {self.banned_before[cid]}; {self.T()}", observed=cid)
            else:
                self.bans.check_handed_out("C27", cid, f"{label}; {self.T()}")
            if cid in self.existing:
                dbc = next(x for x in self.db.conns if x.id == cid)
                if self.recycle > 0 and self.t0 - dbc.opened_at > self.recycle + 1:
                    raise Violation("C27/reuse/older-than-pool_recycle", f"{label}: DBAPI connection {cid} aged {self.t0 - dbc.opened_at:.0f}s handed out with pool_recycle={self.recycle}; {self.T()}")
            for o in self.conns:
                if o is not c and not o.closed and o.cid == cid:
                    raise Violation("C27/reuse/held-by-another-connection", f"{label}: DBAPI connection {cid} is in use by the other Connection; {self.T()}")
            c.cid = cid
            c.cids.append(cid)
        return cid

    def check_statement_target(self, c, label):
        ex = [x for x in self.new_log() if x[1] == "execute"]
        if not ex:
            raise Violation(f"C27/{label}/no-statement-sent", f"{label} returned normally but no statement reached the DBAPI; {self.T()}")
        if any(x[0] != c.cid for x in ex):
            raise Violation(f"C27/{label}/statement-on-wrong-connection", f"{label}: statements went to {[x[0] for x in ex]}, the Connection is on {c.cid}; {self.T()}")

    # ---- ops
    def op_connect(self, c):
        if not c.closed:
            return
        self.begin_op()
        try:
            obj = self.eng.connect()
        except (self.sa.exc.SQLAlchemyError, F.fakedb.Error) as e:
            F.classify_error("C27", e, f"Engine.connect; {self.T()}")
            f = self.fault_of(e)
            if f and isinstance(e, self.sa.exc.DBAPIError) and bool(e.connection_invalidated) != self.eff_disc(f[2]):
                raise Violation(f"C27/flag/connection_invalidated/{f[0]}", f"Engine.connect: connection_invalidated={e.connection_invalidated} for {f[2]} at {f[0]}#{f[1]}; {self.T()}")
            self.ping_faults_transparent()
            self.cls.add("connect-failed")
            return
        self.ping_faults_transparent()
        c.obj, c.closed, c.invalid, c.txn, c.sps, c.cid, c.cids = obj, False, False, None, [], None, []
        c.ops_after_disc, c.disc_in_txn = None, False
        self.acquired(c, "Engine.connect")

    def tick(self, c):
        if c.ops_after_disc is not None:
            c.ops_after_disc += 1
            if c.disc_in_txn and c.ops_after_disc >= 2:
                self.nontrivial = True

    def op_exec(self, c):
        exc = self.sa.exc
        if c.obj is None:
            return
        self.tick(c)
        e = self.run(c, "execute", lambda: c.obj.exec_driver_sql("insert into t values (1)"))
        if c.closed:
            if not isinstance(e, exc.ResourceClosedError):
                raise Violation("C27/closed/execute", f"execute on a closed Connection: {e!r}; {self.T()}")
            return
        if c.blocked():
            return self.expect_blocked(c, "execute", e)
        pre_txn, pre_invalid = c.txn, c.invalid
        if e is None:
            self.check_swallowed("execute")
            self.ping_faults_transparent()
            if c.invalid:
                self.cls.add("transparent-reconnect")
                c.invalid = False
            self.acquired(c, "execute")
            self.check_statement_target(c, "execute")
            c.txn = "active"
            return
        self.ping_faults_transparent()
        self.dbapi_failure(c, "execute", e, pre_invalid)
        if pre_txn is None:
            c.txn = "active" if c.obj.get_transaction() is not None else None  # see ASSUMPTIONS (autobegin bit)
            if c.txn is None:
                c.disc_in_txn = c.disc_in_txn and bool(c.sps)
        if not c.invalid and not pre_invalid and c.obj.connection.dbapi_connection.id != c.cid:
            raise Violation("C27/non-disconnect/execute/connection-swapped", f"ordinary error moved the Connection to another DBAPI connection; {self.T()}")

    def op_begin(self, c):
        exc = self.sa.exc
        if c.obj is None:
            return
        self.tick(c)
        e = self.run(c, "begin", c.obj.begin)
        if c.closed:
            if not isinstance(e, exc.ResourceClosedError):
                raise Violation("C27/closed/begin", f"begin on a closed Connection: {e!r}; {self.T()}")
            return
        if c.txn is not None:
            if not isinstance(e, exc.InvalidRequestError):
                raise Violation("C27/begin/no-error-when-begun", f"begin() with a transaction present: {e!r}; {self.T()}")
            return
        pre_invalid = c.invalid
        if e is None:
            self.ping_faults_transparent()
            if c.invalid:
                c.invalid = False
                self.cls.add("transparent-reconnect")
            self.acquired(c, "begin")
            c.txn = "active"
            return
        self.ping_faults_transparent()
        self.dbapi_failure(c, "begin", e, pre_invalid)
        c.txn = "active" if c.obj.get_transaction() is not None else None

    def op_sp_begin(self, c):
        exc = self.sa.exc
        if c.obj is None:
            return
        self.tick(c)
        box = []
        e = self.run(c, "begin_nested", lambda: box.append(c.obj.begin_nested()))
        if c.closed:
            if not isinstance(e, exc.ResourceClosedError):
                raise Violation("C27/closed/begin_nested", f"begin_nested on a closed Connection: {e!r}; {self.T()}")
            return
        if c.blocked():
            return self.expect_blocked(c, "begin_nested", e)
        pre_txn, pre_invalid = c.txn, c.invalid
        if e is None:
            self.check_swallowed("begin_nested")
            self.ping_faults_transparent()
            if c.invalid:
                c.invalid = False
                self.cls.add("transparent-reconnect")
            self.acquired(c, "begin_nested")
            self.check_statement_target(c, "begin_nested")
            c.txn = "active"
            c.sps.append([box[0], "active"])
            self.cls.add("savepoint")
            return
        self.ping_faults_transparent()
        self.dbapi_failure(c, "begin_nested", e, pre_invalid)
        if pre_txn is None:
            c.txn = "active" if c.obj.get_transaction() is not None else None

    def op_sp_end(self, c, m):
        if c.obj is None or c.closed or not c.sps:
            return
        self.tick(c)
        sp = c.sps[-1]
        label = "savepoint." + m
        e = self.run(c, label, getattr(sp[0], m))
        if m == "rollback":
            if sp[1] == "failed" or c.invalid:
                # nothing can be emitted: must simply detach the handle
                if e is not None:
                    raise Violation(f"C27/{label}/raised-in-lost-transaction", f"{label} of a failed / lost savepoint raised {type(e).__name__}: {str(e)[:200]}; {self.T()}")
                if [x for x in self.new_log() if x[1] != "close"]:
                    raise Violation(f"C27/{label}/dbapi-touched", f"{label} of a lost savepoint made DBAPI calls {self.new_log()[:3]}; {self.T()}")
                c.sps.pop()
                return
            if c.blocked():
                # an outer part failed (e.g. root commit failed) - not reachable with in-order handles; keep generic
                c.sps.pop()
                return
            c.sps.pop()
            if e is None:
                self.check_swallowed(label)
                self.check_statement_target(c, label)
                return
            self.dbapi_failure(c, label, e, False)
            return
        # commit (RELEASE)
        if c.blocked():
            self.expect_blocked(c, label, e)
            if sp[1] == "active":
                sp[1] = "failed"
            return
        if e is None:
            self.check_swallowed(label)
            self.check_statement_target(c, label)
            c.sps.pop()
            return
        self.dbapi_failure(c, label, e, False)
        sp[1] = "failed"
        self.cls.add("release-failed")

    def op_commit(self, c):
        if c.obj is None or c.closed:
            return
        self.tick(c)
        e = self.run(c, "commit", c.obj.commit)
        if c.txn is None:
            if e is not None:
                raise Violation("C27/commit/no-transaction-raised", f"commit() without a transaction raised {e!r}; {self.T()}")
            return
        if c.commit_blocked():
            self.expect_blocked(c, "commit", e)
            c.txn = "failed"
            c.sps = []
            return
        if e is None:
            self.check_swallowed("commit")
            if not [x for x in self.new_log() if x[1] == "commit" and x[0] == c.cid]:
                raise Violation("C27/commit/not-sent", f"commit() returned but DBAPI commit() was not called on connection {c.cid}; {self.T()}")
            c.txn, c.sps = None, []
            return
        was_open = c.txn is not None
        disc = self.dbapi_failure(c, "commit", e, False)
        c.txn, c.sps = "failed", []
        self.cls.add("commit-failed")
        if disc and was_open:
            c.disc_in_txn = True

    def strip_rollback_fault_with_savepoints(self, c):
        """known finding: when the DBAPI rollback of the root transaction raises, RootTransaction._close_impl skips
        cancelling the savepoints, which stay attached to the Connection"""
        if c.sps and c.txn == "active" and not c.invalid and not self.case.get("pinned"):
            k = self.db.counts["rollback"]
            if self.db.plan.pop(("rollback", k), None) is not None:
                self.excluded.append("DBAPI rollback failure while savepoints are open (known finding: savepoints stay attached to the Connection)")

    def op_rollback(self, c):
        if c.obj is None or c.closed:
            return
        self.tick(c)
        self.strip_rollback_fault_with_savepoints(c)
        had_sps = bool(c.sps)
        had = c.txn
        pre_invalid = c.invalid
        e = self.run(c, "rollback", c.obj.rollback)
        c.txn, c.sps = None, []
        if e is None:
            if had == "active" and not pre_invalid and not [x for x in self.new_log() if x[1] == "rollback" and x[0] == c.cid]:
                raise Violation("C27/rollback/not-sent", f"rollback() of a live transaction returned but DBAPI rollback() was not called on connection {c.cid}; {self.T()}")
            if pre_invalid and [x for x in self.new_log() if x[1] not in ("close",)]:
                raise Violation("C27/rollback/dbapi-touched-while-invalid", f"rollback() of an invalidated Connection made DBAPI calls {self.new_log()[:3]}; {self.T()}")
            if had is not None and pre_invalid:
                self.cls.add("rollback-clears-invalid-transaction")
            return
        if had is None or pre_invalid or had == "failed":
            raise Violation("C27/rollback/raised-without-dbapi-work", f"rollback() with txn={had} invalid={pre_invalid} raised {type(e).__name__}: {str(e)[:200]}; {self.T()}")
        disc = self.dbapi_failure(c, "rollback", e, False)
        c.txn, c.sps = None, []
        if disc:
            c.disc_in_txn = True
        self.cls.add("rollback-failed")
        if had_sps and c.obj.get_nested_transaction() is not None:
            raise Violation(SIG_RB_SP, f"rollback() raised ({'disconnect' if disc else 'error'}) and the root transaction is gone, but get_nested_transaction() still returns the "
                            f"savepoint (in_nested_transaction()={c.obj.in_nested_transaction()}); a failed savepoint left this way makes every execute raise "
                            f"PendingRollbackError and Connection.rollback() cannot clear it; {self.T()}", observed="savepoint still attached", expected="no nested transaction")

    def op_soft(self, c):
        """soft invalidation of a healthy Connection's pooled connection: it keeps working for this holder and must be
        replaced the next time it is checked out"""
        if c.obj is None or c.closed or c.invalid or c.cid is None:
            return
        self.begin_op()
        c.obj.connection.invalidate(soft=True)
        self.bans.ban(c.cid, "it was soft-invalidated")
        self.may_close.add(c.cid)
        self.soft_seen = True
        self.cls.add("soft-invalidate")

    def op_close(self, c):
        if c.obj is None or c.closed:
            return
        self.strip_rollback_fault_with_savepoints(c)
        for attempt in range(3):
            e = self.run(c, "close", c.obj.close)
            if e is None:
                break
            F.classify_error("C27", e, f"close; {self.T()}")
            self.cls.add("close-raised")
            f = self.fault_of(e)
            if f and self.eff_disc(f[2]) and f[0] != "connect":
                hit = next((x[0] for x in self.new_faults() if x[1] == f[0] and x[2] == f[1]), None)
                self.apply_disconnect_bans(hit)
        else:
            c.obj = None
            gc.collect()
        c.closed, c.invalid, c.txn, c.sps, c.cid = True, False, None, [], None
        if c.obj is not None and not c.obj.closed:
            raise Violation("C27/close/not-closed", f"Connection.close() returned but closed is False; {self.T()}")

    # ---- invariants after every op
    def check_all(self, after):
        for i, c in enumerate(self.conns):
            if c.obj is None:
                continue
            o = c.obj
            if o.closed != c.closed:
                raise Violation("C27/state/closed", f"after {after}: conn{i}.closed={o.closed} model={c.closed}; {self.T()}")
            if c.closed:
                continue
            if o.invalidated != c.invalid:
                raise Violation("C27/state/invalidated", f"after {after}: conn{i}.invalidated={o.invalidated} model={c.invalid}; {self.T()}", observed=o.invalidated, expected=c.invalid)
            exp_in = c.txn == "active"
            if o.in_transaction() != exp_in:
                raise Violation("C27/state/in_transaction", f"after {after}: conn{i}.in_transaction()={o.in_transaction()} model txn={c.txn}; {self.T()}", observed=o.in_transaction(), expected=exp_in)
            exp_nested = bool(c.sps) and c.sps[-1][1] == "active"
            if o.in_nested_transaction() != exp_nested:
                raise Violation("C27/state/in_nested_transaction", f"after {after}: conn{i}.in_nested_transaction()={o.in_nested_transaction()} model savepoints={[x[1] for x in c.sps]}; {self.T()}",
                                observed=o.in_nested_transaction(), expected=exp_nested)
            if (o.get_transaction() is not None) != (c.txn is not None):
                raise Violation("C27/state/get_transaction", f"after {after}: conn{i}.get_transaction()={o.get_transaction()} model txn={c.txn}; {self.T()}")
        for f in self.db.injected[self.inj_pos :]:
            self.may_close.add(f[0])  # a connection on which any fault fired may be discarded (e.g. failed reset-on-return)
        self.inj_pos = len(self.db.injected)
        log = self.db.log
        while self.close_pos < len(log):
            cid, site, _ = log[self.close_pos]
            self.close_pos += 1
            if site == "close" and self.recycle > 0 and cid in self.generation_banned and not next(x for x in self.db.conns if x.id == cid).dead:
                self.cls.add("invalidated-pooled-connection-discarded+recycle")  # the branch behind the age test in get_connection()
            if site == "close" and self.recycle > 0 and self.bans.reason.get(cid) == "it was soft-invalidated":
                self.cls.add("soft-invalidated-connection-discarded+recycle")
            if site == "close" and cid not in self.may_close and self.recycle > 0:
                dbc = next((x for x in self.db.conns if x.id == cid), None)
                if dbc is not None and self.clock.now - dbc.opened_at > self.recycle:
                    self.cls.add("recycled-by-age")
                    continue
            if site == "close" and cid not in self.may_close:
                raise Violation("C27/pool/healthy-connection-closed", f"after {after}: close() on DBAPI connection {cid} although no disconnect / invalidation concerns it "
                                f"(listener={self.cfg['listener']}); {self.T()}", observed=cid)
        bad = [x for x in self.db.use_of_dead if x[1] != "close"]
        if bad:
            raise Violation(f"C27/dead-connection-used/{bad[0][1]}", f"after {after}: DBAPI call {bad[0][1]} on connection {bad[0][0]} after a disconnect was raised on it; {self.T()}",
                            observed=[list(map(str, b)) for b in bad[:3]])
        bad = [x for x in self.db.use_after_close if x[1] != "close"]
        if bad:
            raise Violation(f"C27/closed-connection-used/{bad[0][1]}", f"after {after}: DBAPI call {bad[0][1]} on closed connection {bad[0][0]}; {self.T()}", observed=[list(map(str, b)) for b in bad[:3]])

    def finish(self):
        for c in self.conns:
            self.op_close(c)
        self.check_all("final close")
        F.disarm(self.db)
        self.begin_op()
        try:
            with self.eng.connect() as conn:
                cid = conn.connection.dbapi_connection.id
                self.bans.check_handed_out("C27", cid, f"post-history checkout; {self.T()}")
                conn.exec_driver_sql("select 1")
        except self.sa.exc.SQLAlchemyError as e:
            raise Violation(f"C27/recovery/{type(e).__name__}", f"with faults disarmed a fresh Engine.connect()+execute failed: {str(e)[:200]}; {self.T()}")
        if self.eng.pool.checkedout() != 0:
            raise Violation("C27/accounting/checkedout-nonzero", f"all Connections closed but checkedout()={self.eng.pool.checkedout()}; {self.T()}")


def _run_case(case, ctx, enum=False):
    run = _Run(case)
    try:
        with F.pool_clock(run.clock):
            run.eng.connect().close()  # warm-up: dialect initialisation is not part of this property
            for c in run.conns:
                run.op_connect(c)
            F.arm(run.db, case["plan"])
            try:
                for op in case["ops"]:
                    k, i = op[0], op[1] % len(run.conns)
                    c = run.conns[i]
                    run.trace.append(f"{k}.{i}")
                    if k == "exec":
                        run.op_exec(c)
                    elif k == "begin":
                        run.op_begin(c)
                    elif k == "sp":
                        run.op_sp_begin(c)
                    elif k == "sp_commit":
                        run.op_sp_end(c, "commit")
                    elif k == "sp_rollback":
                        run.op_sp_end(c, "rollback")
                    elif k == "commit":
                        run.op_commit(c)
                    elif k == "rollback":
                        run.op_rollback(c)
                    elif k == "close":
                        run.op_close(c)
                    elif k == "connect":
                        run.op_connect(c)
                    elif k == "tick":
                        run.clock.advance(100)
                        run.cls.add("tick")
                    elif k == "soft":
                        run.op_soft(c)
                    else:
                        raise ValueError(k)
                    run.check_all(run.trace[-1])
                run.trace.append("finish")
                run.finish()
            finally:
                fired = len(run.db.injected)
                nontrivial = run.nontrivial or (enum and any(k.startswith("fired:") for k in run.cls))
                classes = set(run.cls)
                classes.add(f"listener:{run.cfg['listener']}")
                classes.add("recycle:" + ("none" if run.recycle < 0 else "large" if run.recycle > 1000 else "small"))
                classes.add(f"faults-fired:{min(fired, 3)}")
                if any(c.disc_in_txn for c in run.conns):
                    classes.add("disconnect-with-transaction-open")
                if "fired:connect:disc" in run.cls and any(k.startswith("fired:") and k.endswith(":err") and "connect" not in k for k in run.cls):
                    classes.add("failed-reconnect-then-ordinary-error")
                if nontrivial:
                    classes.add("NONTRIVIAL")
                ctx.note({"cfg": case["cfg"], "ops": case["ops"], "plan": case["plan"]}, nontrivial, classes=sorted(classes))
                for r in run.excluded:
                    ctx.exclude(r)
    finally:
        for c in run.conns:
            c.obj = None
        F.disarm(run.db)
        try:
            run.eng.dispose()
        except Exception:
            pass


def check_random(case, ctx):
    _run_case(case, ctx)


def check_enum(case, ctx):
    _run_case(case, ctx, enum=True)


# ------------------------------------------------------------------ generators
_cfg = st.builds(
    lambda pre_ping, listener, nconn, recycle: {"pre_ping": pre_ping, "listener": listener, "nconn": nconn, "recycle": recycle},
    st.booleans(),
    st.sampled_from(["none", "none", "promote", "nopool", "promote+nopool"]),
    st.sampled_from([1, 2, 2]),
    st.sampled_from([-1, -1, 100000, 100000, 30]),  # none / large (never elapses) / small (elapses after a tick of the virtual clock)
)
_ci = st.integers(0, 1)
_opk = st.sampled_from(["exec"] * 7 + ["sp", "sp", "sp_commit", "sp_rollback", "commit", "commit", "rollback", "rollback", "rollback", "begin", "close", "close", "connect", "connect", "soft", "tick"])


@st.composite
def _cases(draw):
    cfg = draw(_cfg)
    sites = ["cursor", "execute", "execute", "execute", "commit", "commit", "rollback", "connect", "close"]
    if cfg["pre_ping"]:
        sites.append("ping")
    plan, seen = [], set()
    # first fault: a disconnect where a transaction is likely to be open
    site = draw(st.sampled_from(["execute", "execute", "execute", "cursor", "commit", "rollback"]))
    k = draw(st.sampled_from([0, 1, 1, 2, 2, 3, 4])) if site in ("execute", "cursor") else draw(st.integers(0, 1))
    plan.append([site, k, draw(st.sampled_from(["disconnect", "disconnect", "disconnect", "error"]))])
    seen.add((site, k))
    for _ in range(draw(st.integers(0, 3))):
        site = draw(st.sampled_from(sites))
        k = draw(st.integers(0, 7)) if site in ("execute", "cursor") else draw(st.integers(0, 2))
        if (site, k) in seen:
            continue
        seen.add((site, k))
        plan.append([site, k, draw(st.sampled_from(["disconnect", "error"]))])
    ops = [[draw(_opk), draw(st.sampled_from([0, 0, 0, 1]))] for _ in range(draw(st.integers(8, 20)))]
    if cfg["nconn"] == 2 and draw(st.integers(0, 2)) == 0:
        # scenario: a second pooled connection (idle, or returned later / soft-invalidated) predates a disconnect on connection 0
        # and is then checked out again
        head = [["exec", 0], ["exec", 1]] + draw(st.sampled_from([[["commit", 1], ["close", 1]], [["commit", 1]], [["soft", 1], ["commit", 1]], []]))
        tail = [["rollback", 0], ["exec", 0], ["rollback", 1], ["close", 1], ["connect", 1], ["exec", 1]]
        if draw(st.booleans()):
            tail.insert(0, ["tick", 0])
        ops = head + ops[: draw(st.integers(1, 6))] + tail
        if not any(f[0] in ("execute", "cursor") and f[2] == "disconnect" for f in plan):
            plan = [["execute", draw(st.integers(2, 4)), "disconnect"]] + [f for f in plan if f[0] != "execute"]
    elif draw(st.integers(0, 5)) == 0:
        # scenario: disconnect, then the transparent reconnect itself fails with a disconnect-classified connect error (server still
        # down), then the server is back, then an ORDINARY error: it must not be treated as a disconnect
        site = draw(st.sampled_from(["execute", "cursor"]))
        plan = [[site, 1, "disconnect"], ["connect", 0, "disconnect"], [draw(st.sampled_from(["execute", "cursor"])), draw(st.integers(3, 5)), "error"]]
        ops = [["exec", 0], ["exec", 0], ["rollback", 0], ["exec", 0], ["exec", 0], ["exec", 0], ["exec", 0], ["exec", 0], ["exec", 0]] + ops[: draw(st.integers(0, 5))]
        cfg = dict(cfg, listener=draw(st.sampled_from(["none", "nopool"])))
    return {"cfg": cfg, "ops": ops, "plan": plan}


ENUM_OPS = [["exec", 0], ["sp", 0], ["exec", 0], ["sp_commit", 0], ["exec", 1], ["commit", 0], ["exec", 0], ["rollback", 0], ["exec", 1], ["exec", 0], ["commit", 1], ["close", 0], ["connect", 0], ["exec", 0]]
ENUM_CFGS = [
    {"pre_ping": False, "listener": "none", "nconn": 2, "recycle": -1},
    {"pre_ping": True, "listener": "none", "nconn": 2, "recycle": 100000},
    {"pre_ping": False, "listener": "promote", "nconn": 2, "recycle": 100000},
    {"pre_ping": True, "listener": "nopool", "nconn": 2, "recycle": -1},
]
ENUM_BOUNDS = {"cursor": 9, "execute": 9, "commit": 3, "rollback": 4, "connect": 3, "ping": 3, "close": 3}


def _enum_cases(tier):
    for cfg in ENUM_CFGS:
        singles = []
        for site, n in ENUM_BOUNDS.items():
            if site == "ping" and not cfg["pre_ping"]:
                continue
            for k in range(n):
                for kind in ("disconnect", "error"):
                    singles.append([site, k, kind])
        for f in singles:
            yield {"cfg": cfg, "ops": ENUM_OPS, "plan": [f]}
        if tier == "thorough":
            for a in range(len(singles)):
                for b in range(a + 1, len(singles)):
                    if singles[a][:2] != singles[b][:2]:
                        yield {"cfg": cfg, "ops": ENUM_OPS, "plan": [singles[a], singles[b]]}


def subs(tier):
    return [
        Enumerated("enum", check_enum, cases=_enum_cases),
        Generated("random", check_random, strategy=_cases(), quick=3000, thorough=100000),
    ]
