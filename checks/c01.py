"""C01 - rendered SQL preserves the meaning of the expression tree.

live (SQLite): one abstract typed tree is built twice - naturally (Python operators, and_/or_/not_:
precedence grouping, associative flattening, negation rewriting active) and explicitly (every
operand in a Grouping, NOT as a plain unary over a Grouping, nothing flattened) - and both are
executed in the SELECT list (value + NULL-ness + storage class per row) and, for boolean roots, in
WHERE (row sets).

grammar (postgresql, mysql, mariadb, mssql, oracle, + sqlite as engine validation): both forms are
compiled by the dialect and parsed with a precedence-climbing parser driven by the vendor's
documented operator-precedence table (checks/_sqlparse.py); the parse trees must be identical
modulo redundant parentheses, n-ary flattening of the operators SQLAlchemy declares associative
and the documented negation identities.
"""
from __future__ import annotations

import warnings

from hypothesis import strategies as st

from vf.api import Generated, Violation
from checks import _exprgen as X

PROPERTY = "C01"
LEVEL = "exploration"
RULE = (
    "typed abstract expression trees (depth 2..5 quick / ..7 thorough) over a 7-column nullable table (2 int, float, 2 string, 2 boolean) "
    "with 2-5 generated rows; operators + - * / // % unary-, bitwise, ||, 6 comparisons, IS [NOT] DISTINCT FROM, IS [NOT] NULL, IS [NOT] expr, "
    "AND/OR/NOT, BETWEEN, [NOT] LIKE/ILIKE (+ESCAPE), [NOT] IN (expanding bind and expression list), searched and simple CASE, CAST, COLLATE, "
    "correlated scalar subquery, EXISTS, coalesce/abs/lower/upper/length; each tree built naturally and fully parenthesised. "
    "Non-trivial: (>=2 operators of different SQLAlchemy precedence classes AND the natural build contains at least one automatic Grouping) "
    "OR a NOT directly over a comparison / LIKE / IN / BETWEEN / IS (negation rewrite active) OR a chain of >=2 nested NOTs "
    "(1-4 nested NOTs are generated over every boolean atom kind: Boolean column/literal, boolean CASE/CAST/function/scalar subquery, comparison, IS NULL, EXISTS, "
    "and_/or_ collapsing through true()/false() members); distinct = canonical JSON of (tree, rows) "
    "[grammar sub: of (tree, dialect)]"
)
ASSUMPTIONS = [
    "value domain: integers within +-10^6, floats multiples of 0.25 below 2^20; an add/mul node whose right operand is the same operator "
    "(the shape flattening re-associates) is only generated when interval analysis shows the whole cluster exact in binary64/int64, else the operator is rewritten to '-'",
    "boolean columns hold only 0/1/NULL; no CAST to BOOLEAN from non-boolean values (x = 1 vs truthiness would differ by design)",
    "division/modulo by zero is NULL on SQLite in both renderings (kept)",
    "each rendering is executed in its own statement; the same DBAPI error class in both counts as agreement (pysqlite's floor() UDF raises on NULL: "
    "a // with float operands and NULL quotient); a one-sided floor-UDF error (SQLAlchemy folded the operand away with true()/false()) is tallied, not reported",
    "raw DBAPI rows are compared (result processors such as Numeric->Decimal bypassed) including the Python type of each value",
    "PostgreSQL / MySQL / MariaDB / MSSQL / Oracle are not executed (no servers): the grammar sub judges their renderings with the vendor-documented "
    "precedence tables in checks/_sqlparse.py, which are trusted inputs; the parser engine is validated against live SQLite on every case of the sqlite dialect",
    "three confirmed defects are excluded from generation by construction and pinned as replays: AsBoolean operand never grouped, BETWEEN bounds never grouped, "
    "~(a.is_(expr)) loses the negation",
]


# ------------------------------------------------------------------ known root causes (classification only)
def triggers(tree, nat):
    """root-cause classifiers present in this case: looks at the abstract tree and at the natural
    element structure (never used as an oracle, only to name/exclude confirmed defects)"""
    from sqlalchemy.sql import elements as E, operators as O, visitors

    out = []
    # "is-expr-negation-lost" (~(a.is_(b)) rendered "a IS b") was repaired in /repo (fix: 7e3b43f): no longer excluded
    f2 = f3 = False
    for el in visitors.iterate(nat):
        if isinstance(el, E.BinaryExpression):
            if el.operator in (O.between_op, O.not_between_op) and isinstance(el.right, E.ExpressionClauseList):
                for b in el.right.clauses:
                    if isinstance(b, E.Grouping):
                        continue
                    if isinstance(b, E.AsBoolean):
                        f3 = True
                    op = getattr(b, "operator", None)
                    if isinstance(b, (E.OperatorExpression, E.UnaryExpression)) and op is not None and op is not O.concat_op:
                        if O._PRECEDENCE.get(op, 100) <= O._PRECEDENCE[O.between_op]:
                            f3 = True
            for side in (el.left, el.right):
                if isinstance(side, E.AsBoolean):
                    f2 = True
    if f3:
        out.append("between-bound-ungrouped")
    if f2:
        out.append("asboolean-operand-ungrouped")
    return out


# ------------------------------------------------------------------ live tier
def _run(conn, stmt):
    import sqlite3

    from sqlalchemy import exc

    try:
        res = conn.execute(stmt)
        try:
            rows = res.cursor.fetchall()  # raw DBAPI rows; SQLite evaluates lazily, so errors can surface here
        finally:
            res.close()
        return ("ok", [[type(v).__name__ + ":" + repr(v) for v in r] for r in rows])
    except exc.DBAPIError as e:
        return ("err", type(e.orig).__name__, str(e.orig))
    except sqlite3.Error as e:
        return ("err", type(e).__name__, str(e))


def _nontrivial(tree, nat):
    from sqlalchemy.sql import elements as E, visitors

    classes = {X.prec_class(n) for n in X.walk(tree)} - {None}
    has_group = any(isinstance(el, E.Grouping) for el in visitors.iterate(nat))
    flattened = any(isinstance(el, E.ExpressionClauseList) and len(el.clauses) > 2 for el in visitors.iterate(nat))
    neg_rw = any(n[0] == "not" and n[2][0] in ("cmp", "like", "in", "inx", "btw", "isn", "is") for n in X.walk(tree))
    neg_chain = any(depth >= 2 for depth, _ in X.negchains(tree))
    return (len(classes) >= 2 and has_group) or neg_rw or neg_chain, has_group, neg_rw, flattened


def _neg_classes(tree):
    out = set()
    for depth, kind in X.negchains(tree):
        out.add("negchain-depth:%d" % min(depth, 4))
        if depth >= 2:
            out.add("negchain>=2-over:" + kind)
        if depth >= 3 and kind in ("col", "lit", "case", "scase", "cast", "fn", "ssq", "collapse"):
            out.add("negchain>=3-over-asboolean-atom")
    return sorted(out)


def check_live(case, ctx):
    import sqlalchemy as sa
    from vf import sautil

    tree = X.normalise(case["expr"])
    rows = case["rows"]
    pinned = bool(case.get("pinned"))
    md = sa.MetaData()
    t = X.make_table(md)
    b = X.Builder(t)
    with warnings.catch_warnings():
        warnings.simplefilter("error", sa.exc.SADeprecationWarning)
        nat = b.natural(tree)
        exp = b.explicit(tree)
    trig = triggers(tree, nat)
    if trig and not pinned:
        for tr in trig:
            ctx.exclude(tr)
        ctx.note(case, False, classes=["excluded"])
        return
    nontrivial, has_group, neg_rw, flattened = _nontrivial(tree, nat)
    cls = ["root:" + tree[1], "depth:%d" % min(X.depth(tree), 7), "rows:%d" % min(len(rows), 3)] + _neg_classes(tree)
    if has_group:
        cls.append("auto-grouping")
    if neg_rw:
        cls.append("negation-rewrite")
    if flattened:
        cls.append("assoc-flattened")

    eng = sautil.mem_engine()
    try:
        with eng.connect() as conn:
            md.create_all(conn)
            if rows:
                conn.execute(t.insert(), X.row_dicts(rows))
            E = sa.sql.elements
            sn = sa.select(t.c.id, nat.label("v")).order_by(t.c.id)
            se = sa.select(t.c.id, E.Grouping(exp).label("v")).order_by(t.c.id)
            rn, re_ = _run(conn, sn), _run(conn, se)
            results = [("select", rn, re_, sn, se)]
            if tree[1] == "b":
                wn = sa.select(t.c.id).where(nat).order_by(t.c.id)
                we = sa.select(t.c.id).where(E.Grouping(exp)).order_by(t.c.id)
                results.append(("where", _run(conn, wn), _run(conn, we), wn, we))
            if any(r[1][0] == "err" for r in results):
                cls.append("dbapi-error")
            elif rows and any("NoneType:None" in row[1] for row in rn[1]):
                cls.append("null-result")
            ctx.note({"expr": tree, "rows": rows}, nontrivial, classes=cls)
            for pos, a, e, stmt, stmt_e in results:
                if a[0] == "err" and e[0] == "err" and a[1] == e[1]:
                    if "syntax error" in a[2] or "syntax error" in e[2]:
                        raise Violation("C01/sqlite/syntax-error-both", f"both renderings are rejected by the backend: {a[2]}", observed=[a, e])
                    ctx.info("both-raise:" + a[1] + ":" + a[2][:48])
                    continue
                if a == e:
                    continue
                if (a[0] == "err") != (e[0] == "err"):
                    msg = a[2] if a[0] == "err" else e[2]
                    if "user-defined function raised exception" in msg:
                        ctx.info("floor-udf-one-sided")
                        continue
                sql = str(stmt.compile(eng))
                kind = trig[0] if trig else ("select-value-mismatch" if pos == "select" else "where-rowset-mismatch")
                raise Violation(
                    ("C01/" + kind) if trig else ("C01/sqlite/" + kind),
                    f"natural rendering and fully parenthesised rendering disagree in {pos} position: {sql!r}",
                    observed={"natural": a, "sql": sql},
                    expected={"explicit": e, "sql": str(stmt_e.compile(eng))},
                )
    finally:
        eng.dispose()


@st.composite
def _live_cases(draw, max_depth):
    return {"expr": draw(X.trees(max_depth=max_depth)), "rows": draw(X.rows(max_rows=5, min_rows=2))}


# ------------------------------------------------------------------ grammar tier
GRAMMAR_DIALECTS = ["sqlite", "postgresql", "mysql", "mariadb", "mssql", "oracle"]
# shapes whose two renderings differ by more than parentheses / flattening / negation identities and are judged live only:
# true()/false() folding in and_/or_, the empty-IN expression (C07), COLLATE (binds tighter than || in every grammar while
# SQLAlchemy gives it precedence 4; harmless because collation derivation propagates), SQLite's general IS <expr>
_G_PROFILE = {"consts": False, "empty_in": False, "collate": False, "is_expr": False}
# SQL Server and Oracle (< 23) have no boolean value type: predicates only in CASE WHEN / WHERE positions
_G_PROFILE_NOBOOL = dict(_G_PROFILE, bool_values=False)


def _dialect(name):
    from sqlalchemy.dialects import mssql, mysql, oracle, postgresql, sqlite

    if name == "mariadb":
        from sqlalchemy.dialects.mysql import mariadb

        return mariadb.MariaDBDialect()
    return {"sqlite": sqlite, "postgresql": postgresql, "mysql": mysql, "mssql": mssql, "oracle": oracle}[name].dialect()


def grammar_triggers(tree, nat, dname):
    """confirmed grammar-tier root causes (classification / exclusion only)"""
    out = []
    for n in X.walk(tree):
        if dname == "postgresql" and n[0] in ("ar",) and any(c[0] == "bnot" for c in (n[3], n[4])):
            out.append("postgresql/bitwise-not-operand-ungrouped")
        if dname in ("mysql", "mariadb") and n[0] == "bw" and n[2] == "bxor" and any(c[0] == "ar" and c[2] in ("mul", "truediv", "floordiv", "mod") for c in (n[3], n[4])):
            out.append(dname + "/xor-binds-tighter-than-mul")
    return sorted(set(out))


def check_grammar(case, ctx):
    import sqlalchemy as sa
    from checks import _sqlparse as P

    dname = case["dialect"]
    tree = X.normalise(case["expr"])
    pinned = bool(case.get("pinned"))
    md = sa.MetaData()
    t = X.make_table(md)
    b = X.Builder(t)
    with warnings.catch_warnings():
        warnings.simplefilter("error", sa.exc.SADeprecationWarning)
        nat = b.natural(tree)
        exp = b.explicit(tree)
    trig = triggers(tree, nat) + grammar_triggers(tree, nat, dname)
    if trig and not pinned:
        for tr in trig:
            ctx.exclude(tr)
        ctx.note(case, False, classes=["excluded"])
        return
    nontrivial, has_group, neg_rw, flattened = _nontrivial(tree, nat)
    cls = ["dialect:" + dname, "root:" + tree[1]] + _neg_classes(tree)
    if has_group:
        cls.append("auto-grouping")
    if neg_rw:
        cls.append("negation-rewrite")
    ctx.note({"expr": tree, "dialect": dname}, nontrivial, classes=cls)

    d = _dialect(dname)
    spec = P.SPECS[dname]
    forms = []
    for el in (nat, sa.sql.elements.Grouping(exp)):
        with warnings.catch_warnings():
            warnings.simplefilter("ignore", sa.exc.SAWarning)  # e.g. "Datatype FLOAT does not support CAST on MySQL; the CAST will be skipped"
            c = el.compile(dialect=d, compile_kwargs={"render_postcompile": True})
        sql = str(c)
        params = c.params
        pos = list(c.positiontup) if c.positiontup else None

        def resolve(key, params=params, pos=pos):
            if isinstance(key, int):
                return repr(params[pos[key]])
            return repr(params[key])

        forms.append((sql, c, resolve))
    kind = trig[0] if trig else None
    parsed = []
    for which, (sql, c, resolve) in zip(("natural", "explicit"), forms):
        try:
            ast = P.parse(sql, spec)
        except P.ParseError as e:
            if which == "explicit":
                from vf.api import HarnessError

                raise HarnessError(f"grammar engine cannot parse the fully parenthesised {dname} rendering {sql!r}: {e}")
            raise Violation(
                "C01/" + (kind or dname + "/natural-rendering-unparseable"),
                f"natural {dname} rendering is not parseable by the vendor grammar model ({e}): {sql!r}",
                observed=sql, expected=forms[1][0],
            )
        parsed.append((ast, P.canon(ast, spec, resolve)))
    if parsed[0][1] != parsed[1][1]:
        raise Violation(
            "C01/" + (kind or dname + "/parse-tree-mismatch"),
            f"under the {dname} precedence table the natural rendering parses to a different tree than the fully parenthesised one: {forms[0][0]!r}",
            observed={"natural": forms[0][0], "parsed_as": P.render(parsed[0][0])},
            expected={"explicit": forms[1][0]},
        )
    if dname == "sqlite" and "POSTCOMPILE" in forms[0][0]:
        # the sqlite IS [NOT] DISTINCT FROM visitor drops compile kwargs, so an IN below it is not expanded at compile time
        ctx.info("sqlite-engine-validation-skipped-postcompile")
    elif dname == "sqlite":
        # engine validation: the parse tree (SQLite table) re-rendered fully parenthesised must evaluate like the original text
        from vf import sautil

        sql, c, _ = forms[0]
        args = [c.params[n] for n in c.positiontup]
        again = P.render(parsed[0][0])
        eng = sautil.mem_engine()
        try:
            with eng.connect() as conn:
                md.create_all(conn)
                conn.execute(t.insert(), X.row_dicts(case.get("rows") or [[1, 2, 0.5, "a", "b", True, False]]))
                raw = conn.connection.dbapi_connection
                res = []
                for text in (sql, again):
                    try:
                        res.append(("ok", raw.execute(f"SELECT id, {text} FROM t ORDER BY id", args).fetchall()))
                    except Exception as e:  # noqa: BLE001 - DBAPI error text is the observation
                        res.append(("err", type(e).__name__, str(e)[:60]))
                ctx.info("sqlite-engine-validated")
                if res[0] != res[1] and not (res[0][0] == "err" and res[1][0] == "err"):
                    from vf.api import HarnessError

                    raise HarnessError(f"grammar engine disagrees with live SQLite: {sql!r} -> {again!r}: {res}")
        finally:
            eng.dispose()


def _adapt(n, dname):
    """operators the dialect documents as unsupported are replaced (CompileError by contract / no such operator):
    oracle has no bitwise NOT / shifts, SQL Server (< 2022) has no << >>"""
    if not isinstance(n, list):
        return n
    out = [_adapt(c, dname) for c in n]
    if dname == "oracle" and out and out[0] == "bnot":
        out[0] = "neg"
    if dname in ("mssql", "oracle") and out and out[0] == "bw" and out[2] in ("lshift", "rshift"):
        out[2] = "band"
    return out


@st.composite
def _grammar_cases(draw, max_depth):
    dname = draw(st.sampled_from(GRAMMAR_DIALECTS))
    if dname in ("mssql", "oracle"):
        tree = draw(X.trees(max_depth=max_depth, root_types=("i", "f", "s"), profile=_G_PROFILE_NOBOOL))
    else:
        tree = draw(X.trees(max_depth=max_depth, profile=_G_PROFILE))
    tree = _adapt(tree, dname)
    case = {"expr": tree, "dialect": dname}
    if dname == "sqlite":
        case["rows"] = draw(X.rows(max_rows=3, min_rows=1))
    return case


def subs(tier):
    md = 5 if tier == "quick" else 7
    return [
        Generated("live", check_live, strategy=_live_cases(md), quick=4000, thorough=300000),
        Generated("grammar", check_grammar, strategy=_grammar_cases(md), quick=4000, thorough=300000),
    ]
