"""C30 - flush writes exactly the in-memory object graph to the database.

History programs over the E-ORM mapping universe (checks/_orm_flush.py).  After
every flush (explicit, autoflush, begin_nested) the rows read through the
session's own DBAPI connection, and after every commit / rollback the rows read
through an independent sqlite3 connection, must equal the projection of the
harness' reference model of the object graph; loaded ``__dict__`` state of the
real objects must agree with that model; at every commit a fresh Session
reloads everything and the loaded graph must be isomorphic to the rows.
"""
from __future__ import annotations

from hypothesis import strategies as st

from checks import _orm_flush as E
from vf.api import Enumerated, Generated

PROPERTY = "C30"
LEVEL = "exploration"
RULE = (
    "case = drawn mapping config (Parent/Child(+joined SubChild)/Tag or adjacency Node; list/set collections; backref, back_populates, "
    "one-sided; cascade default/delete/all/all+delete-orphan; nullable or NOT NULL FK; natural mutable PK passive/orm; post_update favourite; "
    "FK enforcement on/off; autoflush on/off) + history of <=40 ops over <=8 objects (operands by index mod eligible count). "
    "Non-trivial: some flush contained >=2 different operation kinds over >=2 mappers, or a primary-key change of a persistent row, or a "
    "collection replacement that changed membership; distinct = canonical JSON of (config, ops)"
)
ASSUMPTIONS = [
    "SQLite only (file database, non-legacy transaction mode); PostgreSQL/MariaDB are not live in this sandbox",
    "the reference model of flush/cascade/rollback semantics in checks/_orm_flush.py is trusted; rows are read with plain sqlite3 calls and "
    "compared as a graph keyed by an immutable uid column (autoincrement keys never enter the oracle)",
    "programs never assign foreign-key column attributes directly (documented as not synchronising with relationships)",
    "an out-of-session object that initiates an association with an in-session object is add()ed first (backref cascade was removed in 2.0); "
    "session.add() is only applied to transient/detached objects",
    "the old parent is read before re-parenting a persistent child (otherwise the old collection is documented to go stale and the unit of "
    "work cannot order deletes against the old parent); without a backref a move is remove-from-old + append-to-new with the target loaded first",
    "delete() is generated only where the application has made it well-defined: children persistent and already flushed under that parent, "
    "associations of the deleted row already flushed, no many-to-one-only / one-directional many-to-many referrers, favourite cleared first "
    "unless its holder is deleted too, no unflushed key switch on the row; an object appended to a collection in the same flush is not "
    "deleted (documented-by-code: register_object(cancel_delete=True)); new natural keys are always fresh names",
    "delete-orphan: orphaning is generated for flushed associations only; a transient child removed from a transient parent is dropped",
    "expunge only of objects with no relationships whose row the open transaction did not change (flushing first); detached objects take no "
    "part in relationship operations; objects expunged by a rollback or as pending orphans are discarded; expire is preceded by a flush",
    "NOT NULL FK configs run with autoflush off and give every parentless child a parent (or discard it) before each flush; with autoflush "
    "off a collection is loaded before the owner's natural key is switched",
    "UNIQUE columns (Tag/Node: code; composite (ga, gb)) and natural keys: a value is taken only if nobody else holds it in memory; a value a "
    "row still holds in the database may be taken in the same flush only by a *pending* object of the same table from a persistent, "
    "not-deleted row that gave it up (UPDATE-before-INSERT is what the unit of work does inside one mapper save batch; DELETEs come last, "
    "self-referential mappers are flushed state by state: neither is asserted); out-of-session objects carry no UNIQUE values; with ON UPDATE "
    "CASCADE only childless rows hand their key over",
    "known findings excluded by construction (pinned replays in findings/C30): pending child moved between parents under delete-orphan; "
    "delete cascade of an orphan lost when the former parent is deleted too; CircularDependencyError on adjacency-list re-arrangement",
]

C30_CODES = [
    "hand", "hand", "hand", "ucode", "ucode", "new", "add", "set", "set", "append", "append", "append", "remove", "remove", "replace", "replace", "clear",
    "setparent", "setparent", "setparent", "clearparent", "tagadd", "tagadd", "tagremove", "tagremove", "pk", "pk", "pk", "fav",
    "delete", "delete", "delete", "expunge", "merge", "merge", "flush", "flush", "flush", "flush", "commit", "commit", "rollback",
    "expire", "read",
]


@st.composite
def _cases(draw):
    return {"cfg": draw(E.cfg_strategy("c30")), "ops": draw(E.ops_strategy(C30_CODES))}


def check(case, ctx):
    holder = []
    try:
        E.run_program(case, ctx, holder=holder, prop="C30")
    finally:
        _note(case, ctx, holder[0] if holder else None)


def _note(case, ctx, it):
    if it is None:
        ctx.note(case, False, classes=["raised"])
        return
    cls = sorted(it.classes)
    nontrivial = bool({"mixed-flush", "pk-change-flush", "replace-flush"} & it.classes)
    cfg = it.U.cfg
    cls += [f"fam={cfg['fam']}", f"bidir={cfg['bidir']}", f"cascade={cfg['cascade']}"]
    if cfg.get("natpk"):
        cls.append(f"natpk={cfg['natpk']}")
    if cfg.get("inh"):
        cls.append("inheritance")
    if not cfg.get("fk_nullable", True):
        cls.append("fk-not-null")
    if cfg["fk_on"]:
        cls.append("fk-enforced")
    if it.counters["skipped"] * 2 > it.counters["ops"]:
        cls.append("more-than-half-ops-skipped")
    ctx.info("flush_points_compared", it.counters["flush_checks"])
    ctx.info("fresh_session_reloads", it.counters.get("reloads", 0))
    ctx.info("ops_executed", it.counters["ops"] - it.counters["skipped"])
    ctx.info("ops_skipped", it.counters["skipped"])
    for w in set(it.warnings):
        ctx.info("warning: " + w)
    ctx.note(case, nontrivial, classes=cls)


def subs(tier):
    return [
        Generated("histories", check, strategy=_cases(), quick=640, thorough=60000, budget_s_quick=90.0),
    ]
