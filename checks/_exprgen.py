"""Abstract typed expression trees -> SQLAlchemy constructs (shared by C01 and friends).

A tree is JSON-able: ``[kind, type, ...]`` with type in {"i","f","s","b"}.
One tree can be built two ways:

* ``Builder.natural(tree)``  - Python operators / public constructors, so that
  precedence grouping, associative flattening and negation rewriting are active;
* ``Builder.explicit(tree)`` - every operand wrapped in ``elements.Grouping``;
  operator nodes are constructed directly (``BinaryExpression`` /
  ``BooleanClauseList._construct_raw`` / ``UnaryExpression(NOT)``) so nothing is
  flattened or rewritten.

Node kinds
    ["col", t, name]                 column of the fixed table
    ["lit", t, value]                bound literal (never None)
    ["null", t]                      CAST(NULL AS T)
    ["const", "b", bool]             true() / false()
    ["neg", t, x]                    -x
    ["bnot", "i", x]                 ~x (bitwise)
    ["ar", t, op, l, r]              add sub mul truediv floordiv mod
    ["bw", "i", op, l, r]            band bor bxor lshift rshift
    ["cat", "s", l, r]               l || r
    ["cmp", "b", op, l, r]           eq ne lt le gt ge isd isnd
    ["isn", "b", x, negated]         x IS [NOT] NULL
    ["is", "b", l, r, negated]       l IS [NOT] r  (r an expression; SQLite's general IS)
    ["and"|"or", "b", [xs]]
    ["not", "b", x]
    ["btw", "b", x, lo, hi]
    ["like", "b", kind, x, pat, esc] kind: like not_like ilike not_ilike; esc: str|None
    ["in", "b", x, [python values], negated]      expanding bind
    ["inx", "b", x, [exprs], negated]             IN (expr, expr, ...)
    ["case", t, [[cond, val], ...], else|None]    searched CASE
    ["scase", t, x, [[python value, val], ...], else|None]   simple CASE x WHEN v THEN ..
    ["cast", t, x]
    ["coll", "s", x, collation]
    ["ssq", t, x]                    (SELECT x)  correlated scalar subquery
    ["exists", "b", c]               EXISTS (SELECT 1 WHERE c)
    ["fn", t, name, [args]]          coalesce abs lower upper length
"""
from __future__ import annotations

from hypothesis import strategies as st

TYPES = ("i", "f", "s", "b")
COLS = {"i": ["i1", "i2"], "f": ["f1"], "s": ["s1", "s2"], "b": ["b1", "b2"]}
COL_ORDER = ["i1", "i2", "f1", "s1", "s2", "b1", "b2"]
COL_TYPE = {"i1": "i", "i2": "i", "f1": "f", "s1": "s", "s2": "s", "b1": "b", "b2": "b"}

INT_VALUES = [0, 1, -1, 2, 3, -2, 5, 7, 10, -10, 100, 999999, -1000000, 1000000]
STR_ALPHA = ["a", "A", "b", "%", "_", "/", "'", " "]

ARITH = ["add", "sub", "mul", "truediv", "floordiv", "mod"]
BITW = ["band", "bor", "bxor", "lshift", "rshift"]
CMPS = ["eq", "ne", "lt", "le", "gt", "ge", "isd", "isnd"]
LIKES = ["like", "not_like", "ilike", "not_ilike"]


# ------------------------------------------------------------------ strategies
def _ints():
    return st.one_of(st.sampled_from(INT_VALUES), st.integers(-20, 20), st.integers(-(10**6), 10**6))


def _floats():
    # multiples of 0.25 with |v| < 2**20: exact in binary64, sums/products of a few stay exact
    return st.one_of(st.sampled_from([0.0, 0.25, -0.5, 1.0, 1.5, -2.0, 2.75, 4.0]), st.integers(-(2**22) + 1, 2**22 - 1).map(lambda k: k / 4.0))


def _strs():
    return st.lists(st.sampled_from(STR_ALPHA), max_size=4).map("".join)


def _pyval(t):
    if t == "i":
        return _ints()
    if t == "f":
        return _floats()
    if t == "s":
        return _strs()
    return st.booleans()


def rows(max_rows=6, min_rows=0):
    """rows for the fixed table: [i1, i2, f1, s1, s2, b1, b2].  The first row never holds NULL (NULL
    absorbs most operators, so an all-nullable table would mask differences); the others hold NULL in
    about one cell out of five."""

    def dense(t):
        return _pyval(t)

    def cell(t):
        return st.integers(0, 4).flatmap(lambda k, t=t: st.none() if k == 0 else _pyval(t))

    first = st.tuples(*[dense(COL_TYPE[c]) for c in COL_ORDER]).map(list)
    rest = st.lists(st.tuples(*[cell(COL_TYPE[c]) for c in COL_ORDER]).map(list), min_size=max(min_rows - 1, 0), max_size=max(max_rows - 1, 0))
    return st.tuples(first, rest).map(lambda fr: [fr[0]] + fr[1])


@st.composite
def _leaf(draw, t, prof=None):
    prof = prof or {}
    if t == "b" and not prof.get("bool_values", True):
        # backends without a boolean value type: the smallest boolean is a predicate over non-boolean atoms
        tt = draw(st.sampled_from(["i", "s", "f"]))
        if draw(st.integers(0, 3)) == 0:
            return ["isn", "b", draw(_leaf(tt, prof)), draw(st.booleans())]
        return ["cmp", "b", draw(st.sampled_from(CMPS[:6])), draw(_leaf(tt, prof)), draw(_leaf(tt, prof))]
    k = draw(st.integers(0, 19))
    if k == 18 and t == "b" and not prof.get("consts", True):
        k = 0
    if k <= 10:
        return ["col", t, draw(st.sampled_from(COLS[t]))]
    if k <= 17:
        return ["lit", t, draw(_pyval(t))]
    if k == 18 and t == "b":
        return ["const", "b", draw(st.booleans())]
    if k == 18:
        return ["lit", t, draw(_pyval(t))]
    return ["null", t]


@st.composite
def _num(draw, t, d, prof, force=False):
    if d <= 0 or (not force and draw(st.integers(0, 9)) < 2):
        return draw(_leaf(t, prof))
    k = draw(st.integers(0, 19))
    sub = lambda tt: draw(_tree(tt, d - 1, prof))  # noqa: E731
    if k <= 8:
        return draw(_ar(t, d, prof))
    if k <= 10:
        return ["neg", t, sub(t)]
    if k == 11:
        if t == "i":
            if draw(st.booleans()):
                return ["bnot", "i", sub("i")]
            op = draw(st.sampled_from(BITW))
            r = ["lit", "i", draw(st.integers(0, 5))] if op in ("lshift", "rshift") else sub("i")
            return ["bw", "i", op, sub("i"), r]
        return ["cast", "f", sub("i")]
    if k == 12:
        if t == "i":
            op = draw(st.sampled_from(BITW))
            r = ["lit", "i", draw(st.integers(0, 5))] if op in ("lshift", "rshift") else sub("i")
            return ["bw", "i", op, sub("i"), r]
        return ["ar", "f", "truediv", sub("i"), sub("i")]
    if k == 13:
        return draw(_case(t, d, prof))
    if k == 14:
        src = draw(st.sampled_from((["f", "b", "s"] if prof.get("bool_values", True) else ["f", "s"]) if t == "i" else ["i"]))
        return ["cast", t, sub(src)]
    if k == 15:
        return ["ssq", t, sub(t)]
    if k == 16:
        return ["fn", t, "coalesce", [sub(t), sub(t)]]
    if k == 17:
        return ["fn", t, "abs", [sub(t)]]
    if k == 18 and t == "i":
        return ["fn", "i", "length", [sub("s")]]
    return draw(_scase(t, d, prof))


@st.composite
def _ar(draw, t, d, prof):
    """arithmetic node; one operand in three is itself forced to be arithmetic (nesting of equal /
    different precedence classes on either side is what grouping decisions are about)"""
    op = draw(st.sampled_from(ARITH))

    def operand(tt):
        if d - 1 >= 1 and draw(st.integers(0, 2)) == 0:
            return draw(_ar(tt, d - 1, prof))
        return draw(_tree(tt, d - 1, prof))

    if t == "i":
        if op == "truediv":
            op = draw(st.sampled_from(["add", "sub", "mul", "floordiv", "mod"]))
        return ["ar", "i", op, operand("i"), operand("i")]
    lt, rt = draw(st.sampled_from([("f", "f"), ("i", "f"), ("f", "i"), ("i", "i")]))
    if (lt, rt) == ("i", "i") and op != "truediv":
        lt = "f"
    return ["ar", "f", op, operand(lt), operand(rt)]


@st.composite
def _str(draw, d, prof, force=False):
    if d <= 0 or (not force and draw(st.integers(0, 9)) < 3):
        return draw(_leaf("s", prof))
    k = draw(st.integers(0, 11))
    sub = lambda tt: draw(_tree(tt, d - 1, prof))  # noqa: E731
    if k <= 4:
        return ["cat", "s", sub("s"), sub("s")]
    if k == 5:
        return draw(_case("s", d, prof))
    if k == 6:
        return ["cast", "s", sub("i")]
    if k == 7:
        return ["fn", "s", draw(st.sampled_from(["lower", "upper"])), [sub("s")]]
    if k == 8:
        return ["fn", "s", "coalesce", [sub("s"), sub("s")]]
    if k == 9:
        return ["ssq", "s", sub("s")]
    if k == 10 and prof.get("collate", True):
        return ["coll", "s", sub("s"), draw(st.sampled_from(["NOCASE", "BINARY", "RTRIM"]))]
    return draw(_scase("s", d, prof))


@st.composite
def _case(draw, t, d, prof):
    n = draw(st.integers(1, 2))
    whens = [[draw(_tree("b", d - 1, prof)), draw(_tree(t, d - 1, prof))] for _ in range(n)]
    els = draw(_tree(t, d - 1, prof)) if draw(st.booleans()) else None
    return ["case", t, whens, els]


@st.composite
def _scase(draw, t, d, prof):
    vt = draw(st.sampled_from(["i", "s", "b"] if prof.get("bool_values", True) else ["i", "s"]))
    x = draw(_tree(vt, d - 1, prof))
    n = draw(st.integers(1, 2))
    seen, whens = set(), []
    for _ in range(n):
        v = draw(_pyval(vt))
        if repr(v) in seen:
            continue
        seen.add(repr(v))
        whens.append([v, draw(_tree(t, d - 1, prof))])
    els = draw(_tree(t, d - 1, prof)) if draw(st.booleans()) else None
    return ["scase", t, x, whens, els]


NEG_ATOMS = ["col", "lit", "case", "scase", "cast", "fn", "ssq", "cmp", "isn", "collapse_and", "collapse_or", "exists"]


@st.composite
def _negchain(draw, d, prof):
    """1-4 nested NOTs over one boolean-typed atom of every kind: Boolean column / bound literal, boolean-typed
    CASE / CAST / function / scalar subquery (all negate through AsBoolean), comparison / IS NULL (negation rewrite),
    EXISTS, and and_/or_ whose true()/false() members make it collapse to the single remaining atom"""
    bv = prof.get("bool_values", True)
    kinds = NEG_ATOMS if bv else ["cmp", "isn", "exists"]
    if not prof.get("consts", True):
        kinds = [k for k in kinds if not k.startswith("collapse")]
    kind = draw(st.sampled_from(kinds))
    leaf = lambda t: draw(_leaf(t, prof))  # noqa: E731
    bcol = lambda: ["col", "b", draw(st.sampled_from(COLS["b"]))]  # noqa: E731
    if kind == "col":
        atom = bcol()
    elif kind == "lit":
        atom = ["lit", "b", draw(st.booleans())]
    elif kind == "case":
        atom = ["case", "b", [[["cmp", "b", draw(st.sampled_from(CMPS[:6])), leaf("i"), leaf("i")], bcol()]], bcol() if draw(st.booleans()) else None]
    elif kind == "scase":
        atom = ["scase", "b", leaf("i"), [[draw(st.integers(0, 2)), bcol()]], bcol() if draw(st.booleans()) else None]
    elif kind == "cast":
        atom = ["cast", "b", bcol()]
    elif kind == "fn":
        atom = ["fn", "b", "coalesce", [bcol(), bcol()]]
    elif kind == "ssq":
        atom = ["ssq", "b", bcol()]
    elif kind == "cmp":
        tt = draw(st.sampled_from(["i", "s", "f"]))
        left = leaf(tt)
        atom = ["cmp", "b", draw(st.sampled_from(CMPS)), left, left if draw(st.integers(0, 3)) == 0 else leaf(tt)]
    elif kind == "isn":
        atom = ["isn", "b", leaf(draw(st.sampled_from(TYPES[:3]))), draw(st.booleans())]
    elif kind == "exists":
        tt = draw(st.sampled_from(["i", "s"]))
        atom = ["exists", "b", ["cmp", "b", draw(st.sampled_from(CMPS[:6])), leaf(tt), leaf(tt)]]
    else:
        inner = bcol() if draw(st.booleans()) else ["fn", "b", "coalesce", [bcol(), bcol()]]
        members = [["const", "b", kind == "collapse_and"], inner]
        if draw(st.booleans()):
            members.reverse()
        if draw(st.integers(0, 2)) == 0:
            members.append(["const", "b", kind == "collapse_and"])
        atom = ["and" if kind == "collapse_and" else "or", "b", members]
    out = atom
    for _ in range(draw(st.sampled_from([1, 2, 2, 3, 3, 4]))):
        out = ["not", "b", out]
    return out


def negchains(tree):
    """[(depth, base kind)] of every maximal chain of NOT nodes in the tree"""
    out = []

    def rec(n, parent_is_not):
        if n[0] == "not" and not parent_is_not:
            depth, b = 0, n
            while b[0] == "not":
                depth += 1
                b = b[2]
            kind = b[0]
            if kind in ("and", "or") and any(c[0] == "const" for c in b[2]):
                kind = "collapse"
            out.append((depth, kind))
        for c in children(n):
            rec(c, n[0] == "not")

    rec(tree, False)
    return out


@st.composite
def _bool(draw, d, prof, force=False):
    if d <= 0 or (not force and draw(st.integers(0, 19)) < 3):
        return draw(_leaf("b", prof))
    k = draw(st.integers(0, 35))
    if k >= 30:
        return draw(_negchain(d, prof))
    if prof.get("_rewritable"):
        prof = {kk: v for kk, v in prof.items() if kk != "_rewritable"}
        k = draw(st.sampled_from([0, 1, 2, 3, 16, 18, 20, 22, 24]))
    sub = lambda tt: draw(_tree(tt, d - 1, prof))  # noqa: E731
    bv = prof.get("bool_values", True)
    if not bv and k in (25, 27, 29):
        k = 0
    if k <= 6:
        op = draw(st.sampled_from(CMPS))
        tt = draw(st.sampled_from(["i", "i", "f", "s", "b" if bv else "s", "n"]))
        if tt == "n":
            lt, rt = draw(st.sampled_from([("i", "f"), ("f", "i")]))
        else:
            lt = rt = tt
        left = sub(lt)
        # equal operands one time in four: boundary of < vs <=, = vs !=
        right = left if (lt == rt and draw(st.integers(0, 3)) == 0) else sub(rt)
        return ["cmp", "b", op, left, right]
    if k <= 10:
        n = draw(st.integers(2, 3))
        kind = draw(st.sampled_from(["and", "or"]))
        xs = [sub("b") for _ in range(n)]
        if d - 1 >= 1 and draw(st.booleans()):
            other = "or" if kind == "and" else "and"
            xs[draw(st.integers(0, n - 1))] = [other, "b", [sub("b"), sub("b")]]
        return [kind, "b", xs]
    if k <= 15:
        if d - 1 >= 1 and draw(st.booleans()):
            # NOT directly over something the expression language rewrites instead of wrapping
            return ["not", "b", draw(_bool(d - 1, dict(prof, _rewritable=True), True))]
        return ["not", "b", sub("b")]
    if k <= 17:
        return ["isn", "b", sub(draw(st.sampled_from(TYPES if bv else TYPES[:3]))), draw(st.booleans())]
    if k <= 19:
        tt = draw(st.sampled_from(["i", "f", "s", "i", "b" if bv else "i"]))
        return ["btw", "b", sub(tt), sub(tt), sub(tt)]
    if k <= 21:
        esc = draw(st.sampled_from([None, None, "/", "a", "%"]))
        return ["like", "b", draw(st.sampled_from(LIKES)), sub("s"), sub("s"), esc]
    if k <= 23:
        tt = draw(st.sampled_from(["i", "s", "b" if bv else "i"]))
        vals = draw(st.lists(_pyval(tt), min_size=0 if prof.get("empty_in", True) else 1, max_size=3))
        return ["in", "b", sub(tt), vals, draw(st.booleans())]
    if k == 24:
        tt = draw(st.sampled_from(["i", "s", "b" if bv else "s"]))
        n = draw(st.integers(1, 3))
        return ["inx", "b", sub(tt), [sub(tt) for _ in range(n)], draw(st.booleans())]
    if k == 25:
        return draw(_case("b", d, prof))
    if k == 26:
        return ["exists", "b", sub("b")]
    if k == 27:
        j = draw(st.integers(0, 3))
        if j == 0:
            return ["ssq", "b", sub("b")]
        if j == 1:
            return ["fn", "b", "coalesce", [sub("b"), sub("b")]]
        if j == 2:
            return ["cmp", "b", "eq", ["cast", "i", sub("b")], sub("i")]
        return draw(_scase("b", d, prof))
    if k == 28 and prof.get("is_expr", True):
        tt = draw(st.sampled_from(["i", "b" if bv else "i", "s"]))
        return ["is", "b", sub(tt), sub(tt), draw(st.booleans())]
    op = draw(st.sampled_from(CMPS))
    return ["cmp", "b", op, sub("b" if bv else "i"), sub("b" if bv else "i")]


def _tree(t, d, prof, force=False):
    if t == "b":
        return _bool(d, prof, force)
    if t == "s":
        return _str(d, prof, force)
    return _num(t, d, prof, force)


def trees(max_depth=5, root_types=("b", "b", "b", "i", "f", "s"), profile=None):
    """strategy of normalised typed trees"""
    prof = dict(profile or {})

    @st.composite
    def _root(draw):
        t = draw(st.sampled_from(list(root_types)))
        d = draw(st.integers(2, max_depth))
        return normalise(draw(_tree(t, d, prof, True)))

    return _root()


# ------------------------------------------------------------------ analysis
def children(n):
    """direct sub-trees of a node (in left-to-right source order)"""
    k = n[0]
    if k in ("col", "lit", "null", "const"):
        return []
    if k in ("neg", "bnot", "not", "cast", "ssq", "exists"):
        return [n[2]]
    if k in ("ar", "bw", "cmp"):
        return [n[3], n[4]]
    if k == "cat":
        return [n[2], n[3]]
    if k == "isn":
        return [n[2]]
    if k == "is":
        return [n[2], n[3]]
    if k in ("and", "or"):
        return list(n[2])
    if k == "btw":
        return [n[2], n[3], n[4]]
    if k == "like":
        return [n[3], n[4]]
    if k == "in":
        return [n[2]]
    if k == "inx":
        return [n[2]] + list(n[3])
    if k == "case":
        out = []
        for c, v in n[2]:
            out += [c, v]
        if n[3] is not None:
            out.append(n[3])
        return out
    if k == "scase":
        out = [n[2]] + [v for _, v in n[3]]
        if n[4] is not None:
            out.append(n[4])
        return out
    if k == "coll":
        return [n[2]]
    if k == "fn":
        return list(n[3])
    raise ValueError(f"unknown node kind {k!r}")


def walk(n):
    yield n
    for c in children(n):
        yield from walk(c)


def depth(n):
    cs = children(n)
    return 1 + (max(depth(c) for c in cs) if cs else 0)


def size(n):
    return sum(1 for _ in walk(n))


_BIG = float("inf")


def _bounds(n):
    """(exact, M, dbits): value is (when not NULL) a multiple of 2**-dbits with |v| <= M, computed
    without rounding on an IEEE double / int64 backend.  exact False = unknown."""
    k, t = n[0], n[1]
    if t not in ("i", "f"):
        return (False, _BIG, 0)
    if k == "col":
        return (True, 10**6, 0) if t == "i" else (True, 2**20, 2)
    if k == "lit":
        v = n[2]
        if t == "i":
            return (True, abs(int(v)), 0)
        return (True, abs(float(v)), 2)
    if k == "null":
        return (True, 0, 0)
    if k == "neg":
        return _bounds(n[2])
    if k == "bnot":
        e, m, d = _bounds(n[2])
        return (e and d == 0, m + 1, 0)
    if k == "ar":
        op = n[2]
        e1, m1, d1 = _bounds(n[3])
        e2, m2, d2 = _bounds(n[4])
        if not (e1 and e2):
            return (False, _BIG, 0)
        if op in ("add", "sub"):
            m, d = m1 + m2, max(d1, d2)
        elif op == "mul":
            m, d = m1 * m2, d1 + d2
        elif op in ("floordiv", "mod") and t == "i" and n[3][1] == "i" and n[4][1] == "i":
            m, d = m1, 0
        else:
            return (False, _BIG, 0)
        ok = m < _BIG and (m == 0 or (m.bit_length() if isinstance(m, int) else int(m).bit_length()) + d <= 52)
        return (ok, m, d) if ok else (False, _BIG, 0)
    if k == "bw":
        e1, m1, d1 = _bounds(n[3])
        e2, m2, d2 = _bounds(n[4])
        if not (e1 and e2) or d1 or d2:
            return (False, _BIG, 0)
        if n[2] in ("lshift",):
            m = int(m1) * 32
        else:
            m = 1 << (max(int(m1), int(m2)).bit_length() + 1)
        return (m.bit_length() <= 52, m, 0)
    if k in ("case", "scase", "fn", "ssq", "cast"):
        if k == "cast" and n[2][1] not in ("i", "f"):
            return (False, _BIG, 0)
        if k == "fn" and n[2] == "length":
            return (True, 64, 0)
        if k == "cast" and t == "i" and n[2][1] == "f":
            e, m, d = _bounds(n[2])
            return (e, m, 0)
        if k == "case":
            parts = [v for _, v in n[2]] + ([n[3]] if n[3] is not None else [])
        elif k == "scase":
            parts = [v for _, v in n[3]] + ([n[4]] if n[4] is not None else [])
        elif k == "fn":
            parts = list(n[3])
        else:
            parts = [n[2]]
        bs = [_bounds(p) for p in parts]
        if not all(b[0] for b in bs):
            return (False, _BIG, 0)
        return (True, max(b[1] for b in bs), max(b[2] for b in bs))
    return (False, _BIG, 0)


def folds_const(n):
    """True/False when the public constructors fold this boolean tree to the true()/false() singleton
    (not_(const), and_/or_ short-circuit on / dropping of constants), else None"""
    k = n[0]
    if k == "const":
        return bool(n[2])
    if k == "not":
        v = folds_const(n[2])
        return None if v is None else (not v)
    if k in ("and", "or"):
        vals = [folds_const(c) for c in n[2]]
        skip = k == "or"  # or_: true() wins, false() is dropped; and_: false() wins, true() is dropped
        if any(v is skip for v in vals):
            return skip
        if all(v is (not skip) for v in vals):
            return not skip
    return None


def normalise(n):
    """deterministic, idempotent rewrite that keeps the tree inside the sound value domain:
    an associative arithmetic node (add/mul) whose *right* operand is the same operator would be
    re-associated by SQLAlchemy's flattening; that is exact only when no rounding/overflow can
    occur, so when exactness cannot be shown the node's operator becomes ``sub``.  An ordering
    comparison against a true()/false() constant (rejected with ArgumentError by contract)
    becomes ``ne``."""
    k = n[0]
    if k in ("col", "lit", "null", "const"):
        return n
    out = list(n)
    if k in ("neg", "bnot", "not", "cast", "ssq", "exists", "isn", "coll"):
        out[2] = normalise(n[2])
    elif k in ("ar", "bw", "cmp"):
        out[3], out[4] = normalise(n[3]), normalise(n[4])
    elif k in ("cat", "is"):
        out[2], out[3] = normalise(n[2]), normalise(n[3])
    elif k in ("and", "or"):
        out[2] = [normalise(c) for c in n[2]]
    elif k == "btw":
        out[2], out[3], out[4] = normalise(n[2]), normalise(n[3]), normalise(n[4])
    elif k == "like":
        out[3], out[4] = normalise(n[3]), normalise(n[4])
    elif k == "in":
        out[2] = normalise(n[2])
    elif k == "inx":
        out[2] = normalise(n[2])
        out[3] = [normalise(c) for c in n[3]]
    elif k == "case":
        out[2] = [[normalise(c), normalise(v)] for c, v in n[2]]
        out[3] = normalise(n[3]) if n[3] is not None else None
    elif k == "scase":
        out[2] = normalise(n[2])
        out[3] = [[v, normalise(r)] for v, r in n[3]]
        out[4] = normalise(n[4]) if n[4] is not None else None
    elif k == "fn":
        out[3] = [normalise(c) for c in n[3]]
    else:
        raise ValueError(k)
    if k == "cmp" and folds_const(out[4]) is not None and out[2] in ("lt", "le", "gt", "ge"):
        # documented: only = != IS [NOT] [DISTINCT FROM] accept a true()/false()/null() right operand (ArgumentError otherwise)
        out[2] = "ne"
    if k == "ar" and out[2] in ("add", "mul"):
        r = out[4]
        if r[0] == "ar" and r[2] == out[2] and not _bounds(out)[0]:
            out[2] = "sub"
    return out


# precedence classes as SQLAlchemy declares them (operators._PRECEDENCE), for the non-trivial rule
def prec_class(n):
    k = n[0]
    if k in ("ar",):
        return 8 if n[2] in ("mul", "truediv", "floordiv", "mod") else 7
    if k in ("neg", "bnot"):
        return 8
    if k == "bw":
        return 7
    if k in ("cat", "cmp", "isn", "is", "btw", "like", "in", "inx", "not"):
        return 5
    if k == "coll":
        return 4
    if k == "and":
        return 3
    if k == "or":
        return 2
    return None


# ------------------------------------------------------------------ builders
class Builder:
    """builds SQLAlchemy constructs for trees over one Table ``t`` (see ``make_table``)"""

    def __init__(self, table):
        import sqlalchemy as sa
        from sqlalchemy.sql import elements, operators, sqltypes

        self.sa = sa
        self.t = table
        self.E = elements
        self.O = operators
        self.T = sqltypes
        self.types = {"i": sa.Integer, "f": sa.Float, "s": sa.String, "b": sa.Boolean}
        self.ops = {
            "add": operators.add, "sub": operators.sub, "mul": operators.mul, "truediv": operators.truediv,
            "floordiv": operators.floordiv, "mod": operators.mod,
            "band": operators.bitwise_and_op, "bor": operators.bitwise_or_op, "bxor": operators.bitwise_xor_op,
            "lshift": operators.bitwise_lshift_op, "rshift": operators.bitwise_rshift_op,
            "eq": operators.eq, "ne": operators.ne, "lt": operators.lt, "le": operators.le, "gt": operators.gt,
            "ge": operators.ge, "isd": operators.is_distinct_from, "isnd": operators.is_not_distinct_from,
        }

    # -- leaves (identical in both renderings)
    def _leaf(self, n):
        sa = self.sa
        k, t = n[0], n[1]
        if k == "col":
            return self.t.c[n[2]]
        if k == "lit":
            return sa.literal(n[2], self.types[t]())
        if k == "null":
            return sa.cast(sa.null(), self.types[t]())
        if k == "const":
            return sa.true() if n[2] else sa.false()
        return None

    # -- natural: the public expression language
    def natural(self, n):
        sa, O = self.sa, self.O
        leaf = self._leaf(n)
        if leaf is not None:
            return leaf
        k, t = n[0], n[1]
        N = self.natural
        if k == "neg":
            return -N(n[2])
        if k == "bnot":
            return N(n[2]).bitwise_not()
        if k == "ar":
            l, r = N(n[3]), N(n[4])
            op = n[2]
            if op == "add":
                return l + r
            if op == "sub":
                return l - r
            if op == "mul":
                return l * r
            if op == "truediv":
                return l / r
            if op == "floordiv":
                return l // r
            return l % r
        if k == "bw":
            l, r = N(n[3]), N(n[4])
            return {"band": l.bitwise_and, "bor": l.bitwise_or, "bxor": l.bitwise_xor, "lshift": l.bitwise_lshift, "rshift": l.bitwise_rshift}[n[2]](r)
        if k == "cat":
            return N(n[2]).concat(N(n[3]))
        if k == "cmp":
            l, r = N(n[3]), N(n[4])
            op = n[2]
            if op == "isd":
                return l.is_distinct_from(r)
            if op == "isnd":
                return l.is_not_distinct_from(r)
            return self.ops[op](l, r)
        if k == "isn":
            return N(n[2]).is_not(None) if n[3] else N(n[2]).is_(None)
        if k == "is":
            return N(n[2]).is_not(N(n[3])) if n[4] else N(n[2]).is_(N(n[3]))
        if k == "and":
            return sa.and_(*[N(c) for c in n[2]])
        if k == "or":
            return sa.or_(*[N(c) for c in n[2]])
        if k == "not":
            return sa.not_(N(n[2]))
        if k == "btw":
            return N(n[2]).between(N(n[3]), N(n[4]))
        if k == "like":
            x, p = N(n[3]), N(n[4])
            return getattr(x, n[2])(p, escape=n[5])
        if k == "in":
            x = N(n[2])
            return x.not_in(list(n[3])) if n[4] else x.in_(list(n[3]))
        if k == "inx":
            x = N(n[2])
            vals = [N(c) for c in n[3]]
            return x.not_in(vals) if n[4] else x.in_(vals)
        if k == "case":
            whens = [(N(c), N(v)) for c, v in n[2]]
            return sa.case(*whens, else_=N(n[3])) if n[3] is not None else sa.case(*whens)
        if k == "scase":
            whens = {v: N(r) for v, r in n[3]}
            kw = {"else_": N(n[4])} if n[4] is not None else {}
            return sa.case(whens, value=N(n[2]), **kw)
        if k == "cast":
            return sa.cast(N(n[2]), self.types[t]())
        if k == "coll":
            return N(n[2]).collate(n[3])
        if k == "ssq":
            return sa.select(N(n[2])).correlate(self.t).scalar_subquery()
        if k == "exists":
            return sa.exists(sa.select(sa.literal_column("1")).where(N(n[2])).correlate(self.t))
        if k == "fn":
            return getattr(sa.func, n[2])(*[N(c) for c in n[3]])
        raise ValueError(k)

    # -- explicit: every operand in a Grouping, no flattening, no rewriting
    def G(self, n):
        return self.E.Grouping(self.explicit(n))

    def _not(self, el):
        return self.E.UnaryExpression(self.E.Grouping(el), operator=self.O.inv, type_=self.T.BOOLEANTYPE)

    def explicit(self, n):
        sa, O, E = self.sa, self.O, self.E
        leaf = self._leaf(n)
        if leaf is not None:
            return leaf
        k, t = n[0], n[1]
        G = self.G
        BOOL = self.T.BOOLEANTYPE
        if k == "neg":
            g = G(n[2])
            return E.UnaryExpression(g, operator=O.neg, type_=g.type)
        if k == "bnot":
            g = G(n[2])
            return E.UnaryExpression(g, operator=O.bitwise_not_op, type_=g.type)
        if k in ("ar", "bw"):
            l, r = G(n[3]), G(n[4])
            op, typ = l.comparator._adapt_expression(self.ops[n[2]], r.comparator)
            return E.BinaryExpression(l, r, op, type_=typ)
        if k == "cat":
            l, r = G(n[2]), G(n[3])
            return E.BinaryExpression(l, r, O.concat_op, type_=self.sa.String())
        if k == "cmp":
            return E.BinaryExpression(G(n[3]), G(n[4]), self.ops[n[2]], type_=BOOL)
        if k == "isn":
            b = E.BinaryExpression(G(n[2]), sa.null(), O.is_, type_=BOOL)
            return self._not(b) if n[3] else b
        if k == "is":
            b = E.BinaryExpression(G(n[2]), G(n[3]), O.is_, type_=BOOL)
            return self._not(b) if n[4] else b
        if k in ("and", "or"):
            return E.BooleanClauseList._construct_raw(O.and_ if k == "and" else O.or_, [G(c) for c in n[2]])
        if k == "not":
            return self._not(self.explicit(n[2]))
        if k == "btw":
            rng = E.ExpressionClauseList._construct_for_list(O.and_, self.T.NULLTYPE, G(n[3]), G(n[4]), group=False)
            return E.BinaryExpression(G(n[2]), rng, O.between_op, type_=BOOL)
        if k == "like":
            kind = n[2]
            op = O.ilike_op if "ilike" in kind else O.like_op
            mods = {"escape": n[5]} if n[5] is not None else {}
            b = E.BinaryExpression(G(n[3]), G(n[4]), op, type_=BOOL, modifiers=mods)
            return self._not(b) if kind.startswith("not_") else b
        if k == "in":
            b = G(n[2]).in_(list(n[3]))
            return self._not(b) if n[4] else b
        if k == "inx":
            b = G(n[2]).in_([G(c) for c in n[3]])
            return self._not(b) if n[4] else b
        if k == "case":
            whens = [(G(c), G(v)) for c, v in n[2]]
            return sa.case(*whens, else_=G(n[3])) if n[3] is not None else sa.case(*whens)
        if k == "scase":
            whens = {v: G(r) for v, r in n[3]}
            kw = {"else_": G(n[4])} if n[4] is not None else {}
            return sa.case(whens, value=G(n[2]), **kw)
        if k == "cast":
            return sa.cast(G(n[2]), self.types[t]())
        if k == "coll":
            return E.CollationClause._create_collation_expression(G(n[2]), n[3])
        if k == "ssq":
            return sa.select(G(n[2])).correlate(self.t).scalar_subquery()
        if k == "exists":
            return sa.exists(sa.select(sa.literal_column("1")).where(G(n[2])).correlate(self.t))
        if k == "fn":
            return getattr(sa.func, n[2])(*[G(c) for c in n[3]])
        raise ValueError(k)


def make_table(metadata, name="t"):
    import sqlalchemy as sa

    return sa.Table(
        name, metadata,
        sa.Column("id", sa.Integer, primary_key=True),
        sa.Column("i1", sa.Integer), sa.Column("i2", sa.Integer), sa.Column("f1", sa.Float),
        sa.Column("s1", sa.String(20)), sa.Column("s2", sa.String(20)),
        sa.Column("b1", sa.Boolean(create_constraint=False)), sa.Column("b2", sa.Boolean(create_constraint=False)),
    )


def row_dicts(rows_):
    return [dict(id=i + 1, **dict(zip(COL_ORDER, r))) for i, r in enumerate(rows_)]
