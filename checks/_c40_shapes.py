"""C40 sub-check "shapes": the *mapping shape* is generated, not only the query.

Composite-primary-key parents (2-3 key columns) whose column order differs, in every way the mapping API allows, from
the order in which the child's foreign-key columns / the relationship's join condition pair them:

* parent key columns declared in a permuted column order, PrimaryKeyConstraint listed in another order,
  Mapper(primary_key=[...]) given in yet another order (or not at all);
* child FK columns declared in a permuted order, the ForeignKeyConstraint listing its pairs in another order;
* optional explicit primaryjoin with permuted conjuncts, each written "parent == child" or "child == parent";
* many-to-many through an association table whose columns / constraint pairs are permuted as well;
* data drawn from a tiny key domain so mirrored key values ((1, 2) / (2, 1)) are the norm.

Oracle as in the rest of C40: every assignment of loader strategies along the relationship paths of depth <= 2 must give
the snapshot computed from the generated rows (plain Python), each in a fresh Session.

(owner: ORM-query group; imported by checks/c40.py)
"""
from __future__ import annotations

import itertools
from collections import OrderedDict

from hypothesis import strategies as st

from vf import sautil
from vf.api import Violation, canon

STRATS = ["default", "lazy", "joined", "subquery", "selectin", "immediate"]
PATHS = {
    "P": [("children",), ("tags",), ("children", "parent"), ("tags", "parents")],
    "C": [("parent",), ("parent", "children"), ("parent", "tags")],
}
USELIST = {"children": True, "tags": True, "parents": True, "parent": False}
OWNER = {"P": {"children": "C", "tags": "T"}, "C": {"parent": "P"}, "T": {"parents": "P"}}
_PERMS = {n: list(itertools.permutations(range(n))) for n in (2, 3)}
_CACHE: "OrderedDict[str, object]" = OrderedDict()
_CACHE_MAX = 16


def perm(n, i):
    return list(_PERMS[n][i % len(_PERMS[n])])


def norm_cfg(c):
    n = 3 if c.get("npk") == 3 else 2
    out = {"npk": n}
    for k in ("pcol", "pkc", "mpk", "ccol", "fkc", "pj", "pj_m2o", "acol", "afkc", "apj"):
        v = c.get(k)
        out[k] = None if v is None else perm(n, v)
    for k in ("pcol", "pkc", "ccol", "fkc", "acol", "afkc"):
        if out[k] is None:
            out[k] = list(range(n))
    out["flip"] = [bool(x) for x in (list(c.get("flip") or []) + [False] * 3)[:3]]
    out["tagpos"] = int(c.get("tagpos") or 0) % (n + 1)
    return out


class Built:
    pass


def build(cfg):
    key = canon(cfg)
    b = _CACHE.get(key)
    if b is not None:
        _CACHE.move_to_end(key)
        return b
    from sqlalchemy import Column, ForeignKey, ForeignKeyConstraint, Integer, PrimaryKeyConstraint, String, Table, and_
    from sqlalchemy.orm import registry, relationship

    n = cfg["npk"]
    K = [f"k{i + 1}" for i in range(n)]
    F = [f"f{i + 1}" for i in range(n)]
    A = [f"a{i + 1}" for i in range(n)]
    reg = registry()
    md = reg.metadata
    parent = Table(
        "parent", md, *[Column(K[i], Integer, nullable=False) for i in cfg["pcol"]], Column("name", String),
        PrimaryKeyConstraint(*[K[i] for i in cfg["pkc"]]),
    )
    child = Table(
        "child", md, Column("id", Integer, primary_key=True), *[Column(F[i], Integer) for i in cfg["ccol"]], Column("name", String),
        ForeignKeyConstraint([F[i] for i in cfg["fkc"]], [f"parent.{K[i]}" for i in cfg["fkc"]]),
    )
    tag = Table("tag", md, Column("id", Integer, primary_key=True), Column("name", String))
    acols = [Column(A[i], Integer, nullable=False) for i in cfg["acol"]]
    acols.insert(cfg["tagpos"], Column("tag_id", ForeignKey("tag.id"), nullable=False))
    ptag = Table("ptag", md, *acols, ForeignKeyConstraint([A[i] for i in cfg["afkc"]], [f"parent.{K[i]}" for i in cfg["afkc"]]))

    def pj(order, left, lnames, right, rnames):
        if order is None:
            return None
        conj = []
        for pos, i in enumerate(order):
            a, c_ = left.c[lnames[i]], right.c[rnames[i]]
            conj.append((c_ == a) if cfg["flip"][pos % 3] else (a == c_))
        return and_(*conj)

    def mk(name):
        return type(name, (object,), {})

    P, C, T = mk("P"), mk("C"), mk("T")
    kw = {}
    if cfg["mpk"] is not None:
        kw["primary_key"] = [parent.c[K[i]] for i in cfg["mpk"]]
    reg.map_imperatively(
        P, parent,
        properties={
            "children": relationship(C, back_populates="parent", order_by=child.c.id, primaryjoin=pj(cfg["pj"], parent, K, child, F)),
            "tags": relationship(T, secondary=ptag, back_populates="parents", order_by=tag.c.id, primaryjoin=pj(cfg["apj"], parent, K, ptag, A)),
        },
        **kw,
    )
    reg.map_imperatively(C, child, properties={"parent": relationship(P, back_populates="children", primaryjoin=pj(cfg["pj_m2o"], parent, K, child, F))})
    reg.map_imperatively(
        T, tag,
        properties={"parents": relationship(P, secondary=ptag, back_populates="tags", order_by=[parent.c[k] for k in K],
                                            secondaryjoin=pj(cfg["apj"], parent, K, ptag, A))},
    )
    reg.configure()
    b = Built()
    b.registry, b.metadata, b.tables, b.cls = reg, md, {"parent": parent, "child": child, "tag": tag, "ptag": ptag}, {"P": P, "C": C, "T": T}
    b.K, b.F, b.A, b.n = K, F, A, n
    _CACHE[key] = b
    while len(_CACHE) > _CACHE_MAX:
        _, old = _CACHE.popitem(last=False)
        old.registry.dispose()
    return b


# ------------------------------------------------------------------ data + model
def norm_data(d, n):
    dom = [1, 2, 3] if n == 2 else [1, 2]
    keys = []
    for code in d.get("parents") or []:
        k = []
        for _ in range(n):
            k.append(dom[code % len(dom)])
            code //= len(dom)
        if k not in keys:
            keys.append(k)
    if d.get("mirror"):
        for k in list(keys):
            r = list(reversed(k))
            if r != k and r not in keys:
                keys.append(r)
                break
    parents = [[k, f"p{'_'.join(map(str, k))}"] for k in keys]
    children = []
    for i, (code, mode) in enumerate(d.get("children") or []):
        if mode == 0 or not keys and mode != 2:
            fk = [None] * n
        elif mode == 2:  # arbitrary key of the domain: may dangle, may be the mirror image of an existing key
            fk, c2 = [], code
            for _ in range(n):
                fk.append(dom[c2 % len(dom)])
                c2 //= len(dom)
        else:
            fk = list(keys[code % len(keys)])
        children.append([i + 1, fk, f"c{i + 1}"])
    ntags = d.get("ntags") or 0
    tags = [[i + 1, f"t{i + 1}"] for i in range(ntags)]
    links = []
    for pi, mask in enumerate((d.get("links") or [])[: len(keys)]):
        for t in range(ntags):
            if mask >> t & 1:
                links.append([keys[pi], t + 1])
    return {"parents": parents, "children": children, "tags": tags, "links": links}


class Model:
    def __init__(self, data):
        self.p = {tuple(k): name for k, name in data["parents"]}
        self.c = {cid: (tuple(fk), name) for cid, fk, name in data["children"]}
        self.t = {tid: name for tid, name in data["tags"]}
        self.links = [(tuple(k), t) for k, t in data["links"]]

    def snap_p(self, k, depth):
        out = ["P", list(k), self.p[k]]
        if depth > 0:
            out.append([
                ["children", [self.snap_c(cid, depth - 1) for cid in sorted(self.c) if self.c[cid][0] == k]],
                ["tags", [self.snap_t(t, depth - 1) for t in sorted({t for kk, t in self.links if kk == k})]],
            ])
        return out

    def snap_c(self, cid, depth):
        fk, name = self.c[cid]
        out = ["C", cid, list(fk), name]
        if depth > 0:
            out.append([["parent", self.snap_p(fk, depth - 1) if fk in self.p else None]])
        return out

    def snap_t(self, tid, depth):
        out = ["T", tid, self.t[tid]]
        if depth > 0:
            out.append([["parents", [self.snap_p(k, depth - 1) for k in sorted({kk for kk, t in self.links if t == tid})]]])
        return out


def snap_live(b, o, depth, seen):
    kind = type(o).__name__
    if kind == "P":
        ident, out = ("P", tuple(getattr(o, k) for k in b.K)), None
        out = ["P", list(ident[1]), o.name]
        rels = ["children", "tags"]
    elif kind == "C":
        ident = ("C", o.id)
        out = ["C", o.id, [getattr(o, f) for f in b.F], o.name]
        rels = ["parent"]
    else:
        ident = ("T", o.id)
        out = ["T", o.id, o.name]
        rels = ["parents"]
    prev = seen.setdefault(ident, o)
    if prev is not o:
        raise Violation("C40/identity/duplicate-object", f"two distinct objects for identity {ident} in one Session")
    if depth > 0:
        rr = []
        for r in rels:
            v = getattr(o, r)
            if USELIST[r]:
                rr.append([r, [snap_live(b, x, depth - 1, seen) for x in v]])
            else:
                rr.append([r, snap_live(b, v, depth - 1, seen) if v is not None else None])
        out.append(rr)
    return out


def load_engine(b, data):
    eng = sautil.mem_engine()
    b.metadata.create_all(eng)
    t = b.tables
    with eng.begin() as conn:
        if data["parents"]:
            conn.execute(t["parent"].insert(), [dict(zip(b.K, k), name=name) for k, name in data["parents"]])
        if data["children"]:
            conn.execute(t["child"].insert(), [dict(zip(b.F, fk), id=cid, name=name) for cid, fk, name in data["children"]])
        if data["tags"]:
            conn.execute(t["tag"].insert(), [dict(id=i, name=nm) for i, nm in data["tags"]])
        if data["links"]:
            conn.execute(t["ptag"].insert(), [dict(zip(b.A, k), tag_id=tid) for k, tid in data["links"]])
    return eng


# ------------------------------------------------------------------ options
def build_options(b, root, strat, chunk):
    from sqlalchemy import orm

    def loader(s, owner, rel):
        a = getattr(b.cls[owner], rel)
        if s == "default":
            return orm.defaultload(a)
        if s == "lazy":
            return orm.lazyload(a)
        if s == "joined":
            return orm.joinedload(a)
        if s == "subquery":
            return orm.subqueryload(a)
        if s == "selectin":
            return orm.selectinload(a, chunksize=chunk) if chunk else orm.selectinload(a)
        return orm.immediateload(a)

    opts = []
    for p1 in [p for p in PATHS[root] if len(p) == 1]:
        sub = []
        o1 = OWNER[root][p1[0]]
        for p2 in [p for p in PATHS[root] if len(p) == 2 and p[:1] == p1]:
            if strat[p2] != "default":
                sub.append(loader(strat[p2], o1, p2[1]))
        if strat[p1] != "default" or sub:
            l1 = loader(strat[p1], root, p1[0])
            if sub:
                l1 = l1.options(*sub)
            opts.append(l1)
    return opts


def check_shapes(case, ctx):
    from sqlalchemy import select
    from sqlalchemy.orm import Session

    cfg = norm_cfg(case["m"])
    b = build(cfg)
    n = b.n
    data = norm_data(case["d"], n)
    model = Model(data)
    root = case["root"]
    q = case["q"]
    ident = list(range(n))
    permuted = {k for k in ("pcol", "pkc", "mpk", "ccol", "fkc", "pj", "pj_m2o", "acol", "afkc", "apj") if cfg[k] is not None and cfg[k] != ident}
    keys = sorted(model.p)
    mirrored = any(tuple(reversed(k)) in model.p and tuple(reversed(k)) != k for k in keys)
    classes = {f"npk:{n}", f"root:{root}"} | {f"perm:{k}" for k in permuted}
    if permuted & {"ccol", "fkc", "pj", "pj_m2o"}:
        classes.add("fk-order-differs-from-pk-order")
    if permuted & {"acol", "afkc", "apj"}:
        classes.add("association-order-differs-from-pk-order")
    if permuted & {"mpk", "pkc", "pcol"}:
        classes.add("pk-order-permuted")
    if cfg["pj"] is not None or cfg["pj_m2o"] is not None or cfg["apj"] is not None:
        classes.add("explicit-primaryjoin")
    if mirrored:
        classes.add("data:mirrored-keys")
    assigns = []
    for a in case["as"]:
        strat = {p: STRATS[a["s"][i % len(a["s"])] % len(STRATS)] for i, p in enumerate(PATHS[root])}
        assigns.append((strat, a.get("chunk") or 0, bool(a.get("legacy"))))
        for p, s in strat.items():
            classes.add(f"s{len(p)}:{s}")
    nontrivial = bool(permuted) and mirrored and any(s in ("selectin", "subquery", "joined", "immediate") for st_, _, _ in assigns for s in st_.values())
    ctx.note(case, nontrivial, classes=sorted(classes))

    # ---- expected primary rows (plain Python)
    if root == "P":
        prim = [k for k in keys if q.get("ge") is None or k[0] >= q["ge"]]
    else:
        prim = [cid for cid in sorted(model.c) if q.get("ge") is None or cid >= q["ge"]]
    off, lim = q.get("offset") or 0, q.get("limit")
    prim = prim[off:] if lim is None else prim[off:off + lim]
    exp = [model.snap_p(k, 2) if root == "P" else model.snap_c(k, 2) for k in prim]

    eng = load_engine(b, data)
    try:
        R = b.cls[root]
        for strat, chunk, legacy in assigns:
            opts = build_options(b, root, strat, chunk)
            seen = {}
            with Session(eng) as s:
                order = [getattr(R, k) for k in b.K] if root == "P" else [R.id]
                crit = None
                if q.get("ge") is not None:
                    crit = (getattr(R, b.K[0]) if root == "P" else R.id) >= q["ge"]
                if legacy:
                    qq = s.query(R).options(*opts).order_by(*order)
                    if crit is not None:
                        qq = qq.filter(crit)
                    if lim is not None:
                        qq = qq.limit(lim)
                    if q.get("offset"):
                        qq = qq.offset(off)
                    objs = qq.all()
                else:
                    stmt = select(R).options(*opts).order_by(*order)
                    if crit is not None:
                        stmt = stmt.where(crit)
                    if lim is not None:
                        stmt = stmt.limit(lim)
                    if q.get("offset"):
                        stmt = stmt.offset(off)
                    objs = s.scalars(stmt).unique().all()
                got = [snap_live(b, o, 2, seen) for o in objs]
                s.rollback()
            if got != exp:
                used = {".".join(p): v for p, v in strat.items() if v != "default"}
                kind = "rows" if [g[1] for g in got] != [e[1] for e in exp] else "related"
                where = next((".".join(p) for p, v in strat.items() if v not in ("default", "lazy")), "root")
                raise Violation(
                    f"C40/shapes/{kind}/{root}/{'+'.join(sorted(set(used.values()))) or 'default'}",
                    f"snapshot differs from the data oracle; strategies={used} chunk={chunk} legacy={legacy} mapping={cfg} first-eager-path={where}",
                    observed=got, expected=exp,
                )
    finally:
        eng.dispose()


# ------------------------------------------------------------------ strategy
_P = st.integers(0, 5)
_OPT_P = st.one_of(_P, st.none())


def _assign(npaths):
    sidx = st.sampled_from([4, 4, 2, 3, 5, 1, 0])
    return st.fixed_dictionaries({
        "s": st.one_of(st.lists(sidx, min_size=npaths, max_size=npaths), sidx.map(lambda x: [x])),
        "chunk": st.sampled_from([0, 0, 1, 2]),
        "legacy": st.sampled_from([False, False, True]),
    })


_AS = {r: st.lists(_assign(len(PATHS[r])), min_size=3, max_size=6) for r in PATHS}
_M = st.fixed_dictionaries({
    "npk": st.sampled_from([2, 2, 3]),
    "pcol": _OPT_P, "pkc": _OPT_P, "mpk": _OPT_P,
    "ccol": _P, "fkc": _P, "pj": _OPT_P, "pj_m2o": _OPT_P,
    "acol": _P, "afkc": _P, "apj": _OPT_P,
    "flip": st.lists(st.booleans(), min_size=3, max_size=3),
    "tagpos": st.integers(0, 3),
})
_D = st.fixed_dictionaries({
    "parents": st.lists(st.integers(0, 8), min_size=2, max_size=6),
    "mirror": st.sampled_from([True, True, False]),
    "children": st.lists(st.tuples(st.integers(0, 26), st.sampled_from([1, 1, 1, 2, 0])).map(list), min_size=1, max_size=10),
    "ntags": st.sampled_from([2, 3, 1, 0]),
    "links": st.lists(st.integers(0, 7), min_size=0, max_size=6),
})
_Q = st.fixed_dictionaries({"ge": st.sampled_from([None, None, 2]), "limit": st.sampled_from([None, None, 2, 3]), "offset": st.sampled_from([None, None, 1])})


@st.composite
def cases(draw):
    root = draw(st.sampled_from(["P", "P", "C"]))
    return {"m": draw(_M), "d": draw(_D), "root": root, "q": draw(_Q), "as": draw(_AS[root])}
