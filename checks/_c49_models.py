"""module-level mapped classes for C49 (must be importable for pickle)"""
from sqlalchemy import JSON, Column, Integer, PickleType
from sqlalchemy.ext.mutable import MutableComposite, MutableDict, MutableList, MutableSet
from sqlalchemy.orm import composite, registry

reg = registry()
Base = reg.generate_base()


class Point(MutableComposite):
    def __init__(self, x, y):
        self.x = x
        self.y = y

    def __setattr__(self, key, value):
        object.__setattr__(self, key, value)
        self.changed()

    def __composite_values__(self):
        return self.x, self.y

    def __eq__(self, other):
        return isinstance(other, Point) and other.x == self.x and other.y == self.y

    def __ne__(self, other):
        return not self.__eq__(other)

    def __getstate__(self):
        return self.x, self.y

    def __setstate__(self, state):
        object.__setattr__(self, "x", state[0])
        object.__setattr__(self, "y", state[1])


class E(Base):
    __tablename__ = "c49_e"
    id = Column(Integer, primary_key=True)
    d = Column(MutableDict.as_mutable(JSON))
    l = Column(MutableList.as_mutable(JSON))  # noqa: E741
    lp = Column(MutableList.as_mutable(PickleType))
    s = Column(MutableSet.as_mutable(PickleType))
    x = Column(Integer)
    y = Column(Integer)
    pt = composite(Point, x, y)


reg.configure()
