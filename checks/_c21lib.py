"""Shared builders/observers for C21 (used by checks/c21.py in-process and by the
fresh child processes that re-render the same cases under another PYTHONHASHSEED).

Everything here turns a JSON case into live SQLAlchemy objects and returns plain
JSON-able observations (rendered names / SQL strings); the oracles live in c21.py.
"""
from __future__ import annotations

import hashlib
import json
import re
import sys

PREFIXES = ["abcdefghij", "information_channel_code_", "Billing_Convention_", "prodüct_identifier_", "x", "the_quick_brown_fox_jumps_"]
SAFE = "ghjkmnpqrstvwxyz"  # suffix alphabet: never forms "_<hex digits>" tails (those are produced by the library's own counters)
NBIND_VALUE = 300000
DIALECTS = ["default", "postgresql", "mysql", "sqlite", "oracle", "mssql"]

TOKENS_COMMON = ["table_name", "column_0_name", "column_0N_name", "column_0_N_name", "column_0_label", "column_0N_label", "column_0_N_label",
                 "column_0_key", "column_0N_key", "column_0_N_key", "column_1_name", "constraint_name", "custom_tok"]
TOKENS_FK = ["referred_table_name", "referred_column_0_name", "referred_column_0N_name", "referred_column_0_N_name"]


def mkname(spec):
    """[len, seed, prefix_index] -> deterministic identifier of exactly that length (1..200) from a family of colliding prefixes"""
    ln, seed = max(1, min(200, int(spec[0]))), int(spec[1])
    pre = PREFIXES[int(spec[2]) % len(PREFIXES)] if len(spec) > 2 else PREFIXES[0]
    suf = SAFE[seed % 16] + SAFE[(seed // 16) % 16]
    if ln <= 2:
        return suf[:ln]
    return (pre * (ln // len(pre) + 1))[: ln - 2] + suf


def make_dialect(idx, maxlen, label_length=None):
    from sqlalchemy.engine import default

    name = DIALECTS[idx % len(DIALECTS)]
    kw = {}
    if maxlen:
        kw["max_identifier_length"] = maxlen
    if label_length:
        kw["label_length"] = label_length
    if name == "default":
        return default.DefaultDialect(**kw)
    import importlib

    mod = importlib.import_module(f"sqlalchemy.dialects.{name}")
    return mod.dialect(**kw)


def _custom_tok(const, table):
    return "cu" + table.name[::-1][:6]


def template_string(parts):
    out = []
    for p in parts:
        if p[0] == "lit":
            out.append(mkname([p[1], p[2], p[3] if len(p) > 3 else 0]))
        else:
            out.append("%(" + p[1] + ")s")
    return "_".join(out)


# ----------------------------------------------------------------------------- DDL naming case
def norm_ddl_case(case):
    """fill in names that the convention requires (constraint_name token) unless the case asks for the documented error"""
    c = json.loads(json.dumps(case))
    conv = c.get("conv") or {}
    tables = c["tables"]
    for t in tables:
        seen = set()
        cols = []
        for col in t["cols"]:
            nm = mkname(col)
            if nm in seen:
                continue
            seen.add(nm)
            cols.append(col)
        t["cols"] = cols
    for kind in list(conv):
        if conv[kind] is not None and not conv[kind]:
            conv[kind] = None
    if conv.get("pk"):
        # a "pk" convention using %(constraint_name)s makes every Table() raise (the implicit PrimaryKeyConstraint created in
        # Table.__init__ is unnamed) - outside this property; the token is replaced
        conv["pk"] = [(["tok", "table_name"] if (p[0] == "tok" and p[1] == "constraint_name") else p) for p in conv["pk"]]
    if not conv.get("ix"):
        conv["ix"] = [["lit", 2, 3], ["tok", "column_0_label"]]
    if not any(p[0] == "lit" for p in conv["ix"]):
        # an index must end up with a non-empty name (an unnamed Index is a user error whose exception type differs per dialect)
        conv["ix"] = [["lit", 2, 3]] + conv["ix"]
    c["conv"] = conv

    def needs_name(kind):
        return conv.get(kind) and any(p[0] == "tok" and p[1] == "constraint_name" for p in conv[kind])

    cons = []
    seen_collevel = set()
    for i, con in enumerate(c.get("cons", [])):
        kind, ti, cis, ns = con[0], con[1] % len(tables), con[2], con[3]
        ncols = len(tables[ti]["cols"])
        cis2 = []
        for x in cis:
            x = x % ncols
            if x not in cis2:
                cis2.append(x)
        if not cis2:
            cis2 = [0]
        if kind in ("colunique", "colindex", "ck"):
            cis2 = cis2[:1]
        if kind == "fk":
            if len(tables) < 2:
                continue
            ti = 1
            cis2 = [x % len(tables[1]["cols"]) for x in cis2]
            cis2 = list(dict.fromkeys(cis2))[: min(2, len(tables[0]["cols"]))]
        base = {"colunique": "uq", "colindex": "ix"}.get(kind, kind)
        if needs_name(base) and ns is None and not c.get("strict_err"):
            ns = ["plain", 6, i]
            if kind in ("colunique", "colindex"):
                kind = base
        if kind in ("colunique", "colindex") and ns is not None:
            kind = base  # Column(unique=True / index=True) cannot carry an explicit name
        if kind in ("colunique", "colindex"):
            if (kind, ti, cis2[0]) in seen_collevel:
                continue
            seen_collevel.add((kind, ti, cis2[0]))
        cons.append([kind, ti, cis2, ns])
    # Column(unique=True, index=True) is documented to yield one unique Index: keep only the index
    cons = [x for x in cons if not (x[0] == "colunique" and ("colindex", x[1], x[2][0]) in seen_collevel)]
    c["cons"] = cons
    pk = c.get("pk") or [1, None]
    if needs_name("pk") and pk[1] is None and not c.get("strict_err"):
        pk = [pk[0], ["plain", 5, 77]]
    c["pk"] = pk
    return c


def _nm(ns, conv_cls):
    if ns is None:
        return None
    s = mkname([ns[1], ns[2], ns[3] if len(ns) > 3 else 1])
    return conv_cls(s) if ns[0] == "conv" else s


def build_ddl(c):
    """-> (metadata, tables, constraint objects in case order, pk constraints)"""
    from sqlalchemy import CheckConstraint, Column, ForeignKeyConstraint, Index, Integer, MetaData, PrimaryKeyConstraint, Table, UniqueConstraint, column
    from sqlalchemy.sql.elements import conv as conv_cls

    nc = {k: template_string(v) for k, v in c["conv"].items() if v}
    nc["custom_tok"] = _custom_tok
    md = MetaData(naming_convention=nc)
    tables, objs = [], {}
    tnames = []
    for ti, t in enumerate(c["tables"]):
        tn = mkname(t["name"])
        if tn in tnames:
            tn = tn + "q"
        tnames.append(tn)
    for ti, t in enumerate(c["tables"]):
        colnames = [mkname(col) for col in t["cols"]]
        npk = max(1, min(len(colnames), c["pk"][0])) if ti == 0 else 1
        pkname = _nm(c["pk"][1], conv_cls) if ti == 0 else None
        cols = []
        for ci, col in enumerate(t["cols"]):
            kw = {}
            if len(col) > 3 and col[3]:
                kw["key"] = "k" + str(ci) + colnames[ci][:5]
            for j, con in enumerate(c["cons"]):
                if con[1] == ti and con[2][0] == ci and con[0] == "colunique":
                    kw["unique"] = True
                if con[1] == ti and con[2][0] == ci and con[0] == "colindex":
                    kw["index"] = True
            if ci < npk and pkname is None:
                kw["primary_key"] = True
            cols.append(Column(colnames[ci], Integer, **kw))
        keys = [col.key for col in cols]
        extra = []
        if pkname is not None:
            extra.append(PrimaryKeyConstraint(*keys[:npk], name=pkname))
        for j, con in enumerate(c["cons"]):
            kind, cti, cis, ns = con
            if cti != ti:
                continue
            name = _nm(ns, conv_cls)
            if kind == "uq":
                o = UniqueConstraint(*[keys[x] for x in cis], name=name)
            elif kind == "ix":
                o = Index(name, *[keys[x] for x in cis])
            elif kind == "ck":
                continue  # attached after the Table exists (documented form: CheckConstraint(table.c.col > 5))
            elif kind == "fk":
                pkeys = [pc.key for pc in tables[0].columns][: len(cis)]  # string targets resolve by column key
                o = ForeignKeyConstraint([keys[x] for x in cis], [f"{tnames[0]}.{pc}" for pc in pkeys], name=name)
            else:
                continue
            objs[j] = o
            extra.append(o)
        tables.append(Table(tnames[ti], md, *cols, *extra))
        for j, con in enumerate(c["cons"]):
            kind, cti, cis, ns = con
            if cti == ti and kind == "ck":
                objs[j] = CheckConstraint(tables[ti].c[keys[cis[0]]] > 5, name=_nm(ns, conv_cls))
    # column-level unique/index produce objects we locate afterwards
    for j, con in enumerate(c["cons"]):
        kind, cti, cis, ns = con
        if kind == "colunique":
            t = tables[cti]
            col = list(t.columns)[cis[0]]
            objs[j] = [u for u in t.constraints if isinstance(u, UniqueConstraint) and list(u.columns) == [col] and u not in objs.values()][0]
        elif kind == "colindex":
            t = tables[cti]
            col = list(t.columns)[cis[0]]
            objs[j] = [ix for ix in t.indexes if list(ix.columns) == [col] and ix not in objs.values()][0]
    return md, tables, objs


_QUOTES = "\"`[]"
_CONS_RE = re.compile(r"CONSTRAINT (.+?) (PRIMARY KEY|UNIQUE|CHECK|FOREIGN KEY)")
_IX_RE = re.compile(r"CREATE (?:UNIQUE )?INDEX (.+?) ON ")


def _unq(s):
    s = s.strip()
    if len(s) >= 2 and s[0] in _QUOTES and s[-1] in _QUOTES:
        return s[1:-1]
    return s


def render_ddl(c, dialect):
    """compile CREATE TABLE / CREATE INDEX / ADD+DROP CONSTRAINT and pull the rendered names out of the SQL text.
    -> {"tables": [ddl...], "names": {"pk0": .., "c<j>": ..}, "errors": {"c<j>": "IdentifierError"}}"""
    from sqlalchemy import exc
    from sqlalchemy.schema import AddConstraint, CreateIndex, CreateTable, DropConstraint, DropIndex
    from sqlalchemy import Index

    md, tables, objs = build_ddl(c)
    out = {"ddl": [], "names": {}, "errors": {}}
    for ti, t in enumerate(tables):
        try:
            s = str(CreateTable(t).compile(dialect=dialect))
            out["ddl"].append(s)
        except exc.IdentifierError as e:
            out["errors"][f"table{ti}"] = "IdentifierError"
            out["ddl"].append(None)
    # individual constraints through ALTER (same name rendering path, isolates each name)
    items = [("pk0", tables[0].primary_key)] + [(f"c{j}", o) for j, o in sorted(objs.items())]
    kinds = {"PRIMARY KEY": "pk", "UNIQUE": "uq", "CHECK": "ck", "FOREIGN KEY": "fk"}
    for key, o in items:
        try:
            if isinstance(o, Index):
                s = str(CreateIndex(o).compile(dialect=dialect))
                m = _IX_RE.search(s)
                out["names"][key] = _unq(m.group(1)) if m else None
                s2 = str(DropIndex(o).compile(dialect=dialect))
                out["ddl"].append(s2)
            else:
                if o.name is None:
                    out["names"][key] = None
                    continue
                s = str(AddConstraint(o).compile(dialect=dialect))
                m = _CONS_RE.search(s)
                out["names"][key] = _unq(m.group(1)) if m else None
                if m and ("inline-" + key) not in out["names"]:
                    # the same constraint inside CREATE TABLE must carry the same rendered name
                    tddl = out["ddl"][tables.index(o.table)]
                    if tddl is not None:
                        found = [_unq(a) for a, b in _CONS_RE.findall(tddl)]
                        out["names"]["inline-" + key] = out["names"][key] if out["names"][key] in found else ("MISSING", found)
            out["ddl"].append(s)
        except exc.IdentifierError:
            out["errors"][key] = "IdentifierError"
        except exc.CompileError as e:
            if "requires that the index have a name" not in str(e):
                raise
            out["errors"][key] = "IndexWithoutName"
    return out


# ----------------------------------------------------------------------------- labelled SELECT case
def build_select(c):
    """-> (metadata, tables, stmt, expected values per result position, info)"""
    from sqlalchemy import LABEL_STYLE_TABLENAME_PLUS_COL, Column, Integer, MetaData, Table, bindparam, literal, select

    md = MetaData()
    tables, tvals = [], []
    tnames = []
    for ti, t in enumerate(c["tables"]):
        tn = t.get("rawname") or mkname(t["name"])
        while tn in tnames:
            tn = tn + "q"
        tnames.append(tn)
        colnames = list(dict.fromkeys(t["raw"] if t.get("raw") else [mkname(col) for col in t["cols"]]))
        tables.append(Table(tn, md, *[Column(cn, Integer) for cn in colnames]))
        tvals.append({cn: 1000 * (ti + 1) + ci for ci, cn in enumerate(colnames)})
    froms, fvals = [], []
    for fi, f in enumerate(c["froms"]):
        ti = f[1] % len(tables)
        t = tables[ti]
        kind = f[0]
        if kind == "plain":
            if any(x is t for x in froms):
                kind = "anon_alias"
            else:
                fo = t
        if kind == "anon_alias":
            fo = t.alias()
        elif kind == "named_alias":
            fo = t.alias("al" + str(fi) + mkname([f[2], f[3], 5]))
        elif kind == "subq":
            fo = select(t).subquery()
        elif kind == "cte":
            fo = select(t).cte()
        elif kind == "named_cte":
            fo = select(t).cte("ct" + str(fi) + mkname([f[2], f[3], 5]))
        froms.append(fo)
        fvals.append(tvals[ti])
    cols, expected, explicit = [], [], set()
    seen = set()
    cast_seen, n_excluded_casts = set(), 0
    rep_info, label_groups = [], {}
    for ii, it in enumerate(c["items"]):
        kind = it[0]
        if kind in ("col", "col_anon", "col_lbl", "expr", "expr_lbl"):
            fi = it[1] % len(froms)
            names = list(fvals[fi])
            cn = names[it[2] % len(names)]
            colobj = froms[fi].c[cn]
            val = fvals[fi][cn]
            if kind == "col":
                if (fi, cn) in seen:
                    continue
                seen.add((fi, cn))
                cols.append(colobj)
                expected.append(val)
            elif kind == "col_anon":
                cols.append(colobj.label(None))
                expected.append(val)
            elif kind == "col_lbl":
                nm = "L" + str(ii) + mkname([it[3], it[4], 1])
                explicit.add(nm)
                cols.append(colobj.label(nm))
                expected.append(val)
            elif kind == "expr":
                cols.append(colobj + (it[3] % 50))
                expected.append(val + it[3] % 50)
            else:
                nm = "E" + str(ii) + mkname([it[4], it[5], 2])
                explicit.add(nm)
                cols.append((colobj + (it[3] % 50)).label(nm))
                expected.append(val + it[3] % 50)
        elif kind == "rep":
            # ["rep", form, fi, ci, count, mode]: ONE element object (column / CAST / .label(None)) repeated 2-5 times, optionally
            # led by and/or interleaved with the same-named column of other FROM objects
            from sqlalchemy import cast

            form, fi, count, mode = it[1] % 3, it[2] % len(froms), 2 + it[4] % 4, it[5] % 4
            names = list(fvals[fi])
            cn = names[it[3] % len(names)]
            base = froms[fi].c[cn]
            elem = base if form == 0 else (cast(base, Integer) if form == 1 else base.label(None))
            others = [(fj, froms[fj].c[cn]) for fj in range(len(froms)) if fj != fi and cn in fvals[fj]]
            rep_info.append({"form": ["col", "cast", "anon"][form], "count": count, "lead": bool(mode & 1 and others), "interleaved": bool(mode & 2 and others)})
            if mode & 1 and others:
                cols.append(others[0][1])
                expected.append(fvals[others[0][0]][cn])
            for r in range(count):
                cols.append(elem)
                expected.append(fvals[fi][cn])
                if form == 2:
                    label_groups[len(cols) - 1] = id(elem)
                if mode & 2 and others and r < count - 1:
                    fj, oc = others[r % len(others)]
                    cols.append(oc)
                    expected.append(fvals[fj][cn])
        elif kind == "cast":
            # one CAST element repeated it[3] times (1-2 generated; 3 only in the pinned finding)
            from sqlalchemy import cast

            fi = it[1] % len(froms)
            names = list(fvals[fi])
            cn = names[it[2] % len(names)]
            if False and not c.get("pinned") and (fi, cn) in cast_seen:  # repaired in /repo (b40f324): repeated casts are generated again
                # known finding: the de-duplication label of CAST(col) ignores the occurrence index, so the column plus two
                # casts of it (or one cast repeated) share "col__1"; only one cast per column is generated
                n_excluded_casts += 1
                continue
            cast_seen.add((fi, cn))
            ce = cast(froms[fi].c[cn], Integer)
            for _ in range(max(1, min(3, it[3] % 4))):
                cols.append(ce)
                expected.append(fvals[fi][cn])
        elif kind == "lit":
            cols.append(literal(100000 + ii))
            expected.append(100000 + ii)
        elif kind == "bind":
            nm = "B" + str(ii) + mkname([it[1], it[2], 3])
            explicit.add(nm)
            cols.append(bindparam(nm, 200000 + ii, type_=Integer))
            expected.append(200000 + ii)
    if not cols:
        cols.append(literal(424242))
        expected.append(424242)
    # a user-named, non-unique bindparam whose name equals a compiler-generated anonymous bind name (resolved by the caller)
    nb = c.get("nbind_resolved")
    nb_crit = None
    if nb:
        from sqlalchemy import literal_column

        V = NBIND_VALUE
        bp = bindparam(nb["name"], type_=Integer) if nb.get("required") else bindparam(nb["name"], V, type_=Integer)
        explicit.add(nb["name"])
        pos = nb["pos"]
        if pos == "select_first":
            cols.insert(0, bp.label("NBsel"))
            expected.insert(0, V)
            label_groups = {k + 1: v for k, v in label_groups.items()}
            explicit.add("NBsel")
        elif pos == "select_last":
            cols.append(bp.label("NBsel"))
            expected.append(V)
            explicit.add("NBsel")
        elif pos in ("subq_first", "subq_last"):
            nb_crit = literal_column(str(V)) == select(bp).scalar_subquery()
        else:
            nb_crit = literal_column(str(V)) == bp
    stmt = select(*cols).select_from(*froms)
    if nb_crit is not None and nb["pos"] in ("first", "subq_first"):
        stmt = stmt.where(nb_crit)
    nwhere = 0
    for w in c.get("where", []):
        fi = w[0] % len(froms)
        names = list(fvals[fi])
        cn = names[w[1] % len(names)]
        if len(w) > 2 and w[2]:
            # expanding IN: anonymous "<col>_N" expanded to "<col>_N_1", "<col>_N_2" at execution time
            stmt = stmt.where(froms[fi].c[cn].in_([fvals[fi][cn], 900000 + nwhere]))
        else:
            stmt = stmt.where(froms[fi].c[cn] == fvals[fi][cn])
        nwhere += 1
    if nb_crit is not None and nb["pos"] in ("last", "subq_last"):
        stmt = stmt.where(nb_crit)
    if c.get("style") == "tq":
        stmt = stmt.set_label_style(LABEL_STYLE_TABLENAME_PLUS_COL)
    elif c.get("style") == "none":
        from sqlalchemy import LABEL_STYLE_NONE

        stmt = stmt.set_label_style(LABEL_STYLE_NONE)
    real_names = set()
    for t in tables:
        real_names.add(t.name)
        real_names.update(cn.name for cn in t.columns)
    return md, tables, tvals, stmt, expected, {"explicit": explicit, "real": real_names, "nwhere": nwhere, "excluded_casts": n_excluded_casts, "rep": rep_info, "label_groups": label_groups}


def render_select(c, dialect):
    md, tables, tvals, stmt, expected, info = build_select(c)
    comp = stmt.compile(dialect=dialect)
    return {"sql": str(comp), "params": sorted(comp.params.items())}


# ----------------------------------------------------------------------------- child process entry
def child_main():
    cases = json.load(sys.stdin)
    out = []
    for kind, c in cases:
        try:
            if kind == "ddl":
                d = make_dialect(c["dialect"], c["maxlen"])
                r = render_ddl(norm_ddl_case(c), d)
                out.append({"names": r["names"], "errors": r["errors"], "ddl": r["ddl"]})
            else:
                d = make_dialect(c["dialect"], c["maxlen"], c.get("label_length"))
                out.append(render_select(c, d))
        except Exception as e:  # reported to the parent, which compares with its own outcome
            out.append({"exception": type(e).__name__ + ": " + str(e)[:200]})
    json.dump(out, sys.stdout)


def md5_tail(s):
    return hashlib.md5(s.encode("utf-8")).hexdigest()[-4:]
