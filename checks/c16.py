"""C16 - schema_translate_map renders the mapped schemas regardless of cache state.

live   main + 3 ATTACHed in-memory SQLite schemas (a, b, c); every schema holds t1/t2 with rows tagged by the
       schema name.  A history of 3-20 executions drawn from a pool of 1-4 statements (select / join / subquery
       / exists / insert / update / delete / insert-from-select / correlated update / CreateTable / DropTable /
       create_all / drop_all with checkfirst) each with a drawn map (absent, {}, None key, identity, swap,
       missing key, map to None, map to main, irrelevant key) applied at connection, statement or
       option-engine level, all sharing ONE engine cache.  Reference: a second identical database on which the
       *same construct rebuilt with the translated schema names baked in* is executed with no map.  After every
       step: SQL text at the cursor equal, result rows equal, full contents of all four schemas equal.
rec    the same histories on postgresql / mysql / mssql through vf.fakedb.recording_engine: cursor-level
       (statement, parameters) of the mapped execution == those of the baked twin (string equality only).
"""
from __future__ import annotations

from hypothesis import strategies as st

from vf.api import Generated, HarnessError, Violation, canon

PROPERTY = "C16"
LEVEL = "exploration"
RULE = (
    "history = pool of 1-4 statement specs (kind x declared schema of t1 in {None,a,b} x declared schema of t2) and 3-20 steps (pool index, map from 12 templates, how in conn|stmt|engine); "
    "Non-trivial: some statement is executed >=2 times consecutively-in-its-own-sequence with different maps (cache hit with another map) or a map with a None key is used; distinct = canonical JSON of the case"
)
ASSUMPTIONS = [
    "successive maps for one cached statement that differ in the presence of the None key may raise InvalidRequestError ('use consistent keys', the library's documented message): both that error and a correct execution are accepted there; everywhere else the execution must succeed",
    "a schema translated to None renders the dialect's default schema name (main / public / dbo): SQL text is compared modulo that qualifier in such steps; rows and database state are compared exactly",
    "statements in one FROM never use the same table name twice (two declared schemas translated onto one physical table would be an ambiguous FROM by the user's own choice)",
    "reference database and twin construction are trusted (twin uses a plain dict lookup for the translation)",
    "PostgreSQL/MySQL/MSSQL: recording DBAPI, string equality only; default_schema_name set by hand as initialize() would",
]

DECLARED = [None, "a", "b"]
PHYSICAL = ["main", "a", "b", "c"]
KINDS = ["select1", "join", "subq", "exists", "insert", "update", "delete", "ins_from_select", "upd_corr", "ddl_toggle", "create_all", "drop_all", "select1", "join", "ins_many_subq", "ins_many_subq"]

MAP_TEMPLATES = [
    None,  # option absent
    {},
    {"#none": "a"},
    {"#none": "c", "a": "b"},
    {"a": "a"},
    {"a": "b", "b": "a"},
    {"a": "c"},
    {"b": "c", "zzz": "a"},
    {"a": None},
    {"#none": "main", "b": "a"},
    {"a": "main", "b": "c"},
    {"#none": "b", "a": "c", "b": "a"},
    {"b": None, "#none": "c"},
]

spec_st = st.fixed_dictionaries({"kind": st.sampled_from(KINDS), "s1": st.integers(0, 2), "s2": st.integers(0, 2), "k": st.integers(0, 3)})
step_st = st.fixed_dictionaries({"stmt": st.integers(0, 3), "map": st.integers(0, len(MAP_TEMPLATES) - 1), "how": st.sampled_from(["conn", "stmt", "engine"])})
histories = st.fixed_dictionaries({"pool": st.lists(spec_st, min_size=1, max_size=4), "steps": st.lists(step_st, min_size=3, max_size=20), "rows": st.integers(1, 3)})


def cache_identity(spec):
    """model of which generated statements are structurally identical (share one compiled-cache entry): bound values
    (k, step number) do not matter, unused tables do not matter, executemany does"""
    kind = spec["kind"]
    uses1 = kind != "delete"
    uses2 = kind not in ("select1", "insert", "update")
    return canon([kind, spec["s1"] if uses1 else None, spec["s2"] if uses2 else None, spec["k"] & 1 if kind == "insert" else None])


def _decode_map(t):
    if t is None:
        return None
    return {(None if k == "#none" else k): v for k, v in t.items()}


def translate(m, declared):
    """reference semantics of schema_translate_map (documented): replace if the declared name is a key"""
    if m and declared in m:
        return m[declared]
    return declared


class Side:
    """tables for one side (real: declared schemas; twin: any physical schema baked in)"""

    def __init__(self, sa, identity_pk=True):
        self.sa = sa
        self.md = sa.MetaData()
        self.tables = {}
        self.identity_pk = identity_pk

    def t(self, name, schema):
        sa = self.sa
        key = (name, schema)
        if key not in self.tables:
            if name == "t1":
                self.tables[key] = sa.Table("t1", self.md, sa.Column("id", sa.Integer, primary_key=True, autoincrement=self.identity_pk), sa.Column("tag", sa.String(30)), schema=schema)
            elif name == "t2":
                self.tables[key] = sa.Table("t2", self.md, sa.Column("id", sa.Integer, primary_key=True), sa.Column("t1_id", sa.Integer), sa.Column("tag", sa.String(30)), schema=schema)
            else:
                # t3 lives in its own MetaData so create_all / drop_all touch only it
                md3 = sa.MetaData()
                # explicit index name: the auto-generated ix_<schema>_<table>_<col> name is derived from the declared schema and is not a schema reference
                self.tables[key] = sa.Table("t3", md3, sa.Column("id", sa.Integer, primary_key=True), sa.Column("v", sa.Integer), sa.Index("ix_t3_v", "v"), schema=schema)
        return self.tables[key]


def build(sa, side, spec, schema_fn, step_no, t3_exists, returning=True):
    """-> (list of callables(conn, opts) -> result summary). schema_fn maps a declared schema to the schema baked in"""
    d1, d2 = DECLARED[spec["s1"]], DECLARED[spec["s2"]]
    k = spec["k"]
    kind = spec["kind"]
    T1 = side.t("t1", schema_fn(d1))
    T2 = side.t("t2", schema_fn(d2))
    if kind == "select1":
        return sa.select(T1.c.id, T1.c.tag).where(T1.c.id >= k).order_by(T1.c.id), None
    if kind == "join":
        return sa.select(T1.c.tag, T2.c.tag.label("tag2")).join_from(T1, T2, T1.c.id == T2.c.t1_id).order_by(T1.c.id, T2.c.id), None
    if kind == "subq":
        sq = sa.select(T2.c.t1_id, sa.func.count().label("n")).group_by(T2.c.t1_id).subquery()
        return sa.select(T1.c.tag, sq.c.n).join_from(T1, sq, sq.c.t1_id == T1.c.id, isouter=True).order_by(T1.c.id), None
    if kind == "exists":
        cte = sa.select(T2.c.t1_id).where(T2.c.id > k).cte("c2")
        return sa.select(T1.c.id, T1.c.tag).where(sa.exists().where(cte.c.t1_id == T1.c.id)).order_by(T1.c.id), None
    if kind == "insert":
        return sa.insert(T1), [{"id": 100 + step_no, "tag": f"ins{step_no}"}, {"id": 200 + step_no, "tag": f"ins{step_no}b"}] if k & 1 else {"id": 100 + step_no, "tag": f"ins{step_no}"}
    if kind == "update":
        return sa.update(T1).where(T1.c.id == 1 + k % 2).values(tag=f"upd{step_no}"), None
    if kind == "delete":
        return sa.delete(T2).where(T2.c.id == 1 + k), None
    if kind == "ins_from_select":
        return sa.insert(T1).from_select(["id", "tag"], sa.select(T2.c.id + (1000 + 10 * step_no), T2.c.tag).where(T2.c.id <= 1 + k)), None
    if kind == "ins_many_subq":
        # insertmanyvalues: list of parameter sets (+ RETURNING on the live tier) with a per-row VALUES element that is itself
        # subject to schema translation (scalar subquery against the schema-bound T2)
        stmt = sa.insert(T1).values(tag=sa.select(sa.func.coalesce(sa.func.max(T2.c.tag), "none")).scalar_subquery())
        if returning:
            stmt = stmt.returning(T1.c.id, T1.c.tag)
        return stmt, [{"id": 3000 + 10 * step_no + i} for i in range(2 + (k & 1))]
    if kind == "upd_corr":
        return sa.update(T1).values(tag=sa.select(sa.func.coalesce(sa.func.max(T2.c.tag), f"none{step_no}")).where(T2.c.t1_id == T1.c.id).scalar_subquery()).where(T1.c.id <= 1 + k), None
    T3 = side.t("t3", schema_fn(d1))
    if kind == "ddl_toggle":
        from sqlalchemy.schema import CreateTable, DropTable

        return (DropTable(T3) if t3_exists else CreateTable(T3)), None
    if kind == "create_all":
        return ("create_all", T3), None
    if kind == "drop_all":
        return ("drop_all", T3), None
    raise HarnessError(kind)


def run(sa, eng, stmt, params, m, how, capture):
    """execute with map m applied per `how`; returns ('rows', [...]) | ('rowcount', n) | ('ddl',)"""
    target = eng
    opts = None if m is None else {"schema_translate_map": m}
    if opts is not None and how == "engine":
        target = eng.execution_options(**opts)
    capture.clear()
    with target.begin() as conn:
        if opts is not None and how == "conn":
            conn = conn.execution_options(**opts)
        if isinstance(stmt, tuple):
            op, T3 = stmt
            if opts is not None and how == "stmt":
                conn = conn.execution_options(**opts)  # metadata operations take no statement options
            getattr(T3.metadata, op)(conn, checkfirst=True)
            return ("ddl",)
        if opts is not None and how == "stmt":
            stmt = stmt.execution_options(**opts)
        res = conn.execute(stmt, params) if params is not None else conn.execute(stmt)
        if res.returns_rows:
            rows = [tuple(r) for r in res]
            return ("rows", sorted(rows, key=repr) if stmt.is_insert else rows)
        return ("rowcount", res.rowcount)


def _strip_default(texts, default):
    return [t.replace(default + ".", "") for t in texts]


# ---------------------------------------------------------------------------------------
# live SQLite
# ---------------------------------------------------------------------------------------
def _sqlite_world(sa, rows):
    from sqlalchemy import event
    from vf.sautil import mem_engine

    eng = mem_engine()

    @event.listens_for(eng, "connect")
    def _attach(dbapi_conn, rec):
        cur = dbapi_conn.cursor()
        for s in PHYSICAL[1:]:
            cur.execute(f"ATTACH DATABASE ':memory:' AS {s}")
        for i, s in enumerate(PHYSICAL):
            cur.execute(f"CREATE TABLE {s}.t1 (id INTEGER PRIMARY KEY, tag VARCHAR(30))")
            cur.execute(f"CREATE TABLE {s}.t2 (id INTEGER PRIMARY KEY, t1_id INTEGER, tag VARCHAR(30))")
            for r in range(1, rows + 1 + i % 2):
                cur.execute(f"INSERT INTO {s}.t1 VALUES (?, ?)", (r, f"{s}-t1-{r}"))
            for r in range(1, rows + 2):
                cur.execute(f"INSERT INTO {s}.t2 VALUES (?, ?, ?)", (r, 1 + (r + i) % (rows + 1), f"{s}-t2-{r}"))
        dbapi_conn.commit()
        cur.close()

    return eng


def _dump(eng):
    out = {}
    with eng.connect() as conn:
        for s in PHYSICAL:
            names = [r[0] for r in conn.exec_driver_sql(f"select name from {s}.sqlite_master where type in ('table','index') order by name").all()]
            out[s + ":objects"] = names
            for t in ("t1", "t2", "t3"):
                if t in names:
                    out[f"{s}.{t}"] = [tuple(r) for r in conn.exec_driver_sql(f"select * from {s}.{t} order by 1").all()]
    return out


def _t3_exists(eng, schema):
    with eng.connect() as conn:
        return bool(conn.exec_driver_sql(f"select 1 from {schema or 'main'}.sqlite_master where name='t3'").all())


def _history_classes(case):
    """non-trivial rule + class labels computed from the case data alone"""
    pool, steps = case["pool"], case["steps"]
    last = {}
    repeat_diff = False
    none_key = False
    kinds = set()
    hows = set()
    for st_ in steps:
        i = st_["stmt"] % len(pool)
        key = cache_identity(pool[i])
        m = MAP_TEMPLATES[st_["map"]]
        kinds.add(pool[i]["kind"])
        hows.add(st_["how"])
        if m and "#none" in m:
            none_key = True
        if key in last and last[key] != st_["map"] and m and MAP_TEMPLATES[last[key]]:
            repeat_diff = True
        last[key] = st_["map"]
    cl = ["cachehit-othermap" if repeat_diff else "no-repeat", "none-key" if none_key else "no-none-key"]
    cl += ["kind=" + k for k in sorted(kinds)] + ["how=" + h for h in sorted(hows)]
    return repeat_diff or none_key, cl


def check_live(case, ctx):
    import sqlalchemy as sa
    from sqlalchemy import exc
    from vf.sautil import Capture

    nt, classes = _history_classes(case)
    engA = _sqlite_world(sa, case["rows"])
    engB = _sqlite_world(sa, case["rows"])
    capA, capB = Capture(engA), Capture(engB)
    real, twin = Side(sa), Side(sa)
    first_none = {}
    n_inconsistent = n_err = 0
    viol = None
    try:
        for step_no, st_ in enumerate(case["steps"]):
            spec = case["pool"][st_["stmt"] % len(case["pool"])]
            m = _decode_map(MAP_TEMPLATES[st_["map"]])
            is_ddl = spec["kind"] in ("ddl_toggle", "create_all", "drop_all")
            d1 = DECLARED[spec["s1"]]
            target3 = translate(m, d1)
            t3x = _t3_exists(engB, target3) if is_ddl else False
            stmtA, params = build(sa, real, spec, lambda d: d, step_no, t3x)
            stmtB, _ = build(sa, twin, spec, lambda d: translate(m, d), step_no, t3x)
            key = cache_identity(spec)
            inconsistent = False
            if m and not is_ddl:
                if key in first_none and first_none[key] != (None in m):
                    inconsistent = True
                    n_inconsistent += 1
            try:
                outA = run(sa, engA, stmtA, params, m, st_["how"], capA)
                textsA = [r[0] for r in capA.rows]
                paramsA = [r[1] for r in capA.rows]
            except (exc.InvalidRequestError, exc.StatementError) as e:
                if isinstance(e, exc.StatementError) and not isinstance(e.orig, exc.InvalidRequestError):
                    raise
                if inconsistent and "consistent keys" in str(e):
                    n_err += 1
                    continue
                viol = Violation("C16/live/unexpected-InvalidRequestError", f"step {step_no} {spec} map={m}: {e}", observed=str(e))
                break
            if m and not is_ddl and key not in first_none:
                first_none[key] = None in m
            outB = run(sa, engB, stmtB, params, None, "conn", capB)
            textsB = [r[0] for r in capB.rows]
            paramsB = [r[1] for r in capB.rows]
            to_none = bool(m) and any(v is None for v in m.values())
            cmpA, cmpB = (textsA, textsB) if not to_none else (_strip_default(textsA, "main"), _strip_default(textsB, "main"))
            where = "ddl" if is_ddl else spec["kind"]
            if cmpA != cmpB:
                viol = Violation(
                    f"C16/live/sql-text/{'ddl' if is_ddl else 'dml' if outA[0] == 'rowcount' else 'select'}",
                    f"step {step_no} ({where}, how={st_['how']}) map={m}: SQL at the cursor differs from the baked twin\nmapped: {textsA}\ntwin:   {textsB}",
                    observed=textsA,
                    expected=textsB,
                )
                break
            if paramsA != paramsB:
                viol = Violation("C16/live/parameters", f"step {step_no} map={m}: parameters {paramsA} vs twin {paramsB}", observed=repr(paramsA), expected=repr(paramsB))
                break
            if outA != outB:
                viol = Violation(f"C16/live/result/{where}", f"step {step_no} map={m}: result {outA} vs twin {outB}", observed=outA, expected=outB)
                break
            dA, dB = _dump(engA), _dump(engB)
            if dA != dB:
                diff = {k: (dA.get(k), dB.get(k)) for k in sorted(set(dA) | set(dB)) if dA.get(k) != dB.get(k)}
                viol = Violation(f"C16/live/state/{where}", f"step {step_no} map={m}: database contents diverge from the twin: {diff}", observed=dA, expected=dB)
                break
    finally:
        capA.close()
        capB.close()
        engA.dispose()
        engB.dispose()
    ctx.note(case, nt, classes=classes + (["inconsistent-none-key"] if n_inconsistent else []) + (["consistency-error-raised"] if n_err else []))
    if viol is not None:
        raise viol


# ---------------------------------------------------------------------------------------
# recording tier: postgresql / mysql / mssql, string equality
# ---------------------------------------------------------------------------------------
REC_URLS = {"postgresql": ("postgresql+psycopg2://", "public"), "mysql": ("mysql+pymysql://", "test"), "mssql": ("mssql+pyodbc://", "dbo"), "postgresql_pg8000": ("postgresql+pg8000://", "public")}
REC_KINDS = [k for k in KINDS if k not in ("create_all", "drop_all")]
rec_spec_st = st.fixed_dictionaries({"kind": st.sampled_from(REC_KINDS), "s1": st.integers(0, 2), "s2": st.integers(0, 2), "k": st.integers(0, 3)})
rec_histories = st.fixed_dictionaries(
    {"dialect": st.sampled_from(sorted(REC_URLS)), "pool": st.lists(rec_spec_st, min_size=1, max_size=4), "steps": st.lists(step_st, min_size=3, max_size=12), "rows": st.just(1)}
)


def _rec_engine(name):
    from vf.fakedb import recording_engine

    url, default = REC_URLS[name]
    kw = {}
    eng, db = recording_engine(url, **kw)
    eng.dialect.default_schema_name = default  # what initialize() would have set
    return eng, db


def _rec_statements(db, start):
    out = []
    for c in db.conns:
        out.extend(c.statements)
    return [(s, p) for s, p, many in out[start:]], len(out)


def check_rec(case, ctx):
    import sqlalchemy as sa
    from sqlalchemy import exc
    from vf.sautil import Capture

    nt, classes = _history_classes(case)
    engA, dbA = _rec_engine(case["dialect"])
    engB, dbB = _rec_engine(case["dialect"])
    capA, capB = Capture(engA), Capture(engB)
    default = REC_URLS[case["dialect"]][1]
    # known finding (MSSQL): SET IDENTITY_INSERT is rendered with the map the cached statement was first compiled with.
    # Keep it out by construction: no IDENTITY primary key on t1 for mssql histories (pinned replay keeps it)
    identity_pk = True
    if case["dialect"] == "mssql" and not case.get("pinned"):
        identity_pk = False
        if any(p["kind"] in ("insert", "ins_from_select") for p in case["pool"]):
            ctx.exclude("explicit-PK INSERT into an IDENTITY table on MSSQL under schema_translate_map (known finding)")
    real, twin = Side(sa, identity_pk), Side(sa, identity_pk)
    first_none = {}
    viol = None
    t3_state = {}
    try:
        for step_no, st_ in enumerate(case["steps"]):
            spec = case["pool"][st_["stmt"] % len(case["pool"])]
            m = _decode_map(MAP_TEMPLATES[st_["map"]])
            is_ddl = spec["kind"] == "ddl_toggle"
            target3 = translate(m, DECLARED[spec["s1"]])
            t3x = t3_state.get(target3, False)
            stmtA, params = build(sa, real, spec, lambda d: d, step_no, t3x, returning=False)
            stmtB, _ = build(sa, twin, spec, lambda d: translate(m, d), step_no, t3x, returning=False)
            key = cache_identity(spec)
            inconsistent = bool(m) and not is_ddl and key in first_none and first_none[key] != (None in m)
            try:
                run(sa, engA, stmtA, params, m, st_["how"], capA)
            except (exc.InvalidRequestError, exc.StatementError) as e:
                if isinstance(e, exc.StatementError) and not isinstance(e.orig, exc.InvalidRequestError):
                    raise
                if inconsistent and "consistent keys" in str(e):
                    continue
                viol = Violation("C16/rec/unexpected-InvalidRequestError", f"{case['dialect']} step {step_no} {spec} map={m}: {e}", observed=str(e))
                break
            if m and not is_ddl and key not in first_none:
                first_none[key] = None in m
            if is_ddl:
                t3_state[target3] = not t3x
            run(sa, engB, stmtB, params, None, "conn", capB)
            a = [(r[0], r[1]) for r in capA.rows]
            b = [(r[0], r[1]) for r in capB.rows]
            if m and any(v is None for v in m.values()):
                strip = lambda rows: [(s.replace(default + ".", "").replace(f"[{default}].", "").replace(f'"{default}".', "").replace(f"`{default}`.", ""), p) for s, p in rows]  # noqa: E731
                a, b = strip(a), strip(b)
            if a != b and case["dialect"] == "mssql" and len(a) == len(b) and all(x == y or (x[0].startswith("SET IDENTITY_INSERT") and y[0].startswith("SET IDENTITY_INSERT")) for x, y in zip(a, b)):
                viol = Violation(
                    "C16/rec/mssql/identity-insert-uses-first-compiled-map",
                    f"mssql step {step_no} map={m}: SET IDENTITY_INSERT names the schema of the map the cached statement was first compiled with, the INSERT itself the current one\nmapped: {a}\ntwin:   {b}",
                    observed=repr(a),
                    expected=repr(b),
                )
                break
            if a != b:
                viol = Violation(
                    f"C16/rec/{case['dialect'].split('_')[0]}/{'ddl' if is_ddl else 'sql'}",
                    f"{case['dialect']} step {step_no} ({spec['kind']}, how={st_['how']}) map={m}: cursor-level statement differs from the baked twin\nmapped: {a}\ntwin:   {b}",
                    observed=repr(a),
                    expected=repr(b),
                )
                break
    finally:
        capA.close()
        capB.close()
        engA.dispose()
        engB.dispose()
    ctx.note(case, nt, classes=classes + ["dialect=" + case["dialect"]])
    if viol is not None:
        raise viol


def subs(tier):
    return [
        Generated("live", check_live, strategy=histories, quick=1500, thorough=30000),
        Generated("rec", check_rec, strategy=rec_histories, quick=1200, thorough=30000),
    ]
