"""C23 - Connection transactions and savepoints have nested-transaction semantics.

Programs-as-data over ONE Connection (plus stale handles / closed connections):
begin, begin_nested, execute(INSERT unique token), commit/rollback/close of any
transaction handle ever created (live or ended), Connection.commit/rollback,
close + reconnect, real ``with`` blocks (recursive bodies, optional exception).

Reference model: ``committed`` token set + stack of frames (root + savepoints),
handle table (active / ended), per-connection stack of enclosing context
managers.  After every op:

* live tier (file SQLite, non-legacy transaction control): an independent raw
  sqlite3 connection sees exactly ``committed``; the DBAPI connection under test
  sees committed + every live frame;
* recording tier (real PG / MySQL dialect+driver over a recording DBAPI): the
  DBAPI call log (INSERT / SAVEPOINT / RELEASE / ROLLBACK TO / commit() /
  rollback() / close()) is interpreted by a tiny transactional simulator
  (``_TxSim``) which must end up with the same committed / visible sets and
  must never see an unknown or duplicate savepoint name or a call after close;
* both: in_transaction(), in_nested_transaction(), get_transaction(),
  get_nested_transaction() identity and every handle's is_active agree with the
  model; raised errors are the documented ones and change nothing.
"""
from __future__ import annotations

import re
import warnings

from hypothesis import strategies as st

from vf.api import Generated, Violation

PROPERTY = "C23"
LEVEL = "exploration"
RULE = (
    "programs (<=40 executed ops, `with` bodies nested <=3 deep) over one Connection: begin / begin_nested / INSERT of a fresh token / "
    "commit|rollback|close of handle[i % n] (live or ended) / out-of-order end of a non-innermost savepoint (database effect judged, then root ended) / Connection.commit|rollback / close+reconnect / use of a closed Connection / "
    "`with conn.begin()|begin_nested()|handle:` blocks with optional exception. live: file SQLite judged by an independent sqlite3 observer; "
    "rec-pg / rec-mysql: psycopg2 / pymysql dialects over a recording DBAPI judged by a log-driven transaction simulator. "
    "Non-trivial: savepoint depth >=2 reached AND a savepoint rollback is later followed by an outer commit, OR >=1 misuse op "
    "(op on an ended handle, begin while begun, op inside a `with` whose transaction already ended, use of a closed Connection); "
    "distinct = canonical JSON of the program"
)
ASSUMPTIONS = [
    "SQLite runs in the documented non-legacy mode connect_args={'autocommit': False}; driver-level AUTOCOMMIT segments are out of scope on the live tier "
    "(documented as incompatible with that mode in dialects/sqlite/base.py) and not generated",
    "PostgreSQL / MySQL are call-log level only: real dialect+driver classes over a recording DBAPI, judged by the harness transaction simulator (_TxSim)",
    "rollback()/close() on an ended handle is a silent no-op (test_transaction.py: 'no error'), commit() on an ended handle raises InvalidRequestError",
    "a `with` block is never entered twice on the same handle while it is already an enclosing block (re-entrancy is not in the property's misuse list)",
    "known findings are excluded by construction and pinned: (1) rollback()/close() of an ENDED RootTransaction while a later transaction has a live savepoint, "
    "(2) commit/rollback of a savepoint that is not the innermost live one (out-of-order), (3) commit/rollback of a live savepoint inside a `with` block "
    "whose own transaction already ended",
    "the reference model and _TxSim in checks/c23.py are trusted",
]

MAX_OPS = 40
_INS = re.compile(r"insert into t values \((\d+)\)", re.I)


class _Boom(Exception):
    pass


SIG_STALE_ROOT = "C23/ended-root-rollback/cancels-live-savepoint"
SIG_OUT_OF_ORDER = "C23/out-of-order-savepoint/inner-handle-stays-active"
SIG_BLOCKED_SP = "C23/savepoint-op-inside-ended-with/raises-but-ends-handle"


class _Finding:
    def __init__(self, sig):
        self.sig = sig

    def __enter__(self):
        return self

    def __exit__(self, et, ev, tb):
        if et is not None and issubclass(et, Violation):
            raise Violation(self.sig, f"[{ev.signature}] {ev.message}", observed=ev.observed, expected=ev.expected) from ev
        return False


# ------------------------------------------------------------------ log-driven DB simulator (recording tier)
class _TxSim:
    """interprets the DBAPI call log of a recording engine as a transactional
    database with savepoints (per DBAPI connection)"""

    def __init__(self, db):
        self.db = db
        self.pos = 0
        self.committed = set()
        self.st = {}  # conn id -> {"base": set, "sp": [[name, set]], "closed": bool}
        self.problems = []

    def _c(self, cid):
        return self.st.setdefault(cid, {"base": set(), "sp": [], "closed": False})

    def pump(self):
        log = self.db.log
        while self.pos < len(log):
            cid, site, detail = log[self.pos]
            self.pos += 1
            if cid is None:
                continue
            c = self._c(cid)
            if c["closed"] and site != "close":
                self.problems.append(("call-after-close", site, detail))
                continue
            if site == "execute":
                stmt = detail[0].strip()
                low = stmt.lower()
                m = _INS.match(stmt)
                if m:
                    (c["sp"][-1][1] if c["sp"] else c["base"]).add(int(m.group(1)))
                elif low.startswith("savepoint "):
                    name = stmt.split()[1]
                    if any(n == name for n, _ in c["sp"]):
                        self.problems.append(("duplicate-savepoint-name", name, None))
                    c["sp"].append([name, set()])
                elif low.startswith("release savepoint "):
                    name = stmt.split()[2]
                    idx = self._find(c, name)
                    if idx is None:
                        self.problems.append(("release-unknown-savepoint", name, None))
                        continue
                    merged = set()
                    for _, toks in c["sp"][idx:]:
                        merged |= toks
                    del c["sp"][idx:]
                    (c["sp"][-1][1] if c["sp"] else c["base"]).update(merged)
                elif low.startswith("rollback to savepoint "):
                    name = stmt.split()[3]
                    idx = self._find(c, name)
                    if idx is None:
                        self.problems.append(("rollback-to-unknown-savepoint", name, None))
                        continue
                    del c["sp"][idx + 1 :]
                    c["sp"][idx][1] = set()
                else:
                    self.problems.append(("unrecognised-statement", stmt, None))
            elif site == "commit":
                self.committed |= c["base"]
                for _, toks in c["sp"]:
                    self.committed |= toks
                c["base"], c["sp"] = set(), []
            elif site == "rollback":
                c["base"], c["sp"] = set(), []
            elif site == "close":
                c["base"], c["sp"] = set(), []
                c["closed"] = True

    @staticmethod
    def _find(c, name):
        for i in range(len(c["sp"]) - 1, -1, -1):
            if c["sp"][i][0] == name:
                return i
        return None

    def visible(self, cid):
        c = self._c(cid)
        out = set(self.committed) | c["base"]
        for _, toks in c["sp"]:
            out |= toks
        return out


# ------------------------------------------------------------------ backends
class _Live:
    name = "live"

    def __init__(self, ctx):
        from sqlalchemy import text
        from vf import sautil

        self.eng = sautil.file_engine(ctx)
        with self.eng.begin() as c:
            c.execute(text("create table t (x integer)"))
        self.obs = sautil.raw_connect(self.eng._vf_path)

    def committed(self):
        return {r[0] for r in self.obs.execute("select x from t")}

    def visible(self, conn):
        raw = conn.connection.dbapi_connection
        return {r[0] for r in raw.execute("select x from t")}

    def problems(self):
        return []

    def close(self):
        from vf import sautil

        self.obs.close()
        sautil.remove_db(self.eng)


class _Rec:
    def __init__(self, url, name):
        from vf import fakedb

        self.name = name
        self.eng, self.db = fakedb.recording_engine(url)
        self.sim = _TxSim(self.db)

    def committed(self):
        self.sim.pump()
        return set(self.sim.committed)

    def visible(self, conn):
        self.sim.pump()
        return self.sim.visible(conn.connection.dbapi_connection.id)

    def problems(self):
        self.sim.pump()
        out = list(self.sim.problems)
        out += [("use-after-close",) + tuple(map(str, x)) for x in self.db.use_after_close]
        return out

    def close(self):
        self.eng.dispose()


# ------------------------------------------------------------------ interpreter (model + real system in lock step)
class _H:
    __slots__ = ("kind", "active", "gen", "obj")

    def __init__(self, kind, gen, obj):
        self.kind, self.active, self.gen, self.obj = kind, True, gen, obj


class _Run:
    def __init__(self, backend, case):
        from sqlalchemy import exc, text

        self.exc, self.text = exc, text
        self.b = backend
        self.pinned = bool(case.get("pinned"))
        self.conn = backend.eng.connect()
        self.gen = 0
        self.closed_conns = []
        self.handles = []  # _H
        self.frames = []  # [hid, set()] ; frames[0] is the root
        self.committed = set()
        self.cms = []  # (hid, gen) of enclosing with-blocks
        self.tok = 0
        self.nops = 0
        self.trace = []
        # classification
        self.max_depth = 0
        self.sp_rollback_seen = False
        self.sp_rb_then_commit = False
        self.misuse = 0
        self.cls = set()
        self.excluded = []

    # ---- model helpers
    def cm_blocked(self):
        for hid, gen in reversed(self.cms):
            if gen == self.gen:
                return not self.handles[hid].active
        return False

    def frame_index(self, hid):
        for i, f in enumerate(self.frames):
            if f[0] == hid:
                return i
        return None

    def _end_from(self, idx):
        for f in self.frames[idx:]:
            self.handles[f[0]].active = False
        del self.frames[idx:]

    def m_commit(self, hid):
        i = self.frame_index(hid)
        if i == 0:
            for f in self.frames:
                self.committed |= f[1]
            self._end_from(0)
            if self.sp_rollback_seen:
                self.sp_rb_then_commit = True
            self.sp_rollback_seen = False
            self.cls.add("root-commit")
        else:
            merged = set()
            for f in self.frames[i:]:
                merged |= f[1]
            self._end_from(i)
            self.frames[-1][1] |= merged
            self.cls.add("sp-release")

    def m_rollback(self, hid):
        i = self.frame_index(hid)
        if i == 0:
            self.sp_rollback_seen = False
            self.cls.add("root-rollback")
        else:
            if any(f[1] for f in self.frames[i:]):
                self.sp_rollback_seen = True
            self.cls.add("sp-rollback")
        self._end_from(i)

    # ---- real helpers
    def _register(self, kind, obj):
        self.handles.append(_H(kind, self.gen, obj))
        return len(self.handles) - 1

    def _note_autobegin(self):
        """after an op that may have autobegun: register the implicit root"""
        if not self.frames:
            root = self.conn.get_transaction()
            if root is None:
                raise Violation("C23/autobegin/no-root-transaction", f"no RootTransaction after autobegin; trace={self.trace}")
            hid = self._register("root", root)
            self.frames.append([hid, set()])
            self.cls.add("autobegin")

    def call(self, label, fn, expect):
        """expect: 'ok' | 'IRE' | 'RCE'.  returns the result for 'ok'"""
        exc = self.exc
        try:
            r = fn()
        except exc.ResourceClosedError as e:
            if expect != "RCE":
                raise Violation(f"C23/{label}/unexpected-ResourceClosedError", f"{label}: model expected {expect}, got ResourceClosedError: {e}; trace={self.trace}",
                                observed="ResourceClosedError", expected=expect)
            return None
        except exc.InvalidRequestError as e:
            if expect != "IRE":
                raise Violation(f"C23/{label}/unexpected-{type(e).__name__}", f"{label}: model expected {expect}, got {type(e).__name__}: {e}; trace={self.trace}",
                                observed=type(e).__name__, expected=expect)
            return None
        except exc.DBAPIError as e:
            raise Violation(f"C23/{label}/database-error", f"{label}: model expected {expect}, database said {type(e).__name__}: {str(e)[:300]}; trace={self.trace}",
                            observed=str(e)[:300], expected=expect)
        if expect != "ok":
            raise Violation(f"C23/{label}/no-error", f"{label}: model expected {expect} but the call returned normally; trace={self.trace}",
                            observed="returned", expected=expect)
        return r

    def finding(self, sig):
        """pinned replays only: a disagreement inside this block is attributed
        to the known root cause ``sig``"""
        return _Finding(sig)

    # ---- ops
    def op_begin(self):
        if self.cm_blocked():
            self.misuse += 1
            self.cls.add("misuse:inside-ended-with")
            self.call("begin", self.conn.begin, "IRE")
        elif self.frames:
            self.misuse += 1
            self.cls.add("misuse:begin-while-begun")
            self.call("begin", self.conn.begin, "IRE")
        else:
            obj = self.call("begin", self.conn.begin, "ok")
            hid = self._register("root", obj)
            self.frames.append([hid, set()])
            return hid
        return None

    def op_nested(self):
        if self.cm_blocked():
            self.misuse += 1
            self.cls.add("misuse:inside-ended-with")
            self.call("begin_nested", self.conn.begin_nested, "IRE")
            return None
        obj = self.call("begin_nested", self.conn.begin_nested, "ok")
        self._note_autobegin()
        hid = self._register("nested", obj)
        self.frames.append([hid, set()])
        self.max_depth = max(self.max_depth, len(self.frames) - 1)
        return hid

    def op_ins(self):
        self.tok += 1
        n = self.tok
        stmt = self.text(f"insert into t values ({n})")
        if self.cm_blocked():
            self.misuse += 1
            self.cls.add("misuse:inside-ended-with")
            self.call("execute", lambda: self.conn.execute(stmt), "IRE")
            return
        self.call("execute", lambda: self.conn.execute(stmt), "ok")
        self._note_autobegin()
        self.frames[-1][1].add(n)

    def op_handle(self, i, m, variant=None):
        variant = i if variant is None else variant
        if not self.handles:
            return
        hid = i % len(self.handles)
        h = self.handles[hid]
        fn = getattr(h.obj, m)
        label = f"{h.kind}.{m}"
        if not h.active:
            self.misuse += 1
            self.cls.add(f"misuse:{m}-on-ended-{h.kind}")
            if m == "commit":
                self.call(label + "-ended", fn, "IRE")
                return
            # known finding 1: rollback()/close() of an ended root cancels the
            # live savepoint of whatever transaction is current
            if h.kind == "root" and h.gen == self.gen and len(self.frames) > 1:
                if not self.pinned:
                    self.excluded.append("rollback/close of an ended RootTransaction while a later transaction has a live savepoint (known finding)")
                    return
                with self.finding(SIG_STALE_ROOT):
                    self.call(label + "-ended", fn, "ok")
                    self.check_state("h")
                return
            self.call(label + "-ended", fn, "ok")
            return
        idx = self.frame_index(hid)
        if h.kind == "nested" and self.cm_blocked():
            # known finding 3: the savepoint statement is refused by the
            # context-manager check, but the handle is ended anyway
            self.misuse += 1
            self.cls.add("misuse:savepoint-op-inside-ended-with")
            if not self.pinned:
                self.excluded.append("commit/rollback of a live savepoint inside a `with` block whose transaction already ended (known finding)")
                return
            with self.finding(SIG_BLOCKED_SP):
                self.call(label + "-blocked", fn, "IRE")
                self.check_state("h")
            return
        out_of_order = h.kind == "nested" and idx != len(self.frames) - 1
        if out_of_order:
            self.cls.add("out-of-order")
            if not self.pinned:
                # the registered finding is about HANDLE state (the inner handles stay active); the DATABASE effect is still
                # judged: ending savepoint k rolls back / releases everything since k including inner savepoints.  The op is run
                # for real, only the data is compared, and the root transaction is ended right away (which cancels every
                # savepoint handle on both sides) before flags are compared again.
                self.excluded.append("handle state after commit/rollback of a savepoint that is not the innermost live one (known finding; database effect still judged)")
                self.cls.add(f"out-of-order-db-effect:{m}")
                if m == "commit":
                    self.m_commit(hid)
                else:
                    self.m_rollback(hid)
                self.call(label + "-out-of-order", fn, "ok")
                self.check_data(f"out-of-order {label}")
                if not self.cms and variant % 3 == 0:
                    self.tok += 1
                    n = self.tok
                    self.call("execute", lambda: self.conn.execute(self.text(f"insert into t values ({n})")), "ok")
                    self.frames[-1][1].add(n)
                    self.check_data(f"insert after out-of-order {label}")
                self.op_conn("commit" if variant % 2 == 0 else "rollback")
                return
        if m == "commit":
            self.m_commit(hid)
        else:
            self.m_rollback(hid)
        if out_of_order:
            with self.finding(SIG_OUT_OF_ORDER):
                self.call(label, fn, "ok")
                self.check_state("h")
            return
        self.call(label, fn, "ok")

    def op_conn(self, m):
        if self.frames:
            hid = self.frames[0][0]
            if m == "commit":
                self.m_commit(hid)
            else:
                self.m_rollback(hid)
        else:
            self.cls.add("conn-" + m + "-noop")
        self.call("Connection." + m, getattr(self.conn, m), "ok")

    def op_reopen(self):
        if self.frames:
            self.m_rollback(self.frames[0][0])
            self.cls.add("close-with-open-transaction")
        self.call("Connection.close", self.conn.close, "ok")
        self.closed_conns.append(self.conn)
        self.gen += 1
        self.conn = self.b.eng.connect()

    def op_closed_use(self, i, m):
        if not self.closed_conns:
            return
        c = self.closed_conns[i % len(self.closed_conns)]
        self.misuse += 1
        self.cls.add("misuse:closed-connection")
        if m == "ins":
            self.call("closed.execute", lambda: c.execute(self.text("insert into t values (0)")), "RCE")
        elif m == "begin":
            self.call("closed.begin", c.begin, "RCE")
        elif m == "nested":
            self.call("closed.begin_nested", c.begin_nested, "RCE")
        else:
            self.call("closed." + m, getattr(c, m), "ok")
        if c.in_transaction() or c.in_nested_transaction() or not c.closed:
            raise Violation("C23/closed-connection/state", f"closed Connection reports in_transaction={c.in_transaction()} closed={c.closed}; trace={self.trace}")

    def op_with(self, op):
        kind = op["k"]
        if kind == "handle":
            if not self.handles:
                return self.run_body(op["body"])
            hid = op.get("i", 0) % len(self.handles)
            if any(h == hid for h, _ in self.cms):
                return self.run_body(op["body"])  # no re-entrant `with` (see ASSUMPTIONS)
            h0 = self.handles[hid]
            if not h0.active:
                self.misuse += 1
                self.cls.add("misuse:with-on-ended-handle")
                if h0.kind == "root" and h0.gen == self.gen and len(self.frames) > 1 and not self.pinned:
                    # __exit__ would call close() on the ended root -> known finding 1
                    # (inside the block nothing can be begun, so frames cannot grow)
                    self.excluded.append("`with ended_root:` while a later transaction has a live savepoint (known finding)")
                    return self.run_body(op["body"])
        elif kind == "begin":
            hid = self.op_begin()
        else:
            hid = self.op_nested()
        if hid is None:
            return  # the with-expression raised (as modelled); body is not run
        h = self.handles[hid]
        self.cls.add("with-" + kind + ("-exc" if op.get("exc") else ""))
        try:
            with h.obj:
                self.cms.append((hid, h.gen))
                try:
                    self.run_body(op["body"])
                    self._fix_order_before_exit(hid)
                    # model of __exit__, applied just before the real one runs
                    if h.active:
                        if op.get("exc"):
                            self.m_rollback(hid)
                        else:
                            self.m_commit(hid)
                    else:
                        self.cls.add("with-exit-after-ended")
                finally:
                    self.cms.pop()
                if op.get("exc"):
                    raise _Boom()
        except _Boom:
            pass
        except self.exc.SQLAlchemyError as e:
            raise Violation(f"C23/with-exit/{type(e).__name__}", f"__exit__ of {h.kind} raised {type(e).__name__}: {str(e)[:300]}; trace={self.trace}")
        self.check_state("with-exit")

    def _fix_order_before_exit(self, hid):
        """a `with savepoint:` block that leaves inner savepoints open would
        RELEASE / ROLLBACK TO out of order at exit (known finding 2): unless
        pinned, end the inner ones first, innermost first"""
        h = self.handles[hid]
        if self.pinned:
            return
        if not h.active or h.kind != "nested":
            return
        idx = self.frame_index(hid)
        while len(self.frames) - 1 > idx:
            inner = self.frames[-1][0]
            self.excluded.append("`with savepoint:` exit with inner savepoints still open (out-of-order, known finding)")
            self.m_rollback(inner)
            self.call("nested.rollback", self.handles[inner].obj.rollback, "ok")

    # ---- driver
    def run_body(self, ops):
        for op in ops:
            if self.nops >= MAX_OPS:
                return
            self.nops += 1
            k = op["op"]
            self.trace.append(_short(op))
            if k == "begin":
                self.op_begin()
            elif k == "nested":
                self.op_nested()
            elif k == "ins":
                self.op_ins()
            elif k == "h":
                self.op_handle(op["i"], op["m"])
            elif k == "top":
                if self.frames:
                    self.op_handle(self.frames[-1][0], op["m"])
            elif k == "outer":
                # model-directed out-of-order: a live savepoint that is NOT the innermost one
                j = len(self.frames) - 1 - op["d"]
                if j >= 1:
                    self.op_handle(self.frames[j][0], op["m"], variant=op["v"])
            elif k == "conn":
                self.op_conn(op["m"])
            elif k == "reopen":
                if self.cms:
                    self.op_conn("rollback")
                else:
                    self.op_reopen()
            elif k == "closed":
                self.op_closed_use(op["i"], op["m"])
            elif k == "with":
                self.op_with(op)
                continue  # state already checked
            else:
                raise ValueError(k)
            self.check_state(k)

    def check_state(self, after):
        conn = self.conn
        t = self.trace
        exp_in = bool(self.frames)
        exp_nested = len(self.frames) > 1
        if conn.in_transaction() != exp_in:
            raise Violation("C23/flags/in_transaction", f"after {after}: in_transaction()={conn.in_transaction()} model={exp_in}; trace={t}",
                            observed=conn.in_transaction(), expected=exp_in)
        if conn.in_nested_transaction() != exp_nested:
            raise Violation("C23/flags/in_nested_transaction", f"after {after}: in_nested_transaction()={conn.in_nested_transaction()} model={exp_nested}; trace={t}",
                            observed=conn.in_nested_transaction(), expected=exp_nested)
        exp_root = self.handles[self.frames[0][0]].obj if self.frames else None
        if conn.get_transaction() is not exp_root:
            raise Violation("C23/flags/get_transaction", f"after {after}: get_transaction() is not the model's root ({exp_root!r}); trace={t}")
        exp_top = self.handles[self.frames[-1][0]].obj if exp_nested else None
        if conn.get_nested_transaction() is not exp_top:
            raise Violation("C23/flags/get_nested_transaction", f"after {after}: get_nested_transaction() is not the model's innermost savepoint; trace={t}")
        for hid, h in enumerate(self.handles):
            if bool(h.obj.is_active) != h.active:
                raise Violation(f"C23/flags/is_active/{h.kind}", f"after {after}: handle {hid} ({h.kind}) is_active={h.obj.is_active} model={h.active}; trace={t}",
                                observed=h.obj.is_active, expected=h.active)
        self.check_data(after)

    def check_data(self, after):
        conn = self.conn
        t = self.trace
        got = self.b.committed()
        if got != self.committed:
            raise Violation(_data_sig("committed", got, self.committed), f"after {after}: other connections see {sorted(got)} model committed={sorted(self.committed)}; trace={t}",
                            observed=sorted(got), expected=sorted(self.committed))
        if not conn.closed and not conn.invalidated:
            live = set(self.committed)
            for f in self.frames:
                live |= f[1]
            vis = self.b.visible(conn)
            if vis != live:
                raise Violation(_data_sig("visible", vis, live), f"after {after}: the connection itself sees {sorted(vis)} model={sorted(live)}; trace={t}",
                                observed=sorted(vis), expected=sorted(live))
        probs = self.b.problems()
        if probs:
            raise Violation(f"C23/{self.b.name}/{probs[0][0]}", f"after {after}: DBAPI call log problem {probs[:3]}; trace={t}", observed=probs[:5])

    def finish(self):
        if self.frames:
            cls = set(self.cls)
            self.m_rollback(self.frames[0][0])
            self.cls = cls
        self.conn.close()
        self.trace.append("final-close")
        got = self.b.committed()
        if got != self.committed:
            raise Violation(_data_sig("committed", got, self.committed), f"after final close: other connections see {sorted(got)} model committed={sorted(self.committed)}; trace={self.trace}",
                            observed=sorted(got), expected=sorted(self.committed))
        for hid, h in enumerate(self.handles):
            if h.obj.is_active:
                raise Violation(f"C23/flags/is_active/{h.kind}", f"handle {hid} still active after Connection.close(); trace={self.trace}")
        probs = self.b.problems()
        if probs:
            raise Violation(f"C23/{self.b.name}/{probs[0][0]}", f"DBAPI call log problem {probs[:3]}; trace={self.trace}", observed=probs[:5])


def _data_sig(which, got, want):
    if got - want and not (want - got):
        return f"C23/data/{which}/extra-rows"
    if want - got and not (got - want):
        return f"C23/data/{which}/missing-rows"
    return f"C23/data/{which}/differs"


def _short(op):
    k = op["op"]
    if k == "h":
        return f"h{op['i']}.{op['m']}"
    if k == "conn":
        return f"conn.{op['m']}"
    if k == "top":
        return f"top.{op['m']}"
    if k == "outer":
        return f"outer{op['d']}.{op['m']}/{op['v']}"
    if k == "closed":
        return f"closed{op['i']}.{op['m']}"
    if k == "with":
        return f"with-{op['k']}{'!' if op.get('exc') else ''}[{len(op['body'])}]"
    return k


def _check(case, ctx, make_backend):
    b = make_backend(ctx)
    run = _Run(b, case)
    noted = False

    def note():
        nontrivial = (run.max_depth >= 2 and run.sp_rb_then_commit) or run.misuse > 0
        classes = set(run.cls)
        classes.add(f"depth{min(run.max_depth, 3)}")
        if run.sp_rb_then_commit:
            classes.add("sp-rollback-then-commit")
        if run.misuse:
            classes.add("misuse:any")
        if nontrivial:
            classes.add("NONTRIVIAL")
        ctx.note({"prog": case["prog"]}, nontrivial, classes=sorted(classes))
        for r in run.excluded:
            ctx.exclude(r)

    try:
        with warnings.catch_warnings():
            warnings.simplefilter("ignore")
            try:
                run.run_body(case["prog"])
                run.finish()
            finally:
                note()
                noted = True
    finally:
        if not noted:
            ctx.note({"prog": case["prog"]}, False)
        try:
            if not run.conn.closed:
                run.conn.close()
        except Exception:
            pass
        b.close()


def check_live(case, ctx):
    _check(case, ctx, lambda c: _Live(c))


def check_rec_pg(case, ctx):
    _check(case, ctx, lambda c: _Rec("postgresql+psycopg2://u:p@h/d", "rec-pg"))


def check_rec_mysql(case, ctx):
    _check(case, ctx, lambda c: _Rec("mysql+pymysql://u:p@h/d", "rec-mysql"))


# ------------------------------------------------------------------ generator
_idx = st.integers(0, 11)
_outer = st.builds(lambda d, m, v: {"op": "outer", "d": d, "m": m, "v": v}, st.integers(1, 2), st.sampled_from(["rollback", "rollback", "close", "commit"]), st.integers(0, 5))
_leaf = st.one_of(
    st.just({"op": "ins"}),
    st.just({"op": "ins"}),
    st.just({"op": "ins"}),
    st.just({"op": "ins"}),
    st.just({"op": "nested"}),
    st.just({"op": "nested"}),
    st.just({"op": "nested"}),
    st.just({"op": "begin"}),
    # model-directed: the innermost live transaction (keeps well-formed nesting frequent)
    st.builds(lambda m: {"op": "top", "m": m}, st.sampled_from(["commit", "rollback", "rollback", "close"])),
    st.builds(lambda m: {"op": "top", "m": m}, st.sampled_from(["commit", "rollback"])),
    st.builds(lambda m: {"op": "top", "m": m}, st.sampled_from(["commit", "rollback"])),
    # any handle ever created, live or ended (negative = most recent)
    st.builds(lambda i, m: {"op": "h", "i": i, "m": m}, st.integers(-3, 11), st.sampled_from(["commit", "rollback", "close"])),
    st.builds(lambda i, m: {"op": "h", "i": i, "m": m}, st.integers(-3, 11), st.sampled_from(["commit", "rollback", "close"])),
    st.builds(lambda m: {"op": "conn", "m": m}, st.sampled_from(["commit", "commit", "commit", "rollback"])),
    st.builds(lambda m: {"op": "conn", "m": m}, st.sampled_from(["commit", "commit", "commit", "rollback"])),
    _outer,
)


def _with(children):
    return st.builds(
        lambda k, i, body, exc: {"op": "with", "k": k, "i": i, "body": body, "exc": exc},
        st.sampled_from(["begin", "nested", "nested", "handle"]),
        _idx,
        st.lists(children, min_size=0, max_size=5),
        st.sampled_from([False, False, True]),
    )


_op = st.recursive(_leaf, lambda ch: st.one_of(ch, ch, ch, _with(ch)), max_leaves=12)
_top = st.one_of(
    *([_op] * 14),
    st.just({"op": "reopen"}),
    st.builds(lambda i, m: {"op": "closed", "i": i, "m": m}, _idx, st.sampled_from(["ins", "begin", "nested", "commit", "rollback"])),
)
_free = st.lists(_top, min_size=3, max_size=20)


# well-formed transaction trees (grammar based) with a little noise spliced in:
# keeps "savepoint rollback ... outer commit" and deep nesting frequent
def _flat(items):
    out = []
    for it in items:
        out.extend(it) if isinstance(it, list) else out.append(it)
    return out


def _sp(depth):
    inner = [st.just({"op": "ins"}), st.just({"op": "ins"})]
    if depth >= 2:
        inner.append(_outer)
    if depth < 3:
        inner.append(st.deferred(lambda: _sp(depth + 1)))
        inner.append(st.deferred(lambda: _sp(depth + 1)))
    return st.builds(
        lambda items, end, use_with, exc: (
            [{"op": "with", "k": "nested", "i": 0, "body": _flat(items), "exc": exc}]
            if use_with
            else [{"op": "nested"}] + _flat(items) + [{"op": "top", "m": end}]
        ),
        st.lists(st.one_of(*inner), min_size=1, max_size=3),
        st.sampled_from(["commit", "rollback", "rollback"]),
        st.sampled_from([False, False, True]),
        st.booleans(),
    )


_tx = st.builds(
    lambda explicit, items, end: ([{"op": "begin"}] if explicit else []) + _flat(items) + [{"op": "conn", "m": end}],
    st.booleans(),
    st.lists(st.one_of(st.just({"op": "ins"}), _sp(1), _sp(1)), min_size=1, max_size=4),
    st.sampled_from(["commit", "commit", "commit", "rollback"]),
)


def _splice(txs, noise):
    prog = _flat(txs)
    for pos, op in noise:
        prog.insert(pos % (len(prog) + 1), op)
    return prog


_wellformed = st.builds(_splice, st.lists(_tx, min_size=1, max_size=3), st.lists(st.tuples(st.integers(0, 60), _top), max_size=3))
_programs = st.builds(lambda p: {"prog": p}, st.one_of(_free, _wellformed))


def subs(tier):
    return [
        Generated("live", check_live, strategy=_programs, quick=800, thorough=60000),
        Generated("rec-pg", check_rec_pg, strategy=_programs, quick=400, thorough=20000),
        Generated("rec-mysql", check_rec_mysql, strategy=_programs, quick=400, thorough=20000),
    ]
