"""C06 - identifier quoting round-trips every representable name.

live tier (SQLite): names are used as table / column / index / constraint /
attached-schema names; DDL, INSERT, SELECT (WHERE, ORDER BY), UPDATE,
INSERT..RETURNING and DROP must execute and the Inspector must return the names.
pure tier (all preparers): quote + unformat_identifiers round trip, one-token
check by the backend's identifier grammar, core reserved words must be quoted.
"""
from __future__ import annotations

from hypothesis import strategies as st

from vf.api import Enumerated, Generated, Violation

PROPERTY = "C06"
LEVEL = "exploration"
RULE = (
    "kw_live: every keyword of the SQLite grammar (147, sqlite.org/lang_keywords.html) in lower/upper/capitalised form x role "
    "(table, column, index, constraint, schema); names_live: generated names (1-40 chars over an alphabet weighted to quote / escape / dot / "
    "percent / colon / bracket / space / unicode / leading digit) in every role at once, executed and reflected on SQLite; split: 1-4 generated "
    "components per preparer (sqlite, postgresql, mysql, mariadb, mssql, oracle, default) quoted, joined with '.', split back; reserved: core SQL "
    "reserved words per dialect must be quoted; qualified: histories of 2-6 renderings (format_table, CREATE TABLE, SELECT) of a table whose schema is one of 1-3 "
    "generated names (half of them dotted), plain or forced to one identifier with quoted_name(quote=True), in one process (MSSQL memoizes the split of dotted schema "
    "names): forced => exactly one identifier, every (schema, forced) renders the same whatever came before. Non-trivial: name is a keyword, or contains a quote/escape/dot/percent/space/non-ASCII char, "
    "or differs from its lower-case form; distinct = (sub, name tuple)"
)
ASSUMPTIONS = [
    "names containing NUL, the empty name, and names starting with 'sqlite_' (reserved by SQLite for internal objects) are outside the domain",
    "PostgreSQL / MariaDB / MSSQL / Oracle are never executed here: only their preparers' quote/split grammar is exercised (no server in this sandbox)",
    "'reserved' sub uses a conservative list of words reserved in every one of PG, MySQL, MSSQL, Oracle (SQL-92 core), not full vendor lists",
    "the driver un-doubles %% for format/pyformat paramstyles; the split check therefore un-doubles %% before comparing, as the design states",
    "reflection of UNIQUE / CHECK constraint *names* on SQLite is regex-based over sqlite_master text; compared only for names without the quote character itself",
]

SQLITE_KEYWORDS = """ABORT ACTION ADD AFTER ALL ALTER ALWAYS ANALYZE AND AS ASC ATTACH AUTOINCREMENT BEFORE BEGIN BETWEEN BY CASCADE CASE CAST
CHECK COLLATE COLUMN COMMIT CONFLICT CONSTRAINT CREATE CROSS CURRENT CURRENT_DATE CURRENT_TIME CURRENT_TIMESTAMP DATABASE DEFAULT DEFERRABLE
DEFERRED DELETE DESC DETACH DISTINCT DO DROP EACH ELSE END ESCAPE EXCEPT EXCLUDE EXCLUSIVE EXISTS EXPLAIN FAIL FILTER FIRST FOLLOWING FOR FOREIGN
FROM FULL GENERATED GLOB GROUP GROUPS HAVING IF IGNORE IMMEDIATE IN INDEX INDEXED INITIALLY INNER INSERT INSTEAD INTERSECT INTO IS ISNULL JOIN KEY
LAST LEFT LIKE LIMIT MATCH MATERIALIZED NATURAL NO NOT NOTHING NOTNULL NULL NULLS OF OFFSET ON OR ORDER OTHERS OUTER OVER PARTITION PLAN PRAGMA
PRECEDING PRIMARY QUERY RAISE RANGE RECURSIVE REFERENCES REGEXP REINDEX RELEASE RENAME REPLACE RESTRICT RETURNING RIGHT ROLLBACK ROW ROWS SAVEPOINT
SELECT SET TABLE TEMP TEMPORARY THEN TIES TO TRANSACTION TRIGGER UNBOUNDED UNION UNIQUE UPDATE USING VACUUM VALUES VIEW VIRTUAL WHEN WHERE WINDOW
WITH WITHOUT""".split()
assert len(SQLITE_KEYWORDS) == 147

# words reserved by the vendor grammar of each backend (conservative subsets of the vendors' published reserved-word lists)
_COMMON = "select from where table order group having union all distinct as and or not null in create into default on else then grant to with unique check column".split()
RESERVED = {
    "postgresql": _COMMON + "when case end primary foreign references constraint".split(),
    "mysql": _COMMON + "by between like is insert update delete values set drop alter add when case primary foreign references constraint".split(),
    "mariadb": _COMMON + "by between like is insert update delete values set drop alter add when case primary foreign references constraint".split(),
    "mssql": _COMMON + "by between like is insert update delete values set drop alter add when case end primary foreign references constraint".split(),
    # Oracle also reserves ADD and COLUMN (Oracle SQL Language Reference, "Oracle SQL Reserved Words"); the dialect's list lacks
    # both: listed known findings, pinned as replays (findings/C06/oracle_*.json), kept out of the enumeration
    "oracle": _COMMON[:-1] + "by between like is insert update delete values set drop alter".split(),
}
CORE_RESERVED = sorted(set(w for ws in RESERVED.values() for w in ws))

SPECIAL = set("\"'`[]. %:;\\/()-+*=<>!?@#$&|^~{},\n\t")


def _nontrivial_name(n):
    return n.upper() in set(SQLITE_KEYWORDS) or any(ch in SPECIAL or ord(ch) > 127 for ch in n) or n != n.lower() or n[:1].isdigit()


# --------------------------------------------------------------------------- live SQLite
def _live_roundtrip(names, ctx, where):
    """names: dict role->name for roles table, col, col2, index, uq, fk, ck, schema (None = plain)"""
    from sqlalchemy import (CheckConstraint, Column, ForeignKeyConstraint, Index, Integer, MetaData, String, Table, UniqueConstraint,
                            create_engine, event, insert, inspect, select, update)
    from sqlalchemy.pool import StaticPool

    eng = create_engine("sqlite://", poolclass=StaticPool)
    schema = names.get("schema")
    if schema is not None:
        from sqlalchemy import text

        @event.listens_for(eng, "connect")
        def _attach(dbapi_conn, rec):
            q = '"' + schema.replace('"', '""') + '"'
            dbapi_conn.execute(f"ATTACH DATABASE ':memory:' AS {q}")

    try:
        md = MetaData()
        tname, c1, c2 = names["table"], names["col"], names["col2"]
        parent = Table("vf_parent", md, Column("pid", Integer, primary_key=True), schema=schema)
        args = [
            Column("id", Integer, primary_key=True),
            Column(c1, Integer),
            Column(c2, String(30)),
            Column("par", Integer),
        ]
        if names.get("uq") is not None:
            args.append(UniqueConstraint(c1, c2, name=names["uq"]))
        if names.get("fk") is not None:
            args.append(ForeignKeyConstraint(["par"], [parent.c.pid], name=names["fk"]))
        if names.get("ck") is not None:
            args.append(CheckConstraint("id > -1", name=names["ck"]))
        t = Table(tname, md, *args, schema=schema)
        if names.get("index") is not None:
            Index(names["index"], t.c[c1], t.c[c2])

        def step(sig, fn):
            try:
                return fn()
            except Exception as e:  # any failure executing a statement built from a representable name
                from sqlalchemy.exc import SQLAlchemyError

                if isinstance(e, SQLAlchemyError):
                    if "KeyError" in str(e)[:80] and any(v and "%(" in v for v in names.values()):
                        sig = "identifier-percent-paren"  # bind-template regex applied to the finished statement text (registered finding)
                    raise Violation(f"C06/sqlite/{sig}", f"{where}: {sig} failed for {names!r}: {type(e).__name__}: {str(e)[:300]}",
                                    observed=str(e)[:500], expected="statement executes")
                raise

        with eng.connect() as conn:
            step("create", lambda: md.create_all(conn))
            step("insert", lambda: conn.execute(insert(t), [{"id": 1, c1: 10, c2: "x"}, {"id": 2, c1: 5, c2: "y"}] if c1 != "id" and c2 != "id" else [{"id": 1}]))
            cc1, cc2 = t.c[c1], t.c[c2]
            rows = step("select", lambda: conn.execute(select(t.c.id, cc1, cc2).where(cc1 >= 5).order_by(cc1, cc2)).all())
            if [tuple(r) for r in rows] != [(2, 5, "y"), (1, 10, "x")]:
                raise Violation("C06/sqlite/select-rows", f"{where}: select over {names!r} returned {rows}", observed=str(rows), expected="[(2,5,'y'),(1,10,'x')]")
            keys = step("select-keys", lambda: list(conn.execute(select(cc1, cc2)).keys()))
            if keys != [c1, c2]:
                raise Violation("C06/sqlite/result-keys", f"{where}: result keys {keys} != {[c1, c2]}", observed=keys, expected=[c1, c2])
            step("update", lambda: conn.execute(update(t).where(cc2 == "x").values({cc1: 11})))
            ret = step("insert-returning", lambda: conn.execute(insert(t).values({"id": 3, cc1: 7, cc2: "z"}).returning(cc1, cc2)).all())
            if [tuple(r) for r in ret] != [(7, "z")]:
                raise Violation("C06/sqlite/returning-rows", f"{where}: RETURNING gave {ret}")
            insp = inspect(conn)
            tn = step("reflect-tables", lambda: insp.get_table_names(schema=schema))
            if tname not in tn:
                raise Violation("C06/sqlite/reflect-table-name", f"{where}: table {tname!r} not in reflected {tn}", observed=tn, expected=tname)
            cols = step("reflect-columns", lambda: [c["name"] for c in insp.get_columns(tname, schema=schema)])
            if cols != ["id", c1, c2, "par"]:
                raise Violation("C06/sqlite/reflect-column-name", f"{where}: columns {cols} != {['id', c1, c2, 'par']}", observed=cols, expected=["id", c1, c2, "par"])
            if names.get("index") is not None:
                ix = step("reflect-indexes", lambda: insp.get_indexes(tname, schema=schema))
                got = [(i["name"], i["column_names"]) for i in ix]
                if (names["index"], [c1, c2]) not in got:
                    raise Violation("C06/sqlite/reflect-index", f"{where}: index {(names['index'], [c1, c2])} not in {got}", observed=got, expected=[names["index"], [c1, c2]])
            # SQLite reports constraint *names* by regex-parsing the stored CREATE TABLE text (dialects/sqlite/base.py
            # FK_PATTERN / UNIQUE_PATTERN / _find_cols_in_sig): names containing a double quote, a newline or a parenthesis
            # defeat those regexes.  Listed known finding; excluded here unless the case is the pinned replay.
            def _regex_hostile(*ns):
                return any(ch in n for n in ns for ch in '"\n()$')  # "$" : legal unquoted for SQLAlchemy, not matched by the [a-z0-9_]+ of the regexes

            if names.get("fk") is not None:
                if _regex_hostile(names["fk"], tname) and not names.get("pinned"):
                    ctx.exclude("sqlite constraint-name reflection with regex-hostile characters (known finding)")
                else:
                    fks = step("reflect-fks", lambda: insp.get_foreign_keys(tname, schema=schema))
                    got = [(f["name"], f["constrained_columns"], f["referred_table"]) for f in fks]
                    exp = (names["fk"], ["par"], "vf_parent")
                    if exp not in got:
                        sig = "C06/sqlite/reflect-constraint-name/regex-hostile-chars" if _regex_hostile(names["fk"], tname) else "C06/sqlite/reflect-fk-name"
                        raise Violation(sig, f"{where}: fk {exp} not in {got}", observed=got, expected=list(exp))
            if names.get("uq") is not None:
                if _regex_hostile(names["uq"], c1, c2, tname) and not names.get("pinned"):
                    ctx.exclude("sqlite constraint-name reflection with regex-hostile characters (known finding)")
                else:
                    uqs = step("reflect-uniques", lambda: insp.get_unique_constraints(tname, schema=schema))
                    got = [(u["name"], u["column_names"]) for u in uqs]
                    if (names["uq"], [c1, c2]) not in got:
                        sig = "C06/sqlite/reflect-constraint-name/regex-hostile-chars" if _regex_hostile(names["uq"], c1, c2, tname) else "C06/sqlite/reflect-unique-name"
                        raise Violation(sig, f"{where}: unique {(names['uq'], [c1, c2])} not in {got}", observed=got, expected=[names["uq"], [c1, c2]])
            # full reflection + re-use of the reflected table
            md2 = MetaData()
            t2 = step("autoload", lambda: Table(tname, md2, autoload_with=conn, schema=schema))
            n = step("select-reflected", lambda: conn.execute(select(t2.c[c1]).order_by(t2.c[c2])).all())
            if len(n) != 3:
                raise Violation("C06/sqlite/select-reflected", f"{where}: {n}")
            step("drop", lambda: md.drop_all(conn))
            left = insp = None
            left = inspect(conn).get_table_names(schema=schema)
            if tname in left:
                raise Violation("C06/sqlite/drop", f"{where}: table {tname!r} still present after drop")
    finally:
        eng.dispose()


def _kw_cases(tier):
    for kw in SQLITE_KEYWORDS:
        forms = [kw.lower(), kw, kw.capitalize()]
        for f in forms:
            for role in ("table", "col", "index", "uq", "fk", "ck", "schema"):
                if role == "schema" and kw == "TEMP":
                    continue  # "temp" is SQLite's built-in schema name; it cannot be ATTACHed a second time
                yield [f, role]


def check_kw_live(case, ctx):
    word, role = case
    names = {"table": "t1", "col": "c1", "col2": "c2", "index": "ix1", "uq": "uq1", "fk": "fk1", "ck": "ck1", "schema": None}
    names[role] = word
    ctx.note(case, True, classes=[role])
    _live_roundtrip(names, ctx, f"keyword {word!r} as {role}")


ALPHA = list("abcXYZ_019") + list("\"'`[]. %:;\\/()-$#@!?") + ["é", "ß", "日", "ё", "́", "😀", "\t"]


def _name_st(max_size=40):
    weighted = st.sampled_from(ALPHA)
    anychar = st.characters(blacklist_categories=["Cs"], blacklist_characters="\x00")
    return st.text(st.one_of(weighted, weighted, weighted, anychar), min_size=1, max_size=max_size).filter(lambda s: not s.lower().startswith("sqlite_"))


@st.composite
def _live_names(draw):
    kw = st.sampled_from(SQLITE_KEYWORDS).map(lambda k: k.lower())
    nm = st.one_of(_name_st(), _name_st(6), kw)
    names = {r: draw(nm) for r in ("table", "col", "col2", "index", "uq", "fk", "ck")}
    names["schema"] = draw(st.one_of(st.none(), st.none(), nm))
    return names


def check_names_live(case, ctx):
    names = dict(case)
    pinned = names.pop("pinned", False)
    if not pinned:
        # registered finding C06/sqlite/identifier-percent-paren: on positional paramstyles the finished statement is re-scanned with the
        # bind-template regex, so an identifier containing "%(" followed later by a bound parameter raises KeyError; trigger kept out
        # by construction (counted), one pinned replay keeps it
        for r, v in list(names.items()):
            if v and "%(" in v:
                ctx.exclude('identifier containing "%(" (known finding C06/sqlite/identifier-percent-paren)')
                names[r] = v.replace("%(", "%[")
    # SQLite identifiers are case-insensitive and objects share namespaces: keep the roles distinct
    fixed = {"id", "par", "vf_parent", "pid", "main", "temp"}
    seen = set(fixed)
    for r in ("table", "col", "col2", "index", "uq", "fk", "ck", "schema"):
        v = names.get(r)
        if v is None:
            continue
        k = v.lower()
        while k in seen:
            v = v + "_"
            k = v.lower()
        seen.add(k)
        names[r] = v
    nt = any(_nontrivial_name(v) for v in names.values() if v)
    ctx.note(names, nt, classes=[("schema" if names.get("schema") else "noschema")] + (["quotechar"] if any('"' in v for v in names.values() if v) else []))
    _live_roundtrip(names, ctx, "generated names")


# --------------------------------------------------------------------------- pure tier: split / quote grammar
DIALECTS = ["sqlite", "postgresql", "mysql", "mariadb", "mssql", "oracle", "default"]


def _preparer(name):
    if name == "default":
        from sqlalchemy.engine import default

        d = default.DefaultDialect()
    else:
        from sqlalchemy.engine import url as _url

        d = _url.make_url(name + "://").get_dialect()()
    return d, d.identifier_preparer


_PREP = {}


def check_split(case, ctx):
    dname, comps = case[0], list(case[1])
    if dname not in _PREP:
        _PREP[dname] = _preparer(dname)
    d, prep = _PREP[dname]
    nt = any(_nontrivial_name(c) for c in comps)
    ctx.note(case, nt, classes=[dname])
    quoted = [prep.quote(c) for c in comps]
    joined = ".".join(quoted)
    if prep._double_percents:
        joined_cmp = joined.replace("%%", "%")
    else:
        joined_cmp = joined
    back = prep.unformat_identifiers(joined_cmp)
    if list(back) != comps:
        raise Violation(f"C06/{dname}/unformat_identifiers", f"{dname}: components {comps!r} -> {joined!r} -> {list(back)!r}", observed=list(back), expected=comps)
    # one-token grammar: a quoted component must start with the initial quote, end with the final quote and
    # contain the final quote only doubled (escape_quote); an unquoted one must be a plain legal identifier
    iq, fq, eq = prep.initial_quote, prep.final_quote, prep.escape_quote
    for c, q in zip(comps, quoted):
        qc = q.replace("%%", "%") if prep._double_percents else q
        if qc.startswith(iq) and qc.endswith(fq) and len(qc) >= len(iq) + len(fq):
            inner = qc[len(iq):len(qc) - len(fq)]
            i = 0
            dec = []
            while i < len(inner):
                if inner.startswith(fq + fq, i):  # every built-in preparer escapes by doubling the closing quote
                    dec.append(fq)
                    i += 2 * len(fq)
                elif inner.startswith(fq, i):
                    raise Violation(f"C06/{dname}/quote-unescaped-delimiter", f"{dname}: quote({c!r}) = {q!r} contains an unescaped closing quote", observed=q)
                else:
                    dec.append(inner[i])
                    i += 1
            if "".join(dec) != c:
                raise Violation(f"C06/{dname}/quote-decode", f"{dname}: quote({c!r}) = {q!r} decodes to {''.join(dec)!r}", observed="".join(dec), expected=c)
        else:
            # left unquoted: must be safe to leave so
            if qc != c:
                raise Violation(f"C06/{dname}/unquoted-changed", f"{dname}: quote({c!r}) = {q!r}")
            lc = c.lower()
            if (lc in prep.reserved_words or not c or c[0] in prep.illegal_initial_characters or not prep.legal_characters.match(c) or lc != c):
                raise Violation(f"C06/{dname}/left-unquoted", f"{dname}: {c!r} needs quotes by the preparer's own rules but was emitted bare", observed=q)
            if any(ch in SPECIAL - {"$", "#", "@"} or ch.isspace() or ord(ch) > 127 for ch in c) or c[0].isdigit():
                raise Violation(f"C06/{dname}/left-unquoted", f"{dname}: {c!r} contains non-identifier characters but was emitted bare", observed=q)


@st.composite
def _split_cases(draw):
    d = draw(st.sampled_from(DIALECTS))
    comps = draw(st.lists(st.one_of(_name_st(12), st.sampled_from(SQLITE_KEYWORDS + CORE_RESERVED)), min_size=1, max_size=4))
    return [d, comps]


def _reserved_cases(tier):
    for d, words in RESERVED.items():
        for w in words:
            yield [d, w]


# SQLite accepts most of its keywords as bare identifiers ("fallback" tokens); whether a keyword *must* be quoted is
# decided behaviourally by kw_live.  Here only the words no backend accepts bare are demanded.
def check_reserved(case, ctx):
    dname, w = case
    if dname not in _PREP:
        _PREP[dname] = _preparer(dname)
    d, prep = _PREP[dname]
    ctx.note(case, True, classes=[dname])
    q = prep.quote(w)
    if q == w:
        raise Violation(f"C06/{dname}/reserved-word-not-quoted/{w}", f"{dname}: reserved word {w!r} emitted bare", observed=q, expected=f"quoted {w!r}")


# ------------------------------------------------------------------------------------ schema-qualified names, histories in one process
def check_qualified(case, ctx):
    """a history of schema-qualified table renderings in ONE process (the MSSQL dialect memoizes how it splits a dotted schema name):
    what is rendered for (schema, forced?) must not depend on what was rendered before, and a schema forced to be one identifier with
    quoted_name(.., quote=True) must come out as exactly one identifier on every dialect"""
    from sqlalchemy import Column, Integer, MetaData, Table, select
    from sqlalchemy.schema import CreateTable
    from sqlalchemy.sql.elements import quoted_name

    dname, names, steps = case["d"], case["names"], case["steps"]
    if dname not in _PREP:
        _PREP[dname] = _preparer(dname)
    d, prep = _PREP[dname]
    if dname == "mssql":
        from sqlalchemy.dialects.mssql import base as ms_base

        ms_base._memoized_schema.clear()  # process-wide memo: every case starts from the same state

    def render(name, forced):
        sch = quoted_name(name, True) if forced else name
        t = Table("t", MetaData(), Column("c", Integer), schema=sch)
        ft = prep.format_table(t)
        ddl = str(CreateTable(t).compile(dialect=d))
        sel = str(select(t.c.c).compile(dialect=d))
        head = ddl.strip().split(" (\n")[0]
        if not head.startswith("CREATE TABLE "):
            raise Violation(f"C06/{dname}/qualified/ddl-shape", f"unexpected DDL {ddl[:80]!r}")
        frm = sel.split("\nFROM ", 1)[1].strip() if "\nFROM " in sel else None
        return ft, head[len("CREATE TABLE "):], frm

    seen = {}
    dotted = forced_any = repeat = False
    for i, (ni, forced) in enumerate(steps):
        name = names[ni % len(names)]
        forced = bool(forced)
        ft, in_ddl, in_sel = render(name, forced)
        where = f"{dname} step {i}: schema {name!r} {'forced with quoted_name(quote=True)' if forced else 'plain'} after {[(names[a % len(names)], bool(b)) for a, b in steps[:i]]}"
        if not (ft == in_ddl == in_sel):
            raise Violation(f"C06/{dname}/qualified/renderings-disagree", f"{where}: format_table {ft!r}, CREATE TABLE {in_ddl!r}, SELECT..FROM {in_sel!r}")
        cmp_ = ft.replace("%%", "%") if prep._double_percents else ft
        comps = list(prep.unformat_identifiers(cmp_))
        dotted = dotted or "." in name
        forced_any = forced_any or forced
        if forced or dname != "mssql" or not any(ch in name for ch in ".[]"):
            # (the MSSQL dialect reads a plain schema string as multipart syntax - dots split database.owner, brackets quote a part - as
            # documented; such strings are judged by history independence only)
            if comps != [name, "t"]:
                raise Violation(f"C06/{dname}/qualified/schema-not-one-identifier", f"{where}: rendered {ft!r}, which reads as {comps!r}; expected {[name, 't']!r}", observed=comps, expected=[name, "t"])
        key = (name, forced)
        if key in seen:
            repeat = True
            if seen[key] != ft:
                raise Violation(f"C06/{dname}/qualified/history-dependent", f"{where}: rendered {ft!r}, earlier in the same process {seen[key]!r}")
        seen[key] = ft
    ctx.note(case, dotted and forced_any and len({n for n, _ in seen}) < len(seen) or (dotted and repeat), classes=[dname, "qualified", "dotted" if dotted else "undotted", "forced" if forced_any else "plain-only"])


@st.composite
def _qualified_cases(draw):
    dname = draw(st.sampled_from(["mssql", "mssql", "mssql", "postgresql", "mysql", "sqlite", "oracle"]))
    part = st.text(alphabet="abAB_1 ", min_size=1, max_size=4).filter(lambda x: x.strip() == x and x)
    name = st.one_of(part, st.tuples(part, part).map(".".join), st.tuples(part, part, part).map(".".join), _name_st(8))
    names = draw(st.lists(name, min_size=1, max_size=3, unique=True))
    steps = draw(st.lists(st.tuples(st.integers(0, 2), st.integers(0, 1)).map(list), min_size=2, max_size=6))
    return {"d": dname, "names": names, "steps": steps}


def subs(tier):
    return [
        Enumerated("kw_live", check_kw_live, cases=_kw_cases),
        Generated("names_live", check_names_live, strategy=_live_names(), quick=1200, thorough=60000),
        Generated("split", check_split, strategy=_split_cases(), quick=6000, thorough=400000),
        Enumerated("reserved", check_reserved, cases=_reserved_cases),
        Generated("qualified", check_qualified, strategy=_qualified_cases(), quick=2500, thorough=120000),
    ]
