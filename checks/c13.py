"""C13 - column defaults and onupdate fire exactly when the value is omitted.

Programs-as-data: a drawn table (2-5 data columns, each with a default kind and
an onupdate kind) and a drawn list of INSERT / UPDATE executions (Core single,
Core ``values()``, Core executemany, Core multi-VALUES, ORM flush, ORM bulk
INSERT / UPDATE).  Python-callable defaults are counters that hand out unique
tokens and log every call; the oracle is a per-row reference model compared with
a raw SELECT after every execution.
"""
from __future__ import annotations

from hypothesis import strategies as st

from checks import _dmlutil as du
from vf.api import Generated, Violation

PROPERTY = "C13"
LEVEL = "exploration"
RULE = (
    "drawn table: 2-5 string columns each with default in {none, scalar, callable, context-sensitive callable reading get_current_parameters(), "
    "SQL expression, server default} and onupdate in {none, scalar, callable, context-sensitive, SQL expression}; drawn program of 1-6 executions: "
    "Core INSERT single (params / values()), executemany (homogeneous key sets), multi-VALUES, each optionally with returning()/return_defaults(); "
    "Core UPDATE single / executemany; ORM flush INSERT/UPDATE and ORM bulk INSERT/UPDATE with heterogeneous key sets; every row supplies a drawn "
    "subset of columns incl. explicit None. Non-trivial: an executemany / bulk / multi-row execution in which rows omit a defaulted column, or an "
    "explicit None for a defaulted column, or a SQL-expression default fetched through RETURNING; distinct = canonical JSON of the case"
)
ASSUMPTIONS = [
    "Core executemany parameter sets are homogeneous (tutorial/data_insert.rst: only the first dictionary determines the VALUES columns)",
    "ORM unit of work and ORM bulk INSERT treat None like an omitted value (orm/queryguide/dml.rst 'Sending NULL values in ORM bulk INSERT statements'); "
    "an ORM UPDATE is emitted only for objects with a net attribute change",
    "context-sensitive defaults only read the always-supplied 'tok' value from get_current_parameters() (order of default evaluation between columns is unspecified)",
    "default callables are pure counters; SQL-expression defaults are deterministic functions (upper/lower of a literal)",
    "SQLite only (the only live backend)",
]

DEFAULT_KINDS = ["none", "scalar", "callable", "ctx", "sql", "server"]
ONUPDATE_KINDS = ["none", "scalar", "callable", "ctx", "sql"]


class _Gen:
    """logging token generator used as a Python-side default"""

    def __init__(self, prefix, with_ctx):
        self.prefix, self.with_ctx = prefix, with_ctx
        self.log = []
        if with_ctx:
            self.fn = lambda context: self._call(context)
        else:
            self.fn = lambda: self._call(None)

    def _call(self, context):
        n = len(self.log) + 1
        if context is not None:
            cp = context.get_current_parameters()
            tokv = cp.get("tok") if isinstance(cp, dict) else "<no-dict>"
            v = "%s[%s]#%d" % (self.prefix, tokv, n)
        else:
            v = "%s#%d" % (self.prefix, n)
        self.log.append(v)
        return v


def _build(sa, spec):
    """spec: list of [default_kind, onupdate_kind]; returns (metadata, table, gens)"""
    m = sa.MetaData()
    cols = [sa.Column("id", sa.Integer, primary_key=True), sa.Column("tok", sa.String(30), nullable=False)]
    gens = {}
    for j, (dk, uk) in enumerate(spec):
        kw = {}
        name = "c%d" % j
        if dk == "scalar":
            kw["default"] = "S%d" % j
        elif dk in ("callable", "ctx"):
            g = gens[(name, "d")] = _Gen("D%d" % j, dk == "ctx")
            kw["default"] = g.fn
        elif dk == "sql":
            kw["default"] = sa.func.upper("q%d" % j)
        elif dk == "server":
            kw["server_default"] = "sv%d" % j
        if uk == "scalar":
            kw["onupdate"] = "US%d" % j
        elif uk in ("callable", "ctx"):
            g = gens[(name, "u")] = _Gen("U%d" % j, uk == "ctx")
            kw["onupdate"] = g.fn
        elif uk == "sql":
            kw["onupdate"] = sa.func.lower("UQ%d" % j)
        cols.append(sa.Column(name, sa.String(40), **kw))
    return m, sa.Table("t", m, *cols), gens


class _Model:
    def __init__(self, spec, gens):
        self.spec, self.gens = spec, gens
        self.rows = {}  # tok -> {col: value}
        self.marks = {k: 0 for k in gens}  # how much of each generator log has been accounted for

    def names(self):
        return ["c%d" % j for j in range(len(self.spec))]

    def expect_insert(self, tok, supplied):
        """returns {col: ('val', v) | ('gen', key)}"""
        out = {}
        for j, (dk, uk) in enumerate(self.spec):
            n = "c%d" % j
            if n in supplied:
                out[n] = ("val", supplied[n])
            elif dk == "none":
                out[n] = ("val", None)
            elif dk == "scalar":
                out[n] = ("val", "S%d" % j)
            elif dk in ("callable", "ctx"):
                out[n] = ("gen", (n, "d"), dk == "ctx")
            elif dk == "sql":
                out[n] = ("val", "Q%d" % j)
            elif dk == "server":
                out[n] = ("val", "sv%d" % j)
        return out

    def expect_update(self, tok, supplied):
        out = {}
        cur = self.rows[tok]
        for j, (dk, uk) in enumerate(self.spec):
            n = "c%d" % j
            if n in supplied:
                out[n] = ("val", supplied[n])
            elif uk == "none":
                out[n] = ("val", cur[n])
            elif uk == "scalar":
                out[n] = ("val", "US%d" % j)
            elif uk in ("callable", "ctx"):
                out[n] = ("gen", (n, "u"), uk == "ctx")
            elif uk == "sql":
                out[n] = ("val", "uq%d" % j)
        return out


def _verify(model, stored, expectations, what, ctxinfo, ctx_sees_tok=True):
    """expectations: list of (tok, {col: spec}); stored: tok -> row dict (raw SELECT).  Checks values and the
    exactly-once use of generator tokens; updates model.rows"""
    used = {}
    for tok, exp in expectations:
        if tok not in stored:
            raise Violation(f"C13/{what}/row-missing", f"row {tok} is not in the table after {ctxinfo}")
        row = stored[tok]
        for col, e in exp.items():
            got = row[col]
            if e[0] == "val":
                if got != e[1]:
                    kind = "supplied-overridden" if e[1] is None and got is not None else "value"
                    raise Violation(f"C13/{what}/{kind}", f"{ctxinfo}: row {tok} column {col} stored {got!r}, expected {e[1]!r}", observed=repr(got), expected=repr(e[1]))
            else:
                key, is_ctx = e[1], e[2]
                g = model.gens[key]
                fresh = g.log[model.marks[key]:]
                if got not in fresh:
                    raise Violation(f"C13/{what}/generated-token", f"{ctxinfo}: row {tok} column {col} stored {got!r}, which is not a value its "
                                    f"{'onupdate' if key[1] == 'u' else 'default'} generator produced for this execution ({fresh[:6]})", observed=repr(got), expected=str(fresh[:6]))
                if is_ctx and ctx_sees_tok and ("[%s]" % tok) not in got:
                    raise Violation(f"C13/{what}/context-parameters", f"{ctxinfo}: context-sensitive generator for row {tok} column {col} saw other parameters: {got!r}")
                used.setdefault(key, []).append(got)
    for key, g in model.gens.items():
        fresh = g.log[model.marks[key]:]
        u = used.get(key, [])
        if sorted(u) != sorted(fresh):
            raise Violation(f"C13/{what}/generator-call-count", f"{ctxinfo}: {'onupdate' if key[1] == 'u' else 'default'} generator of {key[0]} ran {len(fresh)} times, "
                            f"{len(u)} rows needed it (unique tokens stored: {len(set(u))})", observed=fresh[:8], expected=len(u))
        model.marks[key] = len(g.log)
    for tok, exp in expectations:
        model.rows[tok] = dict(stored[tok])
    # rows not touched must be unchanged
    touched = {t for t, _ in expectations}
    for tok, row in model.rows.items():
        if tok not in touched and stored.get(tok) != row:
            raise Violation(f"C13/{what}/untouched-row-changed", f"{ctxinfo}: row {tok} changed although not addressed", observed=stored.get(tok), expected=row)
    if set(stored) != set(model.rows):
        raise Violation(f"C13/{what}/row-set", f"{ctxinfo}: table rows {sorted(stored)} != model {sorted(model.rows)}")


def _read(conn, names):
    allc = ["id", "tok"] + names
    out = {}
    for r in conn.exec_driver_sql("SELECT %s FROM t" % ", ".join(allc)).all():
        out[r[1]] = dict(zip(allc, r))
    return out


def _supplied(names, mask, nullmask, tag):
    d = {}
    for j, n in enumerate(names):
        if mask >> j & 1:
            d[n] = None if nullmask >> j & 1 else "%s_%s" % (tag, n)
    return d


def check_core(case, ctx):
    import sqlalchemy as sa

    spec = case["spec"]
    eng = du.sqlite_engine(case.get("paramstyle", "qmark"), "none", None, insertmanyvalues_page_size=case.get("page", 3))
    classes = set()
    nontrivial = False
    try:
        m, t, gens = _build(sa, spec)
        m.create_all(eng)
        model = _Model(spec, gens)
        names = model.names()
        ntok = 0
        for dk, uk in spec:
            classes.add("d=" + dk)
            classes.add("u=" + uk)
        with eng.connect() as conn:
            for opi, op in enumerate(case["ops"]):
                kind = op["kind"]
                info = f"op {opi} {kind}"
                if kind.startswith("ins"):
                    nrows = 1 if kind in ("ins_single", "ins_values") else max(2, op["n"])
                    mask = op["mask"]
                    rows = []
                    for i in range(nrows):
                        tok = "t%d" % ntok
                        ntok += 1
                        nm = op["nulls"][i % len(op["nulls"])] & mask
                        rmask = mask
                        if kind == "ins_multi_values":
                            pass
                        sup = _supplied(names, rmask, nm, tok)
                        rows.append((tok, sup))
                    ret = op.get("ret", "none")
                    stmt = sa.insert(t)
                    if ret == "returning":
                        stmt = stmt.returning(*t.c, **({"sort_by_parameter_order": True} if kind == "ins_many" else {}))
                    elif ret == "return_defaults":
                        stmt = stmt.return_defaults(**({"sort_by_parameter_order": True} if kind == "ins_many" else {}))
                    plist = [dict(sup, tok=tok) for tok, sup in rows]
                    if kind == "ins_single":
                        res = conn.execute(stmt, plist[0])
                    elif kind == "ins_values":
                        res = conn.execute(stmt.values(**plist[0]))
                    elif kind == "ins_many":
                        res = conn.execute(stmt, plist)
                    else:
                        if ret == "return_defaults":
                            stmt = sa.insert(t)
                            ret = "none"
                        res = conn.execute(stmt.values(plist))
                    exps = [(tok, model.expect_insert(tok, sup)) for tok, sup in rows]
                    rrows = res.all() if ret == "returning" else None
                    stored = _read(conn, names)
                    _verify(model, stored, exps, "insert/" + kind, info)
                    omits_default = any(e[0] == "gen" or (e[0] == "val" and c not in sup and e[1] is not None) for (tok, sup), (_, ex) in zip(rows, exps) for c, e in ex.items())
                    explicit_none = any(v is None and spec[int(c[1:])][0] != "none" for tok, sup in rows for c, v in sup.items())
                    if (nrows > 1 and omits_default) or explicit_none:
                        nontrivial = True
                    if explicit_none:
                        classes.add("explicit-none-on-defaulted")
                    if nrows > 1 and omits_default:
                        classes.add("multi-row-omits-default")
                    classes.add(kind + "/" + ret)
                    # what the result object reports
                    if ret == "returning":
                        if len(rrows) != nrows:
                            raise Violation(f"C13/insert/{kind}/returning-count", f"{info}: {len(rrows)} rows returned for {nrows}")
                        for r in rrows:
                            mp = dict(r._mapping)
                            if mp != stored[mp["tok"]]:
                                raise Violation(f"C13/insert/{kind}/returning-row", f"{info}: returned {mp} but stored {stored[mp['tok']]}")
                        if any(dk == "sql" for dk, _ in spec) and omits_default:
                            nontrivial = True
                            classes.add("sql-default-via-returning")
                        if kind == "ins_many" and [r._mapping["tok"] for r in rrows] != [tok for tok, _ in rows]:
                            raise Violation("C13/insert/ins_many/returning-order", f"{info}: sorted RETURNING not in parameter order")
                    elif nrows == 1:
                        tok = rows[0][0]
                        ipk = res.inserted_primary_key
                        if ipk is None or tuple(ipk) != (stored[tok]["id"],):
                            raise Violation(f"C13/insert/{kind}/inserted_primary_key", f"{info}: inserted_primary_key {ipk!r}, stored id {stored[tok]['id']!r}")
                        lip = res.last_inserted_params()
                        for c in names:
                            if c in lip and not hasattr(lip[c], "__clause_element__") and not isinstance(lip[c], sa.sql.ClauseElement) and lip[c] != stored[tok][c]:
                                raise Violation(f"C13/insert/{kind}/last_inserted_params", f"{info}: last_inserted_params()[{c}]={lip[c]!r}, stored {stored[tok][c]!r}")
                        if ret == "return_defaults":
                            rd = res.returned_defaults
                            if rd is not None:
                                for k, v in rd._mapping.items():
                                    k = getattr(k, "name", k)
                                    if stored[tok].get(k) != v:
                                        raise Violation(f"C13/insert/{kind}/returned_defaults", f"{info}: returned_defaults {k}={v!r}, stored {stored[tok].get(k)!r}")
                                if any(dk in ("sql", "server") for dk, _ in spec):
                                    classes.add("returned-defaults-sql")
                                    nontrivial = nontrivial or omits_default
                    elif ret == "return_defaults" and kind == "ins_many":
                        rds = res.returned_defaults_rows
                        ipks = res.inserted_primary_key_rows
                        if len(ipks) != nrows:
                            raise Violation("C13/insert/ins_many/inserted_primary_key_rows", f"{info}: {len(ipks)} entries for {nrows} rows")
                        for (tok, _), ipk, rd in zip(rows, ipks, rds or [None] * nrows):
                            if tuple(ipk) != (stored[tok]["id"],):
                                raise Violation("C13/insert/ins_many/inserted_primary_key_rows", f"{info}: entry {tuple(ipk)!r} for {tok}, stored id {stored[tok]['id']}")
                            if rd is not None:
                                for k, v in rd._mapping.items():
                                    k = getattr(k, "name", k)
                                    if stored[tok].get(k) != v:
                                        raise Violation("C13/insert/ins_many/returned_defaults_rows", f"{info}: {tok} returned default {k}={v!r}, stored {stored[tok].get(k)!r}")
                else:
                    if not model.rows:
                        continue
                    toks = sorted(model.rows, key=lambda s: int(s[1:]))
                    mask = op["mask"]
                    if kind == "upd_single":
                        tok = toks[op["pick"] % len(toks)]
                        nm = op["nulls"][0] & mask
                        sup = _supplied(names, mask, nm, "u%d" % opi)
                        stmt = sa.update(t).where(t.c.id == model.rows[tok]["id"]).values(tok=tok, **sup)
                        ret = op.get("ret", "none")
                        if ret == "return_defaults":
                            stmt = stmt.return_defaults()
                        elif ret == "returning":
                            stmt = stmt.returning(*t.c)
                        res = conn.execute(stmt)
                        rrows = res.all() if ret == "returning" else None
                        exps = [(tok, model.expect_update(tok, sup))]
                        stored = _read(conn, names)
                        _verify(model, stored, exps, "update/" + kind, info)
                        if ret == "returning" and (len(rrows) != 1 or dict(rrows[0]._mapping) != stored[tok]):
                            raise Violation("C13/update/upd_single/returning-row", f"{info}: returned {rrows} stored {stored[tok]}")
                        if ret == "return_defaults" and res.returned_defaults is not None:
                            for k, v in res.returned_defaults._mapping.items():
                                k = getattr(k, "name", k)
                                if stored[tok].get(k) != v:
                                    raise Violation("C13/update/upd_single/returned_defaults", f"{info}: returned_defaults {k}={v!r}, stored {stored[tok].get(k)!r}")
                        if ret == "none":
                            lup = res.last_updated_params()
                            for c in names:
                                if c in lup and not isinstance(lup[c], sa.sql.ClauseElement) and lup[c] != stored[tok][c]:
                                    raise Violation("C13/update/upd_single/last_updated_params", f"{info}: last_updated_params()[{c}]={lup[c]!r}, stored {stored[tok][c]!r}")
                        classes.add(kind + "/" + ret)
                        if any(v is None and spec[int(c[1:])][1] != "none" for c, v in sup.items()):
                            nontrivial = True
                            classes.add("explicit-none-on-onupdate")
                    else:
                        k = max(2, min(op["n"], len(toks)))
                        chosen = [toks[(op["pick"] + i * 3) % len(toks)] for i in range(k)]
                        chosen = list(dict.fromkeys(chosen))
                        if len(chosen) < 2:
                            continue
                        plist, exps = [], []
                        for i, tok in enumerate(chosen):
                            nm = op["nulls"][i % len(op["nulls"])] & mask
                            sup = _supplied(names, mask, nm, "m%d_%d" % (opi, i))
                            plist.append(dict(sup, tok=tok, b_id=model.rows[tok]["id"]))
                            exps.append((tok, model.expect_update(tok, sup)))
                        stmt = sa.update(t).where(t.c.id == sa.bindparam("b_id"))
                        conn.execute(stmt, plist)
                        stored = _read(conn, names)
                        _verify(model, stored, exps, "update/" + kind, info)
                        classes.add(kind)
                        if any(e[0] == "gen" for _, ex in exps for e in ex.values()):
                            nontrivial = True
                            classes.add("multi-row-onupdate-generator")
            conn.rollback()
        ctx.note(case, nontrivial, classes=sorted(classes))
    except Exception:
        if not ctx._noted:
            ctx.note(case, nontrivial, classes=sorted(classes))
        raise
    finally:
        eng.dispose()


# ------------------------------------------------------------------ ORM
def _orm_map(sa, orm, t):
    reg = orm.registry(metadata=t.metadata)
    cls = type("T", (), {})
    reg.map_imperatively(cls, t)
    return reg, cls


def check_orm(case, ctx):
    import sqlalchemy as sa
    from sqlalchemy import orm

    spec = case["spec"]
    eng = du.sqlite_engine(case.get("paramstyle", "qmark"), "none", None, insertmanyvalues_page_size=case.get("page", 3))
    classes = set()
    nontrivial = False
    m, t, gens = _build(sa, spec)
    reg, T = _orm_map(sa, orm, t)
    try:
        m.create_all(eng)
        model = _Model(spec, gens)
        names = model.names()
        ntok = 0
        for dk, uk in spec:
            classes.add("d=" + dk)
            classes.add("u=" + uk)
        sess = orm.Session(eng)
        try:
            for opi, op in enumerate(case["ops"]):
                kind = op["kind"]
                info = f"op {opi} {kind}"
                masks = op["masks"]
                if kind in ("flush_insert", "bulk_insert"):
                    nrows = max(1, op["n"])
                    rows = []
                    for i in range(nrows):
                        tok = "t%d" % ntok
                        ntok += 1
                        mask = masks[i % len(masks)]
                        nm = op["nulls"][i % len(op["nulls"])] & mask
                        rows.append((tok, _supplied(names, mask, nm, tok)))
                    if kind == "flush_insert":
                        objs = [T() for _ in rows]
                        for o, (tok, sup) in zip(objs, rows):
                            o.tok = tok
                            for c, v in sup.items():
                                setattr(o, c, v)
                        sess.add_all(objs)
                        sess.flush()
                    else:
                        plist = [dict(sup, tok=tok) for tok, sup in rows]
                        if op.get("ret"):
                            got = sess.execute(sa.insert(T).returning(T, sort_by_parameter_order=True), plist).scalars().all()
                            objs = got
                        else:
                            sess.execute(sa.insert(T), plist)
                            objs = None
                    # documented: the ORM omits None-valued columns from INSERT, so None == not supplied
                    exps = [(tok, model.expect_insert(tok, {c: v for c, v in sup.items() if v is not None})) for tok, sup in rows]
                    stored = _read(sess.connection(), names)
                    _verify(model, stored, exps, "orm/" + kind, info)
                    keysets = {tuple(sorted(c for c, v in sup.items() if v is not None)) for _, sup in rows}
                    if len(keysets) > 1:
                        nontrivial = True
                        classes.add(kind + "/hetero")
                    else:
                        classes.add(kind + "/homog")
                    if objs is not None:
                        if [o.tok for o in objs] != [tok for tok, _ in rows]:
                            raise Violation(f"C13/orm/{kind}/object-order", f"{info}: objects delivered out of parameter order")
                        for o, (tok, _) in zip(objs, rows):
                            for c in ["id"] + names:
                                if getattr(o, c) != stored[tok][c]:
                                    raise Violation(f"C13/orm/{kind}/object-state", f"{info}: {tok}.{c} is {getattr(o, c)!r} on the object, stored {stored[tok][c]!r}")
                elif kind == "flush_update":
                    if not model.rows:
                        continue
                    toks = sorted(model.rows, key=lambda s: int(s[1:]))
                    k = max(1, min(op["n"], len(toks)))
                    chosen = list(dict.fromkeys(toks[(op["pick"] + i * 3) % len(toks)] for i in range(k)))
                    exps = []
                    objs = {o.tok: o for o in sess.scalars(sa.select(T).where(T.tok.in_(chosen))).all()}
                    # known finding: one executemany UPDATE for several objects copies the FIRST row's Python-side onupdate value onto every object
                    # (repaired in /repo by fix: 0ac3915 - the exclusion is therefore switched off and the case is generated again)
                    one_by_one = False
                    if one_by_one:
                        ctx.exclude("ORM flush UPDATE of several objects with a Python-callable onupdate (known finding: stale object state)")
                    for i, tok in enumerate(chosen):
                        mask = masks[i % len(masks)]
                        nm = op["nulls"][i % len(op["nulls"])] & mask
                        sup = _supplied(names, mask, nm, "f%d_%d" % (opi, i))
                        o = objs[tok]
                        net = {}
                        for c, v in sup.items():
                            if model.rows[tok][c] != v:
                                net[c] = v
                            setattr(o, c, v)
                        if net:
                            exps.append((tok, model.expect_update(tok, net)))
                        else:
                            exps.append((tok, {c: ("val", model.rows[tok][c]) for c in names}))
                        if one_by_one:
                            sess.flush()
                    sess.flush()
                    stored = _read(sess.connection(), names)
                    # 'tok' is not part of an ORM UPDATE's SET clause, so the context-sensitive generator cannot be tied to the row through it
                    _verify(model, stored, exps, "orm/" + kind, info, ctx_sees_tok=False)
                    classes.add(kind)
                    if any(e[0] == "gen" for _, ex in exps for e in ex.values()) and len(chosen) > 1:
                        nontrivial = True
                        classes.add("flush-update-onupdate-generator")
                    for tok in chosen:
                        for c in names:
                            if getattr(objs[tok], c) != stored[tok][c]:
                                sig = "C13/orm/flush_update/object-state"
                                if spec[int(c[1:])][1] in ("callable", "ctx") and len(chosen) > 1:
                                    sig = "C13/orm/flush_update/python-onupdate-value-of-first-row-on-every-object"
                                raise Violation(sig, f"{info}: {tok}.{c} is {getattr(objs[tok], c)!r} on the object, stored {stored[tok][c]!r}")
                else:  # bulk_update by primary key
                    if not model.rows:
                        continue
                    toks = sorted(model.rows, key=lambda s: int(s[1:]))
                    k = max(1, min(op["n"], len(toks)))
                    chosen = list(dict.fromkeys(toks[(op["pick"] + i * 3) % len(toks)] for i in range(k)))
                    plist, exps = [], []
                    for i, tok in enumerate(chosen):
                        mask = masks[i % len(masks)] or 1
                        sup = _supplied(names, mask, 0, "b%d_%d" % (opi, i))
                        plist.append(dict(sup, id=model.rows[tok]["id"]))
                        exps.append((tok, model.expect_update(tok, sup)))
                    sess.expire_all()
                    sess.execute(sa.update(T), plist)
                    stored = _read(sess.connection(), names)
                    _verify(model, stored, exps, "orm/" + kind, info, ctx_sees_tok=False)
                    classes.add(kind)
                    if len({tuple(sorted(p)) for p in plist}) > 1:
                        nontrivial = True
                        classes.add("bulk_update/hetero")
            sess.rollback()
        finally:
            sess.close()
        ctx.note(case, nontrivial, classes=sorted(classes))
    except Exception:
        if not ctx._noted:
            ctx.note(case, nontrivial, classes=sorted(classes))
        raise
    finally:
        eng.dispose()
        reg.dispose()


# ------------------------------------------------------------------ strategies
@st.composite
def _spec(draw):
    n = draw(st.integers(2, 5))
    return [[draw(st.sampled_from(DEFAULT_KINDS)), draw(st.sampled_from(ONUPDATE_KINDS))] for _ in range(n)]


@st.composite
def _core_cases(draw):
    spec = draw(_spec())
    n = len(spec)
    full = (1 << n) - 1
    ops = []
    for _ in range(draw(st.integers(1, 6))):
        kind = draw(st.sampled_from(["ins_single", "ins_values", "ins_many", "ins_many", "ins_multi_values", "upd_single", "upd_many", "upd_many"]))
        ops.append({
            "kind": kind, "n": draw(st.integers(2, 6)), "mask": draw(st.integers(0, full)),
            "nulls": draw(st.lists(st.sampled_from([0, full, full] if kind.startswith("upd") else [0, 0, full]).flatmap(lambda hi: st.integers(0, hi)), min_size=1, max_size=3)),
            "pick": draw(st.integers(0, 11)), "ret": draw(st.sampled_from(["none", "none", "returning", "return_defaults"])),
        })
    if not ops[0]["kind"].startswith("ins"):
        ops.insert(0, {"kind": "ins_many", "n": 3, "mask": draw(st.integers(0, full)), "nulls": [0], "pick": 0, "ret": "none"})
    return {"spec": spec, "ops": ops, "paramstyle": draw(st.sampled_from(["qmark", "named", "numeric_dollar"])), "page": draw(st.integers(1, 4))}


@st.composite
def _orm_cases(draw):
    spec = draw(_spec())
    n = len(spec)
    full = (1 << n) - 1
    ops = []
    for _ in range(draw(st.integers(1, 5))):
        kind = draw(st.sampled_from(["flush_insert", "bulk_insert", "bulk_insert", "flush_update", "bulk_update"]))
        ops.append({
            "kind": kind, "n": draw(st.integers(1, 6)), "masks": draw(st.lists(st.integers(0, full), min_size=1, max_size=4)),
            "nulls": draw(st.lists(st.sampled_from([0, 0, full]).flatmap(lambda hi: st.integers(0, hi)), min_size=1, max_size=3)),
            "pick": draw(st.integers(0, 11)), "ret": draw(st.booleans()),
        })
    if ops[0]["kind"] not in ("flush_insert", "bulk_insert"):
        ops.insert(0, {"kind": "bulk_insert", "n": 4, "masks": [draw(st.integers(0, full))], "nulls": [0], "pick": 0, "ret": False})
    return {"spec": spec, "ops": ops, "paramstyle": draw(st.sampled_from(["qmark", "named"])), "page": draw(st.integers(1, 4))}


def subs(tier):
    return [
        Generated("core", check_core, strategy=_core_cases(), quick=1500, thorough=40000),
        Generated("orm", check_orm, strategy=_orm_cases(), quick=800, thorough=20000),
    ]
