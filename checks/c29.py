"""C29 - the asyncio API matches the sync API and is safe under cancellation.

equiv: a neutral op program is interpreted through the sync API
(sqlite+pysqlite) and the asyncio API (sqlite+aiosqlite) on twin file
databases; per-op results, exception classes and final contents must agree.
cancel: the async interpreter runs inside a wrapper that counts every
suspension of the task; for each sampled k the task is cancelled exactly at its
k-th await; afterwards pool / transaction / visibility invariants must hold.
"""
from __future__ import annotations

import asyncio
import gc
import os
import sqlite3
import warnings

from hypothesis import strategies as st

from vf.api import Generated, Violation

PROPERTY = "C29"
LEVEL = "fault_enumeration"
RULE = (
    "programs (<=15 ops) over one Connection slot and one Session slot: connect, begin, begin_nested, nested commit/rollback, insert(unique token), "
    "select, stream + partial fetch, commit, rollback, close, run_sync; Session add / flush / get / select / commit / rollback / close. equiv: each "
    "program run through sync and asyncio APIs. cancel: the asyncio run is repeated with the task cancelled at its k-th suspension for k in a drawn "
    "sample (quick: <=6 points, thorough: every point). Non-trivial: equiv cases with >=1 rollback or stream; cancel cases where the cancellation "
    "lands while a transaction is open or inside close/commit/pool checkout; distinct = (program, k)"
)
ASSUMPTIONS = [
    "aiosqlite is the only async driver with a live backend here; asyncpg / psycopg-async / aiomysql are not exercised (no servers)",
    "non-legacy pysqlite transaction control (autocommit=False) on both sides",
    "a transaction whose COMMIT was in flight when the cancellation landed may be either fully visible or not visible at all (atomic), nothing in between",
]

import logging

logging.getLogger("sqlalchemy.pool").setLevel(logging.CRITICAL + 1)  # "Exception during reset" is expected noise under cancellation
_fam = {}


def _family():
    if _fam:
        return _fam
    import sqlalchemy as sa
    from sqlalchemy.orm import registry

    md = sa.MetaData()
    t = sa.Table("tok", md, sa.Column("id", sa.Integer, primary_key=True), sa.Column("v", sa.String))
    reg = registry(metadata=md)

    class Tok:
        pass

    reg.map_imperatively(Tok, t)
    _fam.update(md=md, t=t, Tok=Tok)
    return _fam


def _mkdb(ctx, name):
    fam = _family()
    import sqlalchemy as sa

    path = os.path.join(ctx.scratch, name)
    for suffix in ("", "-journal", "-wal", "-shm"):
        try:
            os.unlink(path + suffix)
        except FileNotFoundError:
            pass
    eng = sa.create_engine(f"sqlite:///{path}")
    fam["md"].create_all(eng)
    eng.dispose()
    return path


def _raw_tokens(path):
    c = sqlite3.connect(path, isolation_level=None, timeout=1)
    try:
        return sorted(r[0] for r in c.execute("select v from tok"))
    finally:
        c.close()


# --------------------------------------------------------------------------- sync interpreter
def _run_sync(path, ops):
    import sqlalchemy as sa
    from sqlalchemy import exc
    from sqlalchemy.orm import Session

    fam = _family()
    t, Tok = fam["t"], fam["Tok"]
    eng = sa.create_engine(f"sqlite:///{path}", connect_args={"autocommit": False, "timeout": 1}, pool_size=2, max_overflow=0)
    out = []
    conn = None
    nested = []
    sess = None
    try:
        for i, op in enumerate(ops):
            name = op[0]
            try:
                if name == "connect":
                    if conn is None:
                        conn = eng.connect()
                        nested = []
                elif name == "close":
                    if conn is not None:
                        conn.close()
                        conn = None
                        nested = []
                elif conn is not None and name == "begin":
                    if not conn.in_transaction():
                        conn.begin()
                elif conn is not None and name == "begin_nested":
                    nested.append(conn.begin_nested())
                elif conn is not None and name == "commit_nested":
                    if nested:
                        nested.pop().commit()
                elif conn is not None and name == "rollback_nested":
                    if nested:
                        nested.pop().rollback()
                elif conn is not None and name == "insert":
                    conn.execute(t.insert().values(v=f"c{i}"))
                elif conn is not None and name == "select":
                    out.append((i, sorted(r[0] for r in conn.execute(sa.select(t.c.v)).all())))
                elif conn is not None and name == "stream":
                    res = conn.execution_options(stream_results=True).execute(sa.select(t.c.v).order_by(t.c.id))
                    got = [r[0] for r in res.fetchmany(op[1])]
                    res.close()
                    out.append((i, got))
                elif conn is not None and name == "run_sync":
                    out.append((i, conn.scalar(sa.select(sa.func.count()).select_from(t))))
                elif conn is not None and name == "commit":
                    conn.commit()
                    nested = []
                elif conn is not None and name == "rollback":
                    conn.rollback()
                    nested = []
                elif name == "s_open":
                    if sess is None:
                        sess = Session(eng)
                elif sess is not None and name == "s_add":
                    o = Tok()
                    o.v = f"s{i}"
                    sess.add(o)
                elif sess is not None and name == "s_flush":
                    sess.flush()
                elif sess is not None and name == "s_select":
                    out.append((i, sorted(o.v for o in sess.execute(sa.select(Tok)).scalars().all())))
                elif sess is not None and name == "s_get":
                    o = sess.get(Tok, op[1])
                    out.append((i, None if o is None else o.v))
                elif sess is not None and name == "s_commit":
                    sess.commit()
                elif sess is not None and name == "s_rollback":
                    sess.rollback()
                elif sess is not None and name == "s_close":
                    sess.close()
                    sess = None
            except exc.SQLAlchemyError as e:
                out.append((i, "EXC:" + type(e).__name__))
    finally:
        if sess is not None:
            sess.close()
        if conn is not None:
            conn.close()
        eng.dispose()
    return out


# --------------------------------------------------------------------------- async interpreter
class _CountingAwait:
    """drives a coroutine, counting its suspensions; at suspension number cancel_at it cancels the current task,
    which delivers CancelledError exactly at that await"""

    def __init__(self, coro, cancel_at, info):
        self.coro, self.cancel_at, self.info = coro, cancel_at, info

    def __await__(self):
        coro = self.coro
        value, exc_ = None, None
        while True:
            try:
                fut = coro.send(value) if exc_ is None else coro.throw(exc_)
            except StopIteration as e:
                return e.value
            self.info["suspensions"] += 1
            if self.info["suspensions"] == self.cancel_at:
                self.info["cancel_op"] = self.info.get("op")
                self.info["cancel_state"] = dict(self.info.get("state", {}))
                asyncio.current_task().cancel()
            try:
                value = yield fut
                exc_ = None
            except BaseException as e:  # noqa
                value, exc_ = None, e


async def _async_program(eng, ops, out, info):
    import sqlalchemy as sa
    from sqlalchemy import exc
    from sqlalchemy.ext.asyncio import AsyncSession

    fam = _family()
    t, Tok = fam["t"], fam["Tok"]
    conn = None
    nested = []
    frames = [[]]
    sess = None
    st_ = info["state"]
    try:
        for i, op in enumerate(ops):
            name = op[0]
            info["op"] = (i, name)
            try:
                if name == "connect":
                    if conn is None:
                        conn = await eng.connect()
                        if info.get("aexit"):
                            # the application's own reference (the "as conn" variable of an async with block outlives the block):
                            # releasing the pooled connection must not depend on this object being deallocated
                            info.setdefault("keep", []).append(conn)
                        nested = []
                elif name == "close":
                    if conn is not None:
                        c, conn = conn, None
                        st_["open_tokens"] = []
                        frames[:] = [[]]
                        if info.get("aexit"):
                            await c.__aexit__(None, None, None)  # what leaving "async with engine.connect()" runs (shielded close)
                        else:
                            await c.close()
                        nested = []
                elif conn is not None and name == "begin":
                    if not conn.in_transaction():
                        await conn.begin()
                elif conn is not None and name == "begin_nested":
                    nested.append(await conn.begin_nested())
                    frames.append([])
                elif conn is not None and name == "commit_nested":
                    if nested:
                        await nested.pop().commit()
                        top = frames.pop()
                        frames[-1].extend(top)
                elif conn is not None and name == "rollback_nested":
                    if nested:
                        await nested.pop().rollback()
                        frames.pop()
                        st_["open_tokens"] = [x for f in frames for x in f]
                elif conn is not None and name == "insert":
                    frames[-1].append(f"c{i}")
                    st_["open_tokens"] = [x for f in frames for x in f]
                    await conn.execute(t.insert().values(v=f"c{i}"))
                elif conn is not None and name == "select":
                    out.append((i, sorted(r[0] for r in (await conn.execute(sa.select(t.c.v))).all())))
                elif conn is not None and name == "stream":
                    res = await conn.stream(sa.select(t.c.v).order_by(t.c.id))
                    got = [r[0] for r in await res.fetchmany(op[1])]
                    await res.close()
                    out.append((i, got))
                elif conn is not None and name == "run_sync":
                    out.append((i, await conn.run_sync(lambda sc: sc.scalar(sa.select(sa.func.count()).select_from(t)))))
                elif conn is not None and name == "commit":
                    st_["committing"] = list(st_["open_tokens"])
                    await conn.commit()
                    st_["committed"] += st_["open_tokens"]
                    st_["open_tokens"] = []
                    st_["committing"] = []
                    nested = []
                    frames[:] = [[]]
                elif conn is not None and name == "rollback":
                    await conn.rollback()
                    st_["open_tokens"] = []
                    nested = []
                    frames[:] = [[]]
                elif name == "s_open":
                    if sess is None:
                        sess = AsyncSession(eng)
                elif sess is not None and name == "s_add":
                    o = Tok()
                    o.v = f"s{i}"
                    st_["s_open_tokens"].append(f"s{i}")
                    sess.add(o)
                elif sess is not None and name == "s_flush":
                    await sess.flush()
                elif sess is not None and name == "s_select":
                    out.append((i, sorted(o.v for o in (await sess.execute(sa.select(Tok))).scalars().all())))
                elif sess is not None and name == "s_get":
                    o = await sess.get(Tok, op[1])
                    out.append((i, None if o is None else o.v))
                elif sess is not None and name == "s_commit":
                    st_["s_committing"] = list(st_["s_open_tokens"])
                    await sess.commit()
                    st_["committed"] += st_["s_open_tokens"]
                    st_["s_open_tokens"] = []
                    st_["s_committing"] = []
                elif sess is not None and name == "s_rollback":
                    await sess.rollback()
                    st_["s_open_tokens"] = []
                elif sess is not None and name == "s_close":
                    s, sess = sess, None
                    st_["s_open_tokens"] = []
                    if info.get("aexit"):
                        await s.__aexit__(None, None, None)
                    else:
                        await s.close()
            except exc.SQLAlchemyError as e:
                out.append((i, "EXC:" + type(e).__name__))
    finally:
        info["op"] = ("finally", "cleanup")
        if sess is not None:
            await sess.close()
        if conn is not None:
            await conn.close()


def _run_async(path, ops, cancel_at=None, aexit=False):
    from sqlalchemy import event, text
    from sqlalchemy.ext.asyncio import create_async_engine

    info = {"suspensions": 0, "aexit": aexit, "state": {"committed": [], "open_tokens": [], "committing": [], "s_open_tokens": [], "s_committing": []}}
    out = []
    ledger = {"balance": {}, "bad": [], "checkouts": 0}
    post = {}

    async def main():
        eng = create_async_engine(f"sqlite+aiosqlite:///{path}", connect_args={"autocommit": False, "timeout": 1}, pool_size=2, max_overflow=0)
        pool = eng.sync_engine.pool

        def on_checkout(dbapi_conn, rec, proxy):
            ledger["checkouts"] += 1
            b = ledger["balance"].get(id(rec), 0) + 1
            ledger["balance"][id(rec)] = b
            if b != 1:
                ledger["bad"].append(("double-checkout", b))

        def on_checkin(dbapi_conn, rec):
            b = ledger["balance"].get(id(rec), 0) - 1
            ledger["balance"][id(rec)] = b
            if b != 0:
                ledger["bad"].append(("checkin-without-checkout", b))

        def on_detach(dbapi_conn, rec):
            # the GC fallback for a connection the (cancelled) program never closed detaches it from its record: the
            # record is back with the pool without a "checkin" event
            ledger["balance"][id(rec)] = ledger["balance"].get(id(rec), 0) - 1
            ledger["detached"] = ledger.get("detached", 0) + 1

        event.listen(pool, "checkout", on_checkout)
        event.listen(pool, "checkin", on_checkin)
        event.listen(pool, "detach", on_detach)
        cancelled = False
        try:
            task = asyncio.ensure_future(_wrap(_async_program(eng, ops, out, info), cancel_at, info))
            try:
                await task
            except asyncio.CancelledError:
                cancelled = True
            # drain: shielded close() tasks keep running after the cancellation reached the caller; wait for every other task
            for _ in range(3):
                others = [t for t in asyncio.all_tasks() if t is not asyncio.current_task()]
                if others:
                    await asyncio.wait(others, timeout=20)
                await asyncio.sleep(0)
            # before any garbage collection: with the context-manager exits (shielded close) nothing may depend on the GC fallback
            post["checkedout_pre_gc"] = pool.checkedout()
            info.pop("keep", None)
            gc.collect()
            for _ in range(3):
                await asyncio.sleep(0)
            post["cancelled"] = cancelled
            post["aexit_mode"] = bool(aexit)
            post["checkedout"] = pool.checkedout()
            post["balances"] = [b for b in ledger["balance"].values() if b != 0]
            # (with autocommit=False pysqlite keeps a transaction open at all times, so in_transaction says nothing; a left-over
            # transaction on a pooled connection is detected behaviourally below: every pooled connection is checked out and
            # committed, which would make its uncommitted rows visible to the independent observer)
            # a fresh connection must work
            try:
                async with eng.connect() as c2:
                    post["fresh"] = (await c2.execute(text("select count(*) from tok"))).scalar()
                    await c2.rollback()
                    async with eng.connect() as c3:  # pool_size is 2: both pooled connections are now checked out
                        await c3.commit()
                        await c2.commit()
            except Exception as e:  # noqa
                post["fresh_error"] = f"{type(e).__name__}: {e}"
        finally:
            await eng.dispose()

    async def _wrap(coro, cancel_at, info):
        return await _CountingAwait(coro, cancel_at, info)

    with warnings.catch_warnings(record=True) as wlist:
        warnings.simplefilter("always")
        asyncio.run(main())
    post["gc_warnings"] = [str(w.message)[:120] for w in wlist if "garbage collector" in str(w.message) or "non-checked-in" in str(w.message)]
    post["ledger_bad"] = ledger["bad"]
    return out, info, post


# --------------------------------------------------------------------------- checks
def check_equiv(case, ctx):
    ops = case["ops"]
    p1 = _mkdb(ctx, "sync.db")
    p2 = _mkdb(ctx, "async.db")
    nt = any(o[0] in ("rollback", "rollback_nested", "stream", "s_rollback") for o in ops)
    ctx.note(case, nt, classes=sorted({o[0] for o in ops}))
    s_out = _run_sync(p1, ops)
    a_out, info, post = _run_async(p2, ops, aexit=bool(case.get("aexit")))
    if s_out != a_out:
        diff = next((a, b) for a, b in zip(s_out + [None] * 40, a_out + [None] * 40) if a != b)
        raise Violation("C29/equiv/per-op-result", f"sync and asyncio runs differ: sync {diff[0]} vs async {diff[1]}; program {ops}", observed=str(a_out), expected=str(s_out))
    r1, r2 = _raw_tokens(p1), _raw_tokens(p2)
    if r1 != r2:
        raise Violation("C29/equiv/final-database", f"final contents differ: sync {r1} vs async {r2}; program {ops}", observed=r2, expected=r1)
    _post_invariants(post, info, ops, None, p2, cancel=False)


def _post_invariants(post, info, ops, k, path, cancel):
    where = f"program {ops} cancelled at suspension {k} (op {info.get('cancel_op')})" if cancel else f"program {ops} (no cancellation)"
    if post.get("ledger_bad"):
        raise Violation("C29/pool/connection-returned-not-exactly-once", f"{where}: pool ledger {post['ledger_bad']}")
    if post.get("aexit_mode") and post.get("checkedout_pre_gc") not in (0, None):
        raise Violation("C29/pool/connection-returned-only-by-gc", f"{where}: every connection / session was released through __aexit__ (shielded close) or an un-cancelled close(), "
                        f"yet pool.checkedout() == {post.get('checkedout_pre_gc')} after all tasks finished and before any garbage collection (after gc: {post.get('checkedout')})")
    if post.get("checkedout") != 0:
        raise Violation("C29/pool/connection-left-checked-out", f"{where}: pool.checkedout() == {post.get('checkedout')} after the task finished (gc warnings: {post.get('gc_warnings')})")
    if post.get("balances"):
        raise Violation("C29/pool/connection-returned-not-exactly-once", f"{where}: checkout/checkin balance {post['balances']}")
    if "fresh_error" in post:
        raise Violation("C29/engine/unusable-afterwards", f"{where}: a fresh connection failed: {post['fresh_error']}")


def check_cancel(case, ctx):
    ops = case["ops"]
    path = _mkdb(ctx, "cancel.db")
    aexit = bool(case.get("aexit"))
    _, info0, post0 = _run_async(path, ops, aexit=aexit)
    n = info0["suspensions"]
    ctx.info("suspension_points_seen", n)
    if n == 0:
        ctx.note(case, False, classes=["no-suspension"])
        return
    ks = sorted({1 + (x % n) for x in case["points"]}) if not case.get("all_points") else list(range(1, n + 1))
    nontrivial = False
    classes = set()
    for k in ks:
        path = _mkdb(ctx, "cancel.db")
        out, info, post = _run_async(path, ops, cancel_at=k, aexit=aexit)
        cop = info.get("cancel_op")
        stc = info.get("cancel_state", {})
        if cop is not None:
            classes.add("cancel-in:" + str(cop[1]))
            if stc.get("open_tokens") or stc.get("s_open_tokens") or cop[1] in ("close", "commit", "connect", "s_commit", "s_close", "cleanup"):
                nontrivial = True
        ctx.info("cancellations_injected")
        _post_invariants(post, info, ops, k, path, cancel=True)
        if not post.get("cancelled") and info["suspensions"] >= k:
            # the cancellation was absorbed (e.g. by shielded cleanup) and the program ran on: allowed only if it completed normally
            classes.add("cancel-absorbed")
        visible = set(_raw_tokens(path))
        st_ = info["state"]
        committed = set(st_["committed"])
        inflight = set(st_.get("committing") or []) | set(st_.get("s_committing") or [])
        if not (committed <= visible):
            raise Violation("C29/cancel/committed-data-lost", f"program {ops} cancelled at {k} ({cop}): committed {sorted(committed)} but visible {sorted(visible)}")
        extra = visible - committed
        if extra and extra != inflight:
            raise Violation("C29/cancel/uncommitted-data-visible", f"program {ops} cancelled at {k} ({cop}): visible {sorted(visible)} includes tokens never committed "
                            f"(committed {sorted(committed)}, commit in flight {sorted(inflight)})", observed=sorted(visible), expected=sorted(committed))
    ctx.note(case, nontrivial, classes=sorted(classes))


_conn_ops = st.one_of(
    st.sampled_from([["connect"], ["connect"], ["close"], ["begin"], ["begin_nested"], ["commit_nested"], ["rollback_nested"], ["insert"], ["insert"], ["select"],
                     ["commit"], ["rollback"], ["run_sync"]]),
    st.integers(1, 3).map(lambda n: ["stream", n]),
)
_sess_ops = st.one_of(
    st.sampled_from([["s_open"], ["s_add"], ["s_add"], ["s_flush"], ["s_select"], ["s_commit"], ["s_rollback"], ["s_close"]]),
    st.integers(1, 3).map(lambda n: ["s_get", n]),
)


@st.composite
def _programs(draw):
    # one connection at a time: a Connection phase and/or a Session phase, never both open together (two SQLite connections
    # of one program would contend for the file lock under a real-time busy timeout: a wall-clock dependent oracle)
    kind = draw(st.sampled_from(["conn", "conn", "sess", "both"]))
    ops = []
    if kind in ("conn", "both"):
        ops += [["connect"]] + draw(st.lists(_conn_ops, min_size=2, max_size=12)) + [["close"]]
    if kind in ("sess", "both"):
        ops += [["s_open"]] + draw(st.lists(_sess_ops, min_size=2, max_size=10)) + [["s_close"]]
    return ops


@st.composite
def _equiv_cases(draw):
    return {"ops": draw(_programs()), "aexit": draw(st.booleans())}


@st.composite
def _cancel_cases(draw):
    # (negative values count back from the last suspension: the release paths - close / __aexit__ / commit - sit at the end of a program)
    return {"ops": draw(_programs()), "aexit": draw(st.booleans()), "points": draw(st.lists(st.one_of(st.integers(0, 200), st.integers(-10, -1)), min_size=1, max_size=6))}


@st.composite
def _cancel_cases_all(draw):
    return {"ops": draw(_programs()), "aexit": draw(st.booleans()), "points": [], "all_points": True}


def subs(tier):
    if tier == "quick":
        return [
            Generated("equiv", check_equiv, strategy=_equiv_cases(), quick=160, thorough=3000),
            Generated("cancel", check_cancel, strategy=_cancel_cases(), quick=300, thorough=3000),
        ]
    return [
        Generated("equiv", check_equiv, strategy=_equiv_cases(), quick=160, thorough=3000),
        Generated("cancel", check_cancel, strategy=_cancel_cases_all(), quick=130, thorough=2500),
    ]
