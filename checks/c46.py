"""C46 - expired and refreshed attributes reflect the database.

Histories are split in *epochs*.  An epoch starts with external writes made
through an independent raw sqlite3 connection (only there: the session has no
open transaction right after commit()/rollback(), so "the value currently in
the database for the transaction" is unambiguous under SQLite's locking), then
runs session operations, and ends with commit() or rollback().

Oracle: a per-(object, attribute) state machine {loaded v | pending v | expired}
next to a copy of the database, predicting every attribute read, every query
result set, the ObjectDeletedError / "could not refresh" cases and the committed
rows after each epoch.
"""
from __future__ import annotations

from hypothesis import strategies as st

from vf.api import Generated, Violation

from . import _orm_sess as F

PROPERTY = "C46"
LEVEL = "exploration"
RULE = (
    "programs over 1-3 Parent rows and 0-3 Child rows: 2-4 epochs, each = external UPDATE (one or all columns) / DELETE / re-INSERT / child re-parent through an independent "
    "connection (epochs >=1) + up to 8 session ops (read attr, set attr, expire(obj[,attrs]), expire_all, refresh(obj[,attrs]), select with/without "
    "populate_existing, flush) + commit|rollback; session config autoflush x expire_on_commit drawn. Non-trivial: at least one read whose expected "
    "value is only right if reload/no-reload is decided correctly (fresh value differs from the value held before, stale value differs from the "
    "database, pending value survives a partial expire/refresh of a sibling attribute, or ObjectDeletedError). The select may also be a populate_existing statement "
    "whose row carries the key only (from_statement(text)). Sub-check inherit: the same machine on a joined-inheritance SubItem(Item) (one column per table) with populate_existing "
    "queries against the base class (row lacks the subclass column), the subclass, and a key-only text statement. Sub-check composite: Shape.start = composite(Point, px, py), "
    "read (cached) early, then compared with its columns and the database after refresh(obj), refresh(obj, [..]), populate_existing via select option / Query.populate_existing / "
    "get(populate_existing=True), expire + access, commit/rollback + access. Sub-check m2o: a one-directional many-to-one attribute (scalar object attribute) on 1-3 children "
    "through set (pending, autoflush off) / expire by name together with its FK column / expire(obj) / refresh / read, 1-3 transactions ended by commit or rollback, the FK "
    "changed externally between them; non-trivial = a read of an expired attribute; distinct = canonical JSON of the program"
)
ASSUMPTIONS = [
    "external writes happen only while the session has no open transaction (right after commit/rollback); SQLite file database, rollback-journal mode",
    "all objects are persistent and strongly referenced by the harness; no deferred columns, no eager relationships, no inheritance",
    "refresh() attribute names are column attributes only; a collection read is preceded by a read of the primary-key attribute so that the "
    "lazy load's own need for the parent key never decides what else gets loaded",
    "an external DELETE is not generated for a row that has pending changes in the session and attributes of externally deleted rows are not "
    "modified (the resulting StaleDataError at flush is a different contract)",
    "when an expired attribute is physically re-loaded within a transaction (sibling access, a query returning the identity, a flush needing "
    "the key) is the implementation's choice: the public inspect(obj).unloaded selects the model branch (SQL/autoflush or not, what survives a "
    "commit without expiry), the expected value always comes from the model",
    "populate_existing 'fully refreshes' the returned instances: an attribute whose column is not in the statement's row (base-class query on a joined-inheritance subclass, "
    "key-only text statement) cannot be refreshed from it and must not keep its old or pending value - it is expired; load_only/defer + populate_existing is NOT generated "
    "(documented as a way to select which attributes get refreshed, the others keep their value)",
    "documented behaviours relied on: a plain query never overwrites loaded or pending attributes; populate_existing erases pending changes and "
    "resets lazy collections; refresh() expires first, then autoflushes, then loads; rollback() without a transaction in progress is a "
    "pass-through; setting an attribute to its loaded value is no net change (no UPDATE)",
    "trusted: sqlite3 raw connection as independent observer/writer",
    "sub-check m2o: expire_on_commit on, autoflush off, one-directional relationship; rollback() without a transaction in progress expires nothing; None is assigned to a reference only after it was read",
]

ATTRS = ["id", "x", "y", "name", "children"]
COLS = ["x", "y", "name"]
SCALARS = ["id", "x", "y", "name"]
NAMES = ["a", "b", "c"]
NOVAL = "<no-value>"


class Model:
    def __init__(self, rows, kids, autoflush, eoc):
        self.committed = {i + 1: dict(r) for i, r in enumerate(rows)}
        self.db = {k: dict(v) for k, v in self.committed.items()}
        self.kids = dict(kids)  # child id -> parent id | None (only changed externally)
        self.autoflush = autoflush
        self.eoc = eoc
        self.st = {}  # pid -> attr -> ('L', v) | ('P', v, orig) | ('E',)
        self.why = {}  # (pid, attr) -> last operation that decided the state
        self.in_txn = False
        self.touched_since_set = {}  # pid -> set of attrs expired/refreshed since some sibling became pending

    # -- helpers
    def mark(self, pid, attr, state, why):
        self.st[pid][attr] = state
        self.why[(pid, attr)] = why

    def loaded_from_query(self):
        self.in_txn = True
        for pid, row in self.db.items():
            self.st[pid] = {}
            self.mark(pid, "id", ("L", pid), "initial-load")
            for c in COLS:
                self.mark(pid, c, ("L", row[c]), "initial-load")
            self.mark(pid, "children", ("E",), "initial-load")

    def flush(self):
        for pid in sorted(self.st):
            for c in COLS:
                s = self.st[pid][c]
                if s[0] == "P":
                    self.in_txn = True
                    if s[2] == NOVAL or s[2] != s[1]:
                        self.db[pid][c] = s[1]
                    self.mark(pid, c, ("L", s[1]), "flush")

    def sql(self):
        """an operation that emits a SELECT: autobegin + autoflush"""
        self.in_txn = True
        if self.autoflush:
            self.flush()

    def kid_ids(self, pid):
        return sorted(k for k, p in self.kids.items() if p == pid)

    def expire(self, pid, attrs, why):
        for a in attrs:
            self.mark(pid, a, ("E",), why)

    def end(self, kind):
        if kind == "commit":
            self.flush()
            self.committed = {k: dict(v) for k, v in self.db.items()}
            if self.eoc:
                for pid in self.st:
                    self.expire(pid, ATTRS, "commit-expire")
            self.in_txn = False
        else:
            if self.in_txn:
                self.db = {k: dict(v) for k, v in self.committed.items()}
                for pid in self.st:
                    self.expire(pid, ATTRS, "rollback")
            self.in_txn = False


def _names_from_mask(mask, names):
    return [n for i, n in enumerate(names) if mask >> i & 1]


def check(case, ctx):
    from sqlalchemy import inspect, select, text
    from sqlalchemy.exc import InvalidRequestError
    from sqlalchemy.orm import Session
    from sqlalchemy.orm.exc import ObjectDeletedError

    fam = F.family()
    P = fam.Parent
    rows = [{"x": r[0], "y": r[1], "name": NAMES[r[2] % 3]} for r in case["rows"]]
    n_p = len(rows)
    kids = {i + 1: (None if k is None else k % n_p + 1) for i, k in enumerate(case["kids"])}
    n_k = len(kids)
    cfg = case["cfg"]
    m = Model(rows, kids, cfg["autoflush"], cfg["eoc"])

    classes = set()
    flags = {"fresh": False, "stale": False, "pending-kept": False, "deleted": False, "design": False}
    excluded = []

    eng = F.new_db(ctx, fam)
    rc = F.raw(eng)
    sess = None
    try:
        F.raw_insert(rc, "parent", [dict(id=i + 1, **r) for i, r in enumerate(rows)])
        F.raw_insert(rc, "child", [dict(id=k, parent_id=p) for k, p in kids.items()])
        sess = Session(eng, autoflush=cfg["autoflush"], expire_on_commit=cfg["eoc"])
        objs = {o.id: o for o in sess.scalars(select(P).order_by(P.id))}
        m.loaded_from_query()
        if sorted(objs) != list(range(1, n_p + 1)):
            raise Violation("C46/initial-load", f"loaded {sorted(objs)}")
        prev_val = {}  # (pid, attr) -> last value the application saw/held for the attribute
        for pid in objs:
            for c in COLS:
                prev_val[(pid, c)] = m.db[pid][c]

        def fail(sig, msg, observed=None, expected=None):
            ctx.note(case, True, classes=classes)
            raise Violation(sig, msg, observed=observed, expected=expected)

        def resolve(pid, attr, where):
            """Model state E means "expired, possibly re-loaded since at the implementation's discretion"
            (a flush that needs the primary key, a query that returns the identity and a sibling access all
            may load expired attributes; when exactly is not part of the contract).  Inside one transaction the
            database value of a non-pending attribute cannot change, so both readings predict the same value;
            what differs is whether the next access emits SQL (autobegin/autoflush) and what survives a commit
            without expiry.  The public ``inspect(obj).unloaded`` decides which branch applies; the *value* is
            always the model's."""
            if m.st[pid][attr][0] != "E":
                return
            if attr in inspect(objs[pid]).unloaded:
                return
            if pid not in m.db:
                fail("C46/expired-attribute-of-deleted-row-has-value", f"{where}: Parent#{pid}.{attr} was expired ({m.why[(pid, attr)]}), its row is gone, yet the attribute is loaded")
            val = pid if attr == "id" else (m.kid_ids(pid) if attr == "children" else m.db[pid][attr])
            m.mark(pid, attr, ("L", val), m.why[(pid, attr)] + "+side-load")

        def do_read(pid, attr, where):
            """read obj.attr, compare with the model; returns False if the access raised as modelled"""
            obj = objs[pid]
            was_expired = m.st[pid][attr][0] == "E"
            resolve(pid, attr, where)
            s = m.st[pid][attr]
            why = m.why[(pid, attr)]
            exp_exc = None
            if s[0] in ("L", "P"):
                exp = s[1]
                if was_expired:
                    if attr != "id" and prev_val.get((pid, attr), exp) != exp:
                        flags["fresh"] = True
                elif s[0] == "P":
                    if m.touched_since_set.get((pid, attr)):
                        flags["pending-kept"] = True
                elif attr in COLS and (pid not in m.db or m.db[pid][attr] != exp):
                    flags["stale"] = True
                elif attr == "children" and m.kid_ids(pid) != exp:
                    flags["stale"] = True
            elif attr == "children":
                m.sql()
                exp = m.kid_ids(pid)
                m.mark(pid, attr, ("L", exp), "lazy-load")
                if prev_val.get((pid, attr), exp) != exp:
                    flags["fresh"] = True
            else:
                m.sql()
                if pid not in m.db:
                    exp_exc = "ObjectDeletedError"
                    exp = None
                    flags["deleted"] = True
                else:
                    exp = pid if attr == "id" else m.db[pid][attr]
                    m.mark(pid, attr, ("L", exp), "expired-load")
                    if attr != "id" and prev_val.get((pid, attr), exp) != exp:
                        flags["fresh"] = True
            try:
                got = getattr(obj, attr)
                got_exc = None
                if attr == "children":
                    got = [c.id for c in got]
            except ObjectDeletedError:
                got, got_exc = None, "ObjectDeletedError"
            if exp_exc != got_exc:
                fail(f"C46/read/{s[0]}-after-{why}/exception", f"{where}: reading Parent#{pid}.{attr} (model state {s[0]} since {why}): expected {exp_exc or repr(exp)}, got {got_exc or repr(got)}",
                     observed=got_exc or got, expected=exp_exc or exp)
            if got_exc is None and got != exp:
                fail(f"C46/read/{s[0]}-after-{why}/value", f"{where}: Parent#{pid}.{attr} (model state {s[0]} since {why}) is {got!r}, expected {exp!r}; db row {m.db.get(pid)}",
                     observed=got, expected=exp)
            if got_exc is None and attr != "id":
                prev_val[(pid, attr)] = got
            return got_exc is None

        def note_sibling_touch(pid, attrs):
            # remember, for every pending attribute of pid not in attrs, that a sibling was expired/refreshed;
            # design rule: the sibling holds a stale loaded value (external write landed after its load)
            stale = any(a in COLS and m.st[pid][a][0] == "L" and pid in m.db and m.db[pid][a] != m.st[pid][a][1] for a in attrs)
            for c in COLS:
                if m.st[pid][c][0] == "P" and c not in attrs:
                    m.touched_since_set.setdefault((pid, c), []).append(tuple(attrs))
                    if stale:
                        flags["design"] = True

        for ei, ep in enumerate(case["epochs"]):
            # ---- external writes (session has no transaction here)
            if ei > 0:
                for xo in ep["ext"]:
                    kind = xo[0]
                    pid = xo[1] % n_p + 1
                    if kind == "U":
                        if pid in m.db:
                            row = {"x": xo[2], "y": xo[3], "name": NAMES[xo[4] % 3]}
                            rc.execute("UPDATE parent SET x = ?, y = ?, name = ? WHERE id = ?", (row["x"], row["y"], row["name"], pid))
                            m.db[pid].update(row)
                            classes.add("ext-update")
                    elif kind == "u":
                        c = COLS[xo[2] % 3]
                        v = NAMES[xo[3] % 3] if c == "name" else xo[3]
                        if pid in m.db:
                            rc.execute(f"UPDATE parent SET {c} = ? WHERE id = ?", (v, pid))
                            m.db[pid][c] = v
                            classes.add("ext-update")
                    elif kind == "d":
                        if pid in m.db:
                            if any(m.st[pid][c][0] == "P" for c in COLS):
                                excluded.append("external DELETE of a row with pending session changes")
                                continue
                            rc.execute("DELETE FROM parent WHERE id = ?", (pid,))
                            del m.db[pid]
                            classes.add("ext-delete")
                    elif kind == "i":
                        if pid not in m.db:
                            row = {"x": xo[2], "y": xo[3], "name": NAMES[xo[4] % 3]}
                            rc.execute("INSERT INTO parent (id, x, y, name) VALUES (?, ?, ?, ?)", (pid, row["x"], row["y"], row["name"]))
                            m.db[pid] = row
                            classes.add("ext-reinsert")
                    elif kind == "k" and n_k:
                        kid = xo[1] % n_k + 1
                        newp = None if xo[2] is None else xo[2] % n_p + 1
                        rc.execute("UPDATE child SET parent_id = ? WHERE id = ?", (newp, kid))
                        m.kids[kid] = newp
                        classes.add("ext-reparent")
                m.committed = {k: dict(v) for k, v in m.db.items()}

            # ---- session operations
            for oi, op in enumerate(ep["ops"]):
                where = f"epoch {ei} op {oi} {op}"
                kind = op[0]
                if kind == "ea":
                    sess.expire_all()
                    for pid in objs:
                        m.expire(pid, ATTRS, "expire_all")
                    classes.add("expire_all")
                    continue
                if kind == "fl":
                    sess.flush()
                    m.flush()
                    classes.add("flush")
                    continue
                if kind == "q":
                    pe = bool(op[1])
                    partial = op[1] == 2  # populate_existing with a statement whose row carries the primary key only
                    ids = [i + 1 for i in range(n_p) if op[2] >> i & 1] or None
                    if partial:
                        where_ids = "" if ids is None else " WHERE id IN (%s)" % ", ".join(str(i) for i in ids)
                        stmt = select(P).from_statement(text("SELECT id FROM parent" + where_ids + " ORDER BY id"))
                    else:
                        stmt = select(P).order_by(P.id)
                        if ids is not None:
                            stmt = stmt.where(P.id.in_(ids))
                    if pe:
                        stmt = stmt.execution_options(populate_existing=True)
                    got = sess.scalars(stmt).all()
                    m.sql()
                    exp_ids = [pid for pid in sorted(m.db) if ids is None or pid in ids]
                    if [id(o) for o in got] != [id(objs[pid]) for pid in exp_ids]:
                        fail("C46/query/result-identities", f"{where}: query returned {got}, expected the session's instances for ids {exp_ids}", observed=repr(got), expected=exp_ids)
                    for pid in exp_ids:
                        if partial:
                            # "fully refreshed - erasing any existing data (including pending changes)": what the row does not
                            # carry cannot be refreshed from it, so it must not keep its old value either -> expired
                            if any(m.st[pid][a][0] in ("L", "P") for a in COLS):
                                classes.add("pe-partial-row-over-loaded")
                            m.mark(pid, "id", ("L", pid), "populate_existing-partial-row")
                            for a in COLS + ["children"]:
                                m.mark(pid, a, ("E",), "populate_existing-partial-row")
                        elif pe:
                            for a in SCALARS:
                                m.mark(pid, a, ("L", pid if a == "id" else m.db[pid][a]), "populate_existing")
                            m.mark(pid, "children", ("E",), "populate_existing")
                        # a plain query may fill unloaded attributes of an identity it returns (resolved lazily,
                        # see resolve()); it must not touch loaded or pending ones (their model state is kept)
                    classes.add("query-pe-partial-row" if partial else "query-pe" if pe else "query-plain")
                    continue
                pid = op[1] % n_p + 1
                obj = objs[pid]
                if kind == "r":
                    attr = ATTRS[op[2] % 5]
                    if attr == "children":
                        if not do_read(pid, "id", where):
                            continue
                    do_read(pid, attr, where)
                    classes.add("read-" + ("children" if attr == "children" else "col"))
                elif kind == "s":
                    c = COLS[op[2] % 3]
                    v = NAMES[op[3] % 3] if c == "name" else op[3]
                    if pid not in m.db:
                        excluded.append("attribute set on an externally deleted row")
                        continue
                    setattr(obj, c, v)
                    s = m.st[pid][c]
                    orig = s[1] if s[0] == "L" else (s[2] if s[0] == "P" else NOVAL)
                    m.mark(pid, c, ("P", v, orig), "set")
                    m.touched_since_set.pop((pid, c), None)
                    m.in_txn = True
                    prev_val[(pid, c)] = v
                    classes.add("set")
                elif kind == "e":
                    attrs = _names_from_mask(op[2], ATTRS)
                    if attrs:
                        note_sibling_touch(pid, attrs)
                        sess.expire(obj, attrs)
                        m.expire(pid, attrs, "expire-partial")
                        classes.add("expire-partial")
                    else:
                        sess.expire(obj)
                        m.expire(pid, ATTRS, "expire")
                        classes.add("expire")
                elif kind == "f":
                    attrs = _names_from_mask(op[2], SCALARS)
                    if attrs:
                        note_sibling_touch(pid, attrs)
                    m.expire(pid, attrs or ATTRS, "refresh" if not attrs else "refresh-partial")
                    m.sql()
                    try:
                        sess.refresh(obj, attrs or None)
                        got_exc = None
                    except InvalidRequestError as e:
                        got_exc = str(e)
                    if pid not in m.db:
                        flags["deleted"] = True
                        if got_exc is None or "Could not refresh" not in got_exc:
                            fail("C46/refresh/deleted-row-not-reported", f"{where}: refresh of an externally deleted row: {got_exc}", observed=got_exc, expected="InvalidRequestError: Could not refresh instance")
                    else:
                        if got_exc is not None:
                            fail("C46/refresh/unexpected-error", f"{where}: {got_exc}", observed=got_exc)
                        for a in attrs or SCALARS:
                            val = pid if a == "id" else m.db[pid][a]
                            m.mark(pid, a, ("L", val), "refresh" if not attrs else "refresh-partial")
                    classes.add("refresh-partial" if attrs else "refresh")
                else:
                    raise AssertionError(op)

            # ---- end of epoch
            if ep["end"] == "commit":
                sess.commit()
            else:
                sess.rollback()
            m.end(ep["end"])
            for pid in objs:
                for a in ATTRS:
                    resolve(pid, a, f"epoch {ei} after {ep['end']}")
            classes.add(ep["end"])
            got_rows = {r[0]: {"x": r[1], "y": r[2], "name": r[3]} for r in rc.execute("SELECT id, x, y, name FROM parent")}
            if got_rows != m.committed:
                fail(f"C46/db-after-{ep['end']}", f"epoch {ei}: committed parent rows {got_rows} != model {m.committed}", observed=got_rows, expected=m.committed)

        # ---- final sweep: every attribute of every object
        for pid in sorted(objs):
            for attr in ATTRS:
                if attr == "children" and m.st[pid]["id"][0] == "E" and pid not in m.db:
                    continue
                if not do_read(pid, attr, "final read"):
                    break
        for k in flags:
            if flags[k]:
                classes.add("nt-" + k)
        for r in excluded:
            ctx.exclude(r)
        ctx.note(case, flags["fresh"] or flags["stale"] or flags["pending-kept"] or flags["deleted"], classes=classes)
    finally:
        if sess is not None:
            sess.close()
        rc.close()
        F.drop_db(eng)


_val = st.integers(0, 3)
_EXP_MASKS = [0, 2, 4, 8, 16, 6, 10, 12, 1, 18, 14, 31]  # over ATTRS (0 = whole object)
_REF_MASKS = [0, 2, 4, 8, 6, 12, 10, 1, 3, 15]  # over SCALARS (0 = whole object)


@st.composite
def _programs(draw):
    n_p = draw(st.integers(1, 3))
    rows = [[draw(_val), draw(_val), draw(st.integers(0, 2))] for _ in range(n_p)]
    kids = draw(st.lists(st.one_of(st.none(), st.integers(0, 2)), max_size=3))
    cfg = {"autoflush": draw(st.booleans()), "eoc": draw(st.sampled_from([False, False, True]))}
    oi = st.integers(0, n_p - 1)
    ci = st.integers(0, 2)
    epochs = []
    for ei in range(draw(st.integers(2, 4))):
        ext = []
        if ei > 0:
            for _ in range(draw(st.integers(1, 4))):
                k = draw(st.sampled_from(["u", "u", "u", "U", "U", "U", "d", "i", "k", "k"]))
                if k == "u":
                    ext.append(["u", draw(oi), draw(ci), draw(_val)])
                elif k == "U":
                    ext.append(["U", draw(oi), draw(_val), draw(_val), draw(st.integers(0, 2))])
                elif k == "d":
                    ext.append(["d", draw(oi)])
                elif k == "i":
                    ext.append(["i", draw(oi), draw(_val), draw(_val), draw(st.integers(0, 2))])
                else:
                    ext.append(["k", draw(st.integers(0, 2)), draw(st.one_of(st.none(), st.integers(0, 2)))])
        ops = []
        for j in range(draw(st.integers(1, 5))):
            k = draw(st.sampled_from(["r", "r", "s", "e", "ea", "f", "q", "fl", "M", "M", "M"] if j or not ei else ["M", "M", "r", "e", "f", "q"]))
            if k == "r":
                ops.append(["r", draw(oi), draw(st.integers(0, 4))])
            elif k == "s":
                ops.append(["s", draw(oi), draw(ci), draw(_val)])
            elif k == "e":
                ops.append(["e", draw(oi), draw(st.sampled_from(_EXP_MASKS))])
            elif k == "f":
                ops.append(["f", draw(oi), draw(st.sampled_from(_REF_MASKS))])
            elif k == "q":
                ops.append(["q", draw(st.sampled_from([0, 1, 2, 1, 2])), draw(st.integers(0, 2**n_p - 1))])
            elif k == "M":
                # motif: pending change on one attribute, then something that reloads/expires (part of) the same
                # object, then read both the pending attribute and a sibling
                o, a = draw(oi), draw(ci)
                b = (a + draw(st.integers(1, 2))) % 3
                ops.append(["s", o, a, draw(_val)])
                how = draw(st.sampled_from(["e", "e", "f", "f", "q0", "q1", "q2", "ea", "fl"]))
                if how == "e":
                    ops.append(["e", o, draw(st.sampled_from([1 << (b + 1), 1 << (b + 1), 1 << (b + 1) | 16, 1 << (b + 1) | 1, 14 ^ (1 << (a + 1))]))])
                elif how == "f":
                    ops.append(["f", o, draw(st.sampled_from([1 << (b + 1), 1 << (b + 1), 1 << (b + 1) | 1, 14 ^ (1 << (a + 1))]))])
                elif how in ("q0", "q1", "q2"):
                    ops.append(["q", int(how[1]), draw(st.integers(0, 2**n_p - 1))])
                else:
                    ops.append([how])
                ops.append(["r", o, a + 1])
                ops.append(["r", o, b + 1])
            else:
                ops.append([k])
        epochs.append({"ext": ext, "ops": ops, "end": draw(st.sampled_from(["commit", "commit", "commit", "rollback"]))})
    return {"cfg": cfg, "rows": rows, "kids": kids, "epochs": epochs}


# ====================================================================== joined-table inheritance
IATTRS = ["a", "s"]  # a: column of the base table (item), s: column of the subclass table (subitem)


def check_inherit(case, ctx):
    """Same state machine on SubItem(Item) objects.  The point: a populate_existing query against the *base* class (or a
    statement that returns the key only) yields rows that lack some of the object's columns; those attributes cannot be
    refreshed from the row and must therefore not keep their stale value - they end up expired and the next read shows the
    database."""
    from sqlalchemy import inspect, select, text
    from sqlalchemy.orm import Session

    fam = F.family()
    Item, Sub = fam.Item, fam.SubItem
    n = len(case["rows"])
    db = {i + 1: {"a": r[0], "s": r[1]} for i, r in enumerate(case["rows"])}
    committed = {k: dict(v) for k, v in db.items()}
    cfg = case["cfg"]
    st_ = {}  # (oid, attr) -> ("L", v) | ("P", v, orig) | ("E",)
    why = {}
    classes = set()
    flags = {"fresh": False, "stale": False, "lacking": False}
    in_txn = [False]
    eng = F.new_db(ctx, fam)
    rc = F.raw(eng)
    sess = None

    def mark(k, state, reason):
        st_[k] = state
        why[k] = reason

    def flush_model():
        for (oid, a), v in sorted(st_.items()):
            if v[0] == "P":
                in_txn[0] = True
                if v[2] == NOVAL or v[2] != v[1]:
                    db[oid][a] = v[1]
                mark((oid, a), ("L", v[1]), "flush")

    def sql():
        in_txn[0] = True
        if cfg["autoflush"]:
            flush_model()

    def fail(sig, msg, observed=None, expected=None):
        ctx.note(case, True, classes=classes)
        raise Violation(sig, msg, observed=observed, expected=expected)

    try:
        F.raw_insert(rc, "item", [dict(id=k, kind="sub", a=v["a"]) for k, v in db.items()])
        F.raw_insert(rc, "subitem", [dict(id=k, s=v["s"]) for k, v in db.items()])
        sess = Session(eng, autoflush=cfg["autoflush"], expire_on_commit=cfg["eoc"])
        objs = {o.id: o for o in sess.scalars(select(Sub).order_by(Sub.id))}  # subclass query: row carries both tables
        in_txn[0] = True
        prev = {}
        for oid in objs:
            for a in IATTRS:
                mark((oid, a), ("L", db[oid][a]), "initial-load")
                prev[(oid, a)] = db[oid][a]

        def resolve(oid, a, where):
            if st_[(oid, a)][0] == "E" and a not in inspect(objs[oid]).unloaded:
                mark((oid, a), ("L", db[oid][a]), why[(oid, a)] + "+side-load")

        def read(oid, a, where):
            was_e = st_[(oid, a)][0] == "E"
            resolve(oid, a, where)
            v = st_[(oid, a)]
            reason = why[(oid, a)]
            if v[0] == "E":
                sql()
                exp = db[oid][a]
                mark((oid, a), ("L", exp), "expired-load")
            else:
                exp = v[1]
                if v[0] == "L" and not was_e and db[oid][a] != exp:
                    flags["stale"] = True
            if was_e and prev[(oid, a)] != exp:
                flags["fresh"] = True
            got = getattr(objs[oid], a)
            if got != exp:
                fail(f"C46/inherit/read/{v[0]}-after-{reason}/value", f"{where}: SubItem#{oid}.{a} (model state {v[0]} since {reason}) is {got!r}, expected {exp!r}; database {db[oid]}",
                     observed=got, expected=exp)
            prev[(oid, a)] = got

        for ei, ep in enumerate(case["epochs"]):
            if ei > 0:
                for xo in ep["ext"]:
                    oid, a = xo[0] % n + 1, IATTRS[xo[1] % 2]
                    rc.execute(f"UPDATE {'item' if a == 'a' else 'subitem'} SET {a} = ? WHERE id = ?", (xo[2], oid))
                    db[oid][a] = xo[2]
                committed = {k: dict(v) for k, v in db.items()}
            for oi, op in enumerate(ep["ops"]):
                where = f"epoch {ei} op {oi} {op}"
                k = op[0]
                if k == "fl":
                    sess.flush()
                    flush_model()
                    continue
                if k == "q":
                    how = ["base", "base-pe", "sub-pe", "text-pe", "base-pe", "text-pe"][op[1] % 6]
                    if how.startswith("base"):
                        stmt = select(Item).order_by(Item.id)  # row: item columns only
                    elif how.startswith("sub"):
                        stmt = select(Sub).order_by(Sub.id)  # row: item + subitem columns
                    else:
                        stmt = select(Item).from_statement(text("SELECT id, kind FROM item ORDER BY id"))  # row: key + discriminator
                    if how.endswith("pe"):
                        stmt = stmt.execution_options(populate_existing=True)
                    got = sess.scalars(stmt).all()
                    sql()
                    if [id(o) for o in got] != [id(objs[i]) for i in sorted(objs)]:
                        fail("C46/inherit/query/result-identities", f"{where}: query returned {got}")
                    if how.endswith("pe"):
                        carried = {"base-pe": ["a"], "sub-pe": ["a", "s"], "text-pe": []}[how]
                        for oid in objs:
                            for a in IATTRS:
                                if a in carried:
                                    mark((oid, a), ("L", db[oid][a]), "populate_existing")
                                else:
                                    if st_[(oid, a)][0] in ("L", "P"):
                                        flags["lacking"] = True
                                        classes.add("pe-base-row-lacks-subclass-column" if how == "base-pe" else "pe-key-only-statement")
                                    mark((oid, a), ("E",), f"populate_existing({how}: column not in the row)")
                    classes.add("query-" + how)
                    continue
                oid = op[1] % n + 1
                obj = objs[oid]
                if k == "r":
                    read(oid, IATTRS[op[2] % 2], where)
                elif k == "s":
                    a = IATTRS[op[2] % 2]
                    setattr(obj, a, op[3])
                    v = st_[(oid, a)]
                    mark((oid, a), ("P", op[3], v[1] if v[0] == "L" else (v[2] if v[0] == "P" else NOVAL)), "set")
                    in_txn[0] = True
                    prev[(oid, a)] = op[3]
                elif k == "e":
                    attrs = [a for i, a in enumerate(IATTRS) if op[2] >> i & 1]
                    sess.expire(obj, attrs or None)
                    for a in attrs or IATTRS:
                        mark((oid, a), ("E",), "expire-partial" if attrs else "expire")
                elif k == "f":
                    for a in IATTRS:
                        mark((oid, a), ("E",), "refresh")
                    sql()
                    sess.refresh(obj)
                    for a in IATTRS:
                        mark((oid, a), ("L", db[oid][a]), "refresh")
                else:
                    raise AssertionError(op)
                classes.add({"r": "read", "s": "set", "e": "expire", "f": "refresh"}[k])
            if ep["end"] == "commit":
                sess.commit()
                flush_model()
                committed = {k: dict(v) for k, v in db.items()}
                if cfg["eoc"]:
                    for key in st_:
                        mark(key, ("E",), "commit-expire")
                in_txn[0] = False
            else:
                sess.rollback()
                if in_txn[0]:
                    db = {k: dict(v) for k, v in committed.items()}
                    for key in st_:
                        mark(key, ("E",), "rollback")
                in_txn[0] = False
            for key in st_:
                resolve(key[0], key[1], "epoch end")
            got_rows = {r[0]: {"a": r[1], "s": r[2]} for r in rc.execute("SELECT item.id, a, s FROM item JOIN subitem ON subitem.id = item.id")}
            if got_rows != committed:
                fail(f"C46/inherit/db-after-{ep['end']}", f"epoch {ei}: rows {got_rows} != model {committed}", observed=got_rows, expected=committed)
        for oid in sorted(objs):
            for a in IATTRS:
                read(oid, a, "final read")
        for f, v in flags.items():
            if v:
                classes.add("nt-" + f)
        ctx.note(case, flags["fresh"] or flags["stale"], classes=classes)
    finally:
        if sess is not None:
            sess.close()
        rc.close()
        F.drop_db(eng)


@st.composite
def _inherit_programs(draw):
    n = draw(st.integers(1, 2))
    oi = st.integers(0, n - 1)
    epochs = []
    for ei in range(draw(st.integers(2, 4))):
        ext = [[draw(oi), draw(st.integers(0, 1)), draw(st.integers(4, 9))] for _ in range(draw(st.integers(1, 3)))] if ei else []
        ops = []
        for j in range(draw(st.integers(1, 5))):
            k = draw(st.sampled_from(["q", "r", "s", "q", "e", "f", "r", "q", "fl"]))
            if k == "q":
                ops.append(["q", draw(st.integers(0, 5))])
            elif k == "r":
                ops.append(["r", draw(oi), draw(st.integers(0, 1))])
            elif k == "s":
                ops.append(["s", draw(oi), draw(st.integers(0, 1)), draw(_val)])
            elif k == "e":
                ops.append(["e", draw(oi), draw(st.integers(0, 3))])
            elif k == "f":
                ops.append(["f", draw(oi)])
            else:
                ops.append(["fl"])
        epochs.append({"ext": ext, "ops": ops, "end": draw(st.sampled_from(["commit", "commit", "commit", "rollback"]))})
    return {"cfg": {"autoflush": draw(st.booleans()), "eoc": draw(st.sampled_from([False, False, True]))}, "rows": [[draw(_val), draw(_val)] for _ in range(n)], "epochs": epochs}




# ====================================================================== composite attribute
CATTRS = ["px", "py"]


def check_composite(case, ctx):
    """Shape.start = composite(Point, px, py).  The composite object is cached on the instance once it was read; every
    refresh-like operation (refresh(obj), refresh(obj, [..]), the populate_existing forms, expire + access, commit + access) must
    make it agree again with the column attributes, and those with the database."""
    from sqlalchemy import inspect, select
    from sqlalchemy.orm import Session

    fam = F.family()
    Shape, Point = fam.Shape, F.Point
    n = len(case["rows"])
    db = {i + 1: {"px": r[0], "py": r[1]} for i, r in enumerate(case["rows"])}
    committed = {k: dict(v) for k, v in db.items()}
    cfg = case["cfg"]
    st_, why = {}, {}
    classes = set()
    flags = {"fresh": False, "stale": False, "composite-after-refresh": False}
    cached = set()  # objects whose composite has been read (so a cached Point exists) since it was last known to be rebuilt
    in_txn = [False]
    eng = F.new_db(ctx, fam)
    rc = F.raw(eng)
    sess = None

    def mark(k, state, reason):
        st_[k] = state
        why[k] = reason

    def flush_model():
        for (oid, a), v in sorted(st_.items()):
            if v[0] == "P":
                in_txn[0] = True
                if v[2] == NOVAL or v[2] != v[1]:
                    db[oid][a] = v[1]
                mark((oid, a), ("L", v[1]), "flush")

    def sql():
        in_txn[0] = True
        if cfg["autoflush"]:
            flush_model()

    def fail(sig, msg, observed=None, expected=None):
        ctx.note(case, True, classes=classes)
        raise Violation(sig, msg, observed=observed, expected=expected)

    try:
        F.raw_insert(rc, "shape", [dict(id=k, **v) for k, v in db.items()])
        sess = Session(eng, autoflush=cfg["autoflush"], expire_on_commit=cfg["eoc"])
        objs = {o.id: o for o in sess.scalars(select(Shape).order_by(Shape.id))}
        in_txn[0] = True
        prev = {}
        for oid in objs:
            for a in CATTRS:
                mark((oid, a), ("L", db[oid][a]), "initial-load")
                prev[(oid, a)] = db[oid][a]

        def resolve(oid, a):
            if st_[(oid, a)][0] == "E" and a not in inspect(objs[oid]).unloaded:
                mark((oid, a), ("L", db[oid][a]), why[(oid, a)] + "+side-load")

        def read(oid, a, where):
            was_e = st_[(oid, a)][0] == "E"
            resolve(oid, a)
            v = st_[(oid, a)]
            reason = why[(oid, a)]
            if v[0] == "E":
                sql()
                exp = db[oid][a]
                mark((oid, a), ("L", exp), "expired-load")
            else:
                exp = v[1]
                if v[0] == "L" and not was_e and db[oid][a] != exp:
                    flags["stale"] = True
            if was_e and prev[(oid, a)] != exp:
                flags["fresh"] = True
            got = getattr(objs[oid], a)
            if got != exp:
                fail(f"C46/composite/column-read/{v[0]}-after-{reason}/value", f"{where}: Shape#{oid}.{a} (model state {v[0]} since {reason}) is {got!r}, expected {exp!r}; database {db[oid]}",
                     observed=got, expected=exp)
            prev[(oid, a)] = got
            return got

        def read_composite(oid, where, after=None):
            reasons = sorted({why[(oid, a)] for a in CATTRS})
            x, y = read(oid, "px", where), read(oid, "py", where)
            got = objs[oid].start
            if after and oid in cached:
                flags["composite-after-refresh"] = True
                classes.add("composite-read-after-" + after)
            cached.add(oid)
            if got is None or (got.x, got.y) != (x, y):
                fail(f"C46/composite/stale-after-{(after or reasons[-1]).split('(')[0].split('+')[0]}",
                     f"{where}: Shape#{oid}.start is {got!r} but its columns are px={x!r}, py={y!r} (column states since {reasons}); database {db[oid]}",
                     observed=repr(got), expected=f"Point({x!r}, {y!r})")

        last_refresh = {}  # oid -> name of the last refresh-like operation since the composite was read
        for ei, ep in enumerate(case["epochs"]):
            if ei > 0:
                for xo in ep["ext"]:
                    oid, a = xo[0] % n + 1, CATTRS[xo[1] % 2]
                    rc.execute(f"UPDATE shape SET {a} = ? WHERE id = ?", (xo[2], oid))
                    db[oid][a] = xo[2]
                committed = {k: dict(v) for k, v in db.items()}
            for oi, op in enumerate(ep["ops"]):
                where = f"epoch {ei} op {oi} {op}"
                k = op[0]
                if k == "fl":
                    sess.flush()
                    flush_model()
                    continue
                if k == "q":
                    how = ["plain", "pe-select", "pe-query", "pe-get", "pe-select", "pe-query"][op[1] % 6]
                    sql()
                    if how == "plain":
                        got = sess.scalars(select(Shape).order_by(Shape.id)).all()
                    elif how == "pe-select":
                        got = sess.scalars(select(Shape).order_by(Shape.id).execution_options(populate_existing=True)).all()
                    elif how == "pe-query":
                        got = sess.query(Shape).populate_existing().order_by(Shape.id).all()
                    else:
                        got = [sess.get(Shape, oid, populate_existing=True) for oid in sorted(objs)]
                    if [id(o) for o in got] != [id(objs[i]) for i in sorted(objs)]:
                        fail("C46/composite/query/result-identities", f"{where}: query returned {got}")
                    if how != "plain":
                        for oid in objs:
                            for a in CATTRS:
                                mark((oid, a), ("L", db[oid][a]), "populate_existing")
                            last_refresh[oid] = "populate_existing-" + how[3:]
                    classes.add("query-" + how)
                    continue
                oid = op[1] % n + 1
                obj = objs[oid]
                if k == "r":
                    read(oid, CATTRS[op[2] % 2], where)
                elif k == "rc":
                    read_composite(oid, where, last_refresh.pop(oid, None))
                elif k == "sc":
                    obj.start = Point(op[2], op[3])
                    for a, val in zip(CATTRS, (op[2], op[3])):
                        v = st_[(oid, a)]
                        mark((oid, a), ("P", val, v[1] if v[0] == "L" else (v[2] if v[0] == "P" else NOVAL)), "set-composite")
                        prev[(oid, a)] = val
                    in_txn[0] = True
                    last_refresh.pop(oid, None)
                elif k == "e":
                    attrs = [a for i, a in enumerate(CATTRS) if op[2] >> i & 1]
                    sess.expire(obj, attrs or None)
                    for a in attrs or CATTRS:
                        mark((oid, a), ("E",), "expire-partial" if attrs else "expire")
                    last_refresh[oid] = "expire-partial" if attrs else "expire"
                elif k == "f":
                    attrs = [a for i, a in enumerate(CATTRS) if op[2] >> i & 1]
                    for a in attrs or CATTRS:
                        mark((oid, a), ("E",), "refresh")
                    sql()
                    sess.refresh(obj, attrs or None)
                    for a in attrs or CATTRS:
                        mark((oid, a), ("L", db[oid][a]), "refresh-partial" if attrs else "refresh")
                    last_refresh[oid] = "refresh-partial" if attrs else "refresh"
                else:
                    raise AssertionError(op)
                classes.add({"r": "read-column", "rc": "read-composite", "sc": "set-composite", "e": "expire", "f": "refresh"}[k])
            if ep["end"] == "commit":
                sess.commit()
                flush_model()
                committed = {k: dict(v) for k, v in db.items()}
                if cfg["eoc"]:
                    for key in st_:
                        mark(key, ("E",), "commit-expire")
                    for oid in objs:
                        last_refresh[oid] = "commit"
                in_txn[0] = False
            else:
                sess.rollback()
                if in_txn[0]:
                    db = {k: dict(v) for k, v in committed.items()}
                    for key in st_:
                        mark(key, ("E",), "rollback")
                    for oid in objs:
                        last_refresh[oid] = "rollback"
                in_txn[0] = False
            for key in st_:
                resolve(key[0], key[1])
            got_rows = {r[0]: {"px": r[1], "py": r[2]} for r in rc.execute("SELECT id, px, py FROM shape")}
            if got_rows != committed:
                fail(f"C46/composite/db-after-{ep['end']}", f"epoch {ei}: rows {got_rows} != model {committed}", observed=got_rows, expected=committed)
        for oid in sorted(objs):
            read_composite(oid, "final read", last_refresh.pop(oid, None))
        for f, v in flags.items():
            if v:
                classes.add("nt-" + f)
        ctx.note(case, flags["composite-after-refresh"] and (flags["fresh"] or flags["stale"]), classes=classes)
    finally:
        if sess is not None:
            sess.close()
        rc.close()
        F.drop_db(eng)


@st.composite
def _composite_programs(draw):
    n = draw(st.integers(1, 2))
    oi = st.integers(0, n - 1)
    epochs = []
    for ei in range(draw(st.integers(2, 4))):
        ext = [[draw(oi), draw(st.integers(0, 1)), draw(st.integers(4, 9))] for _ in range(draw(st.integers(1, 3)))] if ei else []
        ops = []
        for j in range(draw(st.integers(1, 6))):
            k = draw(st.sampled_from(["rc", "q", "rc", "f", "e", "r", "sc", "q", "rc", "fl"]))
            if k == "q":
                ops.append(["q", draw(st.integers(0, 5))])
            elif k == "r":
                ops.append(["r", draw(oi), draw(st.integers(0, 1))])
            elif k == "rc":
                ops.append(["rc", draw(oi)])
            elif k == "sc":
                ops.append(["sc", draw(oi), draw(_val), draw(_val)])
            elif k in ("e", "f"):
                ops.append([k, draw(oi), draw(st.integers(0, 3))])
            else:
                ops.append(["fl"])
        if ei == 0:
            ops.insert(0, ["rc", draw(oi)])  # the composite is read (cached) early: that is what has to be rebuilt later
        epochs.append({"ext": ext, "ops": ops, "end": draw(st.sampled_from(["commit", "commit", "commit", "rollback"]))})
    return {"cfg": {"autoflush": draw(st.booleans()), "eoc": draw(st.sampled_from([False, False, True]))}, "rows": [[draw(_val), draw(_val)] for _ in range(n)], "epochs": epochs}

# --------------------------------------------------------------------------- many-to-one attribute (scalar object attribute)
_M2O = {}


def _m2o_family():
    if not _M2O:
        from sqlalchemy import Column, ForeignKey, Integer
        from sqlalchemy.orm import declarative_base, relationship

        Base = declarative_base()

        class MParent(Base):
            __tablename__ = "mparent"
            id = Column(Integer, primary_key=True)

        class MChild(Base):
            __tablename__ = "mchild"
            id = Column(Integer, primary_key=True)
            parent_id = Column(ForeignKey("mparent.id"))
            # one-directional on purpose: with a backref, a discarded pending `child.parent = p` would survive in p.children
            # and be written by the one-to-many side at flush (a different, documented hazard)
            parent = relationship(MParent)

        _M2O.update(Base=Base, P=MParent, C=MChild)
    return _M2O


def check_m2o(case, ctx):
    """child.parent (many-to-one) through set / expire-by-name / expire(obj) / refresh / read / commit / rollback, with the FK changed
    externally between transactions.  Model per child: ('L', v) loaded, ('P', v) pending, ('E',) expired; db[kid] = parent id."""
    from sqlalchemy import select
    from sqlalchemy.orm import Session

    from vf.sautil import file_engine, raw_connect, remove_db

    fam = _m2o_family()
    P, C = fam["P"], fam["C"]
    n_p = case["n_p"]
    db = {i + 1: (None if k is None else k % n_p + 1) for i, k in enumerate(case["kids"])}
    eng = file_engine(ctx)
    fam["Base"].metadata.create_all(eng)
    rc = raw_connect(eng._vf_path)
    classes = set()
    nontrivial = False
    sess = None
    try:
        rc.executemany("INSERT INTO mparent (id) VALUES (?)", [(i + 1,) for i in range(n_p)])
        rc.executemany("INSERT INTO mchild (id, parent_id) VALUES (?, ?)", list(db.items()))
        sess = Session(eng, autoflush=False, expire_on_commit=case["eoc"])
        parents = {o.id: o for o in sess.scalars(select(P).order_by(P.id))}
        kids = {o.id: o for o in sess.scalars(select(C).order_by(C.id))}
        st_ = {k: ("E",) for k in kids}  # the relationship itself is not loaded by the query
        sess.rollback()  # end the read transaction; loaded column values stay (rollback expires them: see below)
        for k in kids:
            st_[k] = ("E",)
        in_txn = False  # the Session begins its transaction on the first modification / load / flush, not on expire()
        for ei, ep in enumerate(case["epochs"]):
            for kid_i, newp in ep["ext"]:
                kid = kid_i % len(kids) + 1
                v = None if newp is None else newp % n_p + 1
                rc.execute("UPDATE mchild SET parent_id = ? WHERE id = ?", (v, kid))
                db[kid] = v
                classes.add("ext-reparent")
            for oi, op in enumerate(ep["ops"]):
                where = f"epoch {ei} op {oi} {op}"
                kid = op[1] % len(kids) + 1
                ch = kids[kid]
                if op[0] == "set":
                    v = None if op[2] is None else op[2] % n_p + 1
                    if v is None and st_[kid][0] == "E":
                        # `obj.ref = None` on an unloaded reference records nothing (the old value is unknown and active_history is
                        # off): the program reads the reference first, as an application that wants the NULL written has to
                        _ = ch.parent
                        st_[kid] = ("L", db[kid])
                        classes.add("load-before-set-none")
                    ch.parent = parents[v] if v is not None else None
                    in_txn = True
                    s0 = st_[kid]
                    # ('P', value, original): re-assigning the held value is no net change (nothing is written, even if the row moved on)
                    orig = s0[2] if s0[0] == "P" else (s0[1] if s0[0] == "L" else NOVAL)
                    st_[kid] = ("L", v) if (orig != NOVAL and orig == v) else ("P", v, orig)
                elif op[0] == "expire":
                    sess.expire(ch, ["parent", "parent_id"])
                    if st_[kid][0] == "P":
                        classes.add("named-expire-over-pending")
                    st_[kid] = ("E",)
                elif op[0] == "expire_obj":
                    sess.expire(ch)
                    st_[kid] = ("E",)
                elif op[0] == "refresh":
                    sess.refresh(ch, ["parent", "parent_id"])
                    in_txn = True
                    st_[kid] = ("L", db[kid])
                else:  # read
                    got = ch.parent
                    s0 = st_[kid]
                    exp = db[kid] if s0[0] == "E" else s0[1]
                    got_id = None if got is None else got.id
                    if got_id != exp or (got is not None and got is not parents[got_id]):
                        ctx.note(case, True, classes=sorted(classes))
                        raise Violation("C46/m2o/" + {"E": "expired-attribute-not-reloaded", "P": "pending-value-lost", "L": "loaded-value-changed"}[s0[0]],
                                        f"{where}: child {kid}.parent is {got!r} (id {got_id}), expected parent id {exp} (attribute state {s0}, row parent_id {db[kid]})",
                                        observed=got_id, expected=exp)
                    if s0[0] == "E":
                        st_[kid] = ("L", exp)
                        in_txn = True
                        nontrivial = True
                    classes.add("read-" + s0[0])
            if ep["end"] == "commit":
                sess.commit()
                for k, s0 in st_.items():
                    if s0[0] == "P":
                        db[k] = s0[1]
                    st_[k] = ("E",) if case["eoc"] else (("L", s0[1]) if s0[0] != "E" else s0)
                if not case["eoc"]:
                    # "expired" means: possibly re-loaded since, at the implementation's discretion (the flush of a commit loads what it
                    # needs of an object that is still flagged modified).  Inside one transaction the row cannot change, so a reference
                    # found loaded here holds this transaction's value; inspect(obj).unloaded decides which branch applies
                    from sqlalchemy import inspect as _insp

                    for k, s0 in st_.items():
                        if s0[0] == "E" and "parent" not in _insp(kids[k]).unloaded:
                            held = kids[k].__dict__.get("parent")
                            if (None if held is None else held.id) != db[k]:
                                raise Violation("C46/m2o/reloaded-value-differs-from-row", f"epoch {ei}: child {k}.parent was re-loaded during the commit as {held!r}, row says {db[k]}")
                            st_[k] = ("L", db[k])
                            classes.add("reloaded-during-commit")
                row = dict(rc.execute("SELECT id, parent_id FROM mchild").fetchall())
                if row != db:
                    raise Violation("C46/m2o/committed-rows", f"after commit of epoch {ei}: rows {row} != model {db}", observed=row, expected=db)
                in_txn = False
            else:
                sess.rollback()
                if in_txn:  # rollback() without a transaction in progress does nothing, in particular it expires nothing
                    for k in st_:
                        st_[k] = ("E",)
                else:
                    classes.add("rollback-without-transaction")
                in_txn = False
        ctx.note(case, nontrivial, classes=sorted(classes))
    finally:
        if sess is not None:
            sess.close()
        rc.close()
        remove_db(eng)


@st.composite
def _m2o_programs(draw):
    n_p = draw(st.integers(2, 3))
    kids = draw(st.lists(st.one_of(st.none(), st.integers(0, 2)), min_size=1, max_size=3))
    pv = st.one_of(st.none(), st.integers(0, 2))
    op = st.one_of(
        st.tuples(st.just("set"), st.integers(0, 2), pv).map(list),
        st.tuples(st.sampled_from(["expire", "expire", "expire_obj", "refresh", "read", "read", "read"]), st.integers(0, 2)).map(list),
    )
    epochs = []
    for i in range(draw(st.integers(1, 3))):
        ext = [list(t) for t in draw(st.lists(st.tuples(st.integers(0, 2), pv), max_size=2))]
        epochs.append({"ext": ext, "ops": draw(st.lists(op, min_size=1, max_size=8)), "end": draw(st.sampled_from(["commit", "commit", "rollback"]))})
    # expire_on_commit stays on: with it off, a foreign key value re-loaded during one commit is legitimately held across the next external
    # change and the lazy load of the reference goes by that held value (loaded attributes are never refreshed unasked) - a second state
    # machine for the FK column would be needed to predict it, which this sub-check does not have
    return {"n_p": n_p, "kids": kids, "eoc": True, "epochs": epochs}


def subs(tier):
    return [
        Generated("histories", check, strategy=_programs(), quick=2400, thorough=80000),
        Generated("inherit", check_inherit, strategy=_inherit_programs(), quick=900, thorough=30000),
        Generated("composite", check_composite, strategy=_composite_programs(), quick=900, thorough=30000),
        Generated("m2o", check_m2o, strategy=_m2o_programs(), quick=900, thorough=30000),
    ]
