"""C19 - dependency sorting is a correct topological order; cycles exactly reported.

Oracle: reachability closure (reference).  Exhaustive over every digraph on
<=4 nodes incl. self-loops (quick) / plus every loop-free digraph on 5 nodes
(thorough); random larger graphs with items of perturbed hashes and edges that
mention nodes outside ``allitems``.
"""
from __future__ import annotations

from hypothesis import strategies as st

from vf.api import Enumerated, Generated, Violation

PROPERTY = "C19"
LEVEL = "exploration"
RULE = (
    "exh: every labelled digraph on n<=4 nodes incl. self-loops as (n, edge bitmask) [thorough: + all loop-free digraphs on 5 nodes]; "
    "random: 1-40 nodes, drawn edge list (may mention nodes outside allitems), drawn allitems order and two drawn hash assignments. "
    "Non-trivial: graph has >=1 edge among the items and is neither a DAG whose allitems order is already topological nor a single self-loop; "
    "tables / tables_exh: the callers in sql/ddl.py (sort_tables_and_constraints, sort_tables, MetaData.sorted_tables) over 2-6 tables with drawn foreign keys "
    "(plain / use_alter, self-referential, parallel), explicit dependencies through Table.add_is_dependent_on and extra_dependencies= (half of them on FK pairs), "
    "drawn input order; exhaustively all FK-pair subsets on 3 tables x explicit dependency sets. Non-trivial there: explicit and FK dependencies both present and "
    "(a cycle or >=3 dependency pairs); "
    "distinct = canonical JSON of the case"
)
ASSUMPTIONS = [
    "items are hashable and compare by identity/equality consistently (the documented input domain)",
    "find_cycles is judged over the whole tuple graph (it ignores allitems by design); sort is judged over the graph induced on allitems",
]


class _N:
    __slots__ = ("i", "h")

    def __init__(self, i, h):
        self.i = i
        self.h = h

    def __hash__(self):
        return self.h

    def __repr__(self):
        return f"N{self.i}"


def _closure(nodes, edges):
    succ = {n: set() for n in nodes}
    for a, b in edges:
        if a in succ and b in succ:
            succ[a].add(b)
    reach = {}
    for s in nodes:
        seen = set()
        stack = list(succ[s])
        while stack:
            x = stack.pop()
            if x in seen:
                continue
            seen.add(x)
            stack.extend(succ[x])
        reach[s] = seen
    return reach


def _run_impl(topological, CircularDependencyError, tuples, items):
    try:
        subsets = [list(s) for s in topological.sort_as_subsets(tuples, items)]
        flat = list(topological.sort(tuples, items))
        return ("ok", subsets, flat, None)
    except CircularDependencyError as e:
        return ("cycle", None, None, e)


def _check_graph(n_items, order, edges, hashes_a, hashes_b, ctx, case):
    """order: allitems order (list of node ids); edges: list of (parent, child)
    over node ids (ids >= n_items are outsiders not in allitems)"""
    from sqlalchemy.exc import CircularDependencyError
    from sqlalchemy.util import topological

    all_ids = sorted(set(order) | {x for e in edges for x in e})
    inner = [(a, b) for a, b in edges if a in set(order) and b in set(order)]
    reach_items = _closure(order, inner)
    has_cycle = any(v in reach_items[v] for v in order)
    reach_all = _closure(all_ids, edges)
    expect_cyc_nodes = {v for v in all_ids if v in reach_all[v]}

    pos = {v: i for i, v in enumerate(order)}
    already_topo = all(pos[a] < pos[b] for a, b in inner)
    single_self_loop = len(set(inner)) == 1 and inner[0][0] == inner[0][1]
    nontrivial = bool(inner) and not (not has_cycle and already_topo) and not single_self_loop
    ctx.note(case, nontrivial, classes=["cyclic" if has_cycle else "dag", "outsiders" if len(all_ids) > len(order) else "closed"])

    results = []
    for hashes in (hashes_a, hashes_b):
        objs = {v: _N(v, hashes[v % len(hashes)] if hashes else v) for v in all_ids}
        tuples = [(objs[a], objs[b]) for a, b in edges]
        items = [objs[v] for v in order]
        kind, subsets, flat, err = _run_impl(topological, CircularDependencyError, tuples, items)
        if has_cycle:
            if kind != "cycle":
                raise Violation("C19/sort/no-error-on-cycle", f"cycle among items but sort returned {flat}", observed=str(flat), expected="CircularDependencyError")
            got = {o.i for o in err.cycles}
            if got != expect_cyc_nodes:
                raise Violation("C19/error.cycles/wrong-set", f"CircularDependencyError.cycles={sorted(got)} expected {sorted(expect_cyc_nodes)}", observed=sorted(got), expected=sorted(expect_cyc_nodes))
            results.append(("cycle",))
        else:
            if kind != "ok":
                raise Violation("C19/sort/spurious-cycle-error", f"acyclic among items but CircularDependencyError raised (cycles={err.cycles})", observed=str(err), expected="a sort order")
            ids = [o.i for o in flat]
            if sorted(ids) != sorted(order) or len(ids) != len(order):
                raise Violation("C19/sort/not-a-permutation", f"sort output {ids} is not a permutation of {order}", observed=ids, expected=sorted(order))
            p = {v: i for i, v in enumerate(ids)}
            for a, b in inner:
                if p[a] >= p[b]:
                    raise Violation("C19/sort/edge-violated", f"edge {a}->{b} violated in {ids}", observed=ids, expected=f"{a} before {b}")
            sub_ids = [[o.i for o in s] for s in subsets]
            if [x for s in sub_ids for x in s] != ids:
                raise Violation("C19/sort_as_subsets/differs-from-sort", f"{sub_ids} vs {ids}")
            done = set()
            for s in sub_ids:
                if not s:
                    raise Violation("C19/sort_as_subsets/empty-subset", f"{sub_ids}")
                for x in s:
                    for y in s:
                        if x != y and y in reach_items[x]:
                            raise Violation("C19/sort_as_subsets/not-antichain", f"{x}->{y} inside subset {s}")
                    deps = {a for a, b in inner if b == x}
                    if not deps <= done:
                        raise Violation("C19/sort_as_subsets/dependency-not-earlier", f"{x} in {s} before deps {sorted(deps - done)}")
                done.update(s)
            results.append(("ok", ids, sub_ids))
        fc = {o.i for o in topological.find_cycles(tuples, items)}
        if fc != expect_cyc_nodes:
            raise Violation("C19/find_cycles/wrong-set", f"find_cycles={sorted(fc)} expected {sorted(expect_cyc_nodes)}", observed=sorted(fc), expected=sorted(expect_cyc_nodes))
    if results[0] != results[1]:
        raise Violation("C19/sort/order-depends-on-hash", f"{results[0]} vs {results[1]} for different item hashes", observed=str(results))


# ---- exhaustive small graphs
def _exh_cases(tier):
    for n in range(0, 5):
        for mask in range(1 << (n * n)):
            yield ["full", n, mask]
    if tier == "thorough":
        n = 5
        pairs = n * (n - 1)
        for mask in range(1 << pairs):
            yield ["loopfree", n, mask]


def _decode(kind, n, mask):
    edges = []
    if kind == "full":
        for a in range(n):
            for b in range(n):
                if mask >> (a * n + b) & 1:
                    edges.append((a, b))
    else:
        k = 0
        for a in range(n):
            for b in range(n):
                if a == b:
                    continue
                if mask >> k & 1:
                    edges.append((a, b))
                k += 1
    return edges


def check_exh(case, ctx):
    kind, n, mask = case
    edges = _decode(kind, n, mask)
    order = list(range(n))
    # second hash assignment reverses hash order so set iteration order differs
    _check_graph(n, order, edges, [], [1000 - 7 * i for i in range(max(n, 1))], ctx, case)


# ---- random larger graphs
@st.composite
def _graphs(draw):
    n = draw(st.integers(1, 40))
    extra = draw(st.integers(0, 3))
    order = draw(st.permutations(list(range(n))))
    total = n + extra
    max_e = min(total * total, 4 * total)
    density = draw(st.integers(0, max_e))
    mode = draw(st.sampled_from(["any", "forward", "forward+1back"]))
    edges = []
    node = st.integers(0, total - 1)
    for _ in range(density):
        a, b = draw(node), draw(node)
        if mode != "any" and a > b:
            a, b = b, a
        if mode != "any" and a == b:
            continue
        edges.append([a, b])
    if mode == "forward+1back" and edges:
        a, b = draw(st.sampled_from(edges))
        edges.append([b, a])
    ha = draw(st.lists(st.integers(-(2**40), 2**40), min_size=total, max_size=total, unique=True))
    hb = draw(st.lists(st.integers(-(2**40), 2**40), min_size=total, max_size=total, unique=True))
    return {"n": n, "order": list(order), "edges": edges, "ha": ha, "hb": hb}


def check_random(case, ctx):
    edges = [tuple(e) for e in case["edges"]]
    _check_graph(case["n"], list(case["order"]), edges, case["ha"], case["hb"], ctx, {"n": case["n"], "order": case["order"], "edges": case["edges"]})


# ------------------------------------------------------------------------------------ callers: sql/ddl.py table sorting
def _has_cycle(nodes, edges):
    reach = _closure(nodes, edges)
    return any(n in reach[n] for n in nodes)


def check_tables(case, ctx):
    """sort_tables_and_constraints / sort_tables / MetaData.sorted_tables (the callers named in the property's anchors) over generated
    foreign-key graphs with explicit dependencies (Table.add_is_dependent_on, extra_dependencies=).  Validity predicate, not one expected order."""
    import warnings

    from sqlalchemy import Column, ForeignKeyConstraint, Integer, MetaData, Table
    from sqlalchemy import exc as sa_exc
    from sqlalchemy.sql.ddl import sort_tables, sort_tables_and_constraints

    n = case["n"]
    md = MetaData()
    fks = [tuple(f) for f in case["fks"]]  # (child, parent, use_alter)
    tables = []
    for i in range(n):
        cols = [Column("id", Integer, primary_key=True)]
        cons = []
        for k, (c, p_, ua) in enumerate(fks):
            if c == i:
                cols.append(Column(f"f{k}", Integer))
                cons.append(ForeignKeyConstraint([f"f{k}"], [f"t{p_}.id"], name=f"fk{k}", use_alter=bool(ua)))
        tables.append(Table(f"t{i}", md, *cols, *cons))
    by = {t.name: t for t in tables}
    dep_attr = [tuple(d) for d in case["dep_attr"]]  # (parent, child) through Table.add_is_dependent_on
    dep_arg = [tuple(d) for d in case["dep_arg"]]  # (parent, child) through extra_dependencies=
    for p_, c in dep_attr:
        by[f"t{c}"].add_is_dependent_on(by[f"t{p_}"])
    order = [tables[i] for i in case["order"]]
    extra = [(by[f"t{p_}"], by[f"t{c}"]) for p_, c in dep_arg]
    fixed = [(p_, c) for p_, c in dep_attr + dep_arg if p_ != c]
    mutable = [(p_, c) for c, p_, ua in fks if not ua and p_ != c]
    nodes = list(range(n))
    fixed_cyclic = _has_cycle(nodes, fixed) or any(p_ == c for p_, c in dep_attr + dep_arg)
    all_cyclic = _has_cycle(nodes, fixed + mutable)
    ctx.note(case, bool(fixed) and bool(mutable) and (all_cyclic or len(fixed) + len(mutable) >= 3),
             classes=["tables", "fk-cycle" if all_cyclic else "acyclic", "explicit-deps" if fixed else "no-explicit-deps",
                      "explicit-dep-on-fk-pair" if set(fixed) & set(mutable) else "explicit-dep-elsewhere", "explicit-cycle" if fixed_cyclic else "explicit-acyclic"])

    def run():
        with warnings.catch_warnings():
            warnings.simplefilter("ignore")
            try:
                return "ok", sort_tables_and_constraints(list(order), extra_dependencies=extra or None)
            except sa_exc.CircularDependencyError as e:
                return "cycle", e

    kind, res = run()
    if fixed_cyclic:
        if kind != "cycle":
            raise Violation("C19/tables/explicit-cycle-not-reported", f"the explicit dependencies {fixed} contain a cycle but sort_tables_and_constraints returned an order")
        return
    if kind == "cycle":
        raise Violation("C19/tables/spurious-cycle", f"CircularDependencyError although the non-removable dependencies {fixed} are acyclic (fks {fks})")
    if res[-1][0] is not None:
        raise Violation("C19/tables/shape", "last entry is not (None, remaining)")
    names = [t.name for t, _ in res[:-1]]
    if sorted(names) != sorted(t.name for t in order):
        raise Violation("C19/tables/not-a-permutation", f"sorted tables {names} are not a permutation of the input {[t.name for t in order]}")
    pos = {nm: i for i, nm in enumerate(names)}
    remaining = set(res[-1][1])
    seen_fk = list(remaining)
    for t, fkcs in res[:-1]:
        for f in fkcs:
            seen_fk.append(f)
            if f.parent is not t:
                raise Violation("C19/tables/fk-listed-under-other-table", f"{f.name} listed under {t.name}")
            if f.referred_table is not t and pos[f.referred_table.name] > pos[t.name]:
                raise Violation("C19/tables/inline-fk-before-referred-table", f"{f.name} of {t.name} is kept inline but {f.referred_table.name} sorts later: {names}")
    allfk = [f for t in tables for f in t.foreign_key_constraints]
    if sorted(f.name for f in seen_fk) != sorted(f.name for f in allfk):
        raise Violation("C19/tables/fk-lost-or-duplicated", f"constraints delivered {sorted(f.name for f in seen_fk)} != defined {sorted(f.name for f in allfk)}")
    for f in allfk:
        if f.use_alter and f not in remaining:
            raise Violation("C19/tables/use_alter-kept-inline", f"{f.name}")
    for p_, c in fixed:
        if pos[f"t{p_}"] > pos[f"t{c}"]:
            raise Violation("C19/tables/explicit-dependency-violated", f"explicit dependency t{p_} -> t{c} not respected: {names} (fks {fks}, explicit {fixed})")
    if not all_cyclic:
        extra_removed = [f.name for f in remaining if not f.use_alter]
        if extra_removed:
            raise Violation("C19/tables/fk-removed-without-cycle", f"{extra_removed} deferred although the dependency graph is acyclic")
    # determinism + the convenience wrappers agree
    kind2, res2 = run()
    if kind2 != "ok" or [t.name for t, _ in res2[:-1]] != names:
        raise Violation("C19/tables/non-deterministic", "second call gave a different order")
    with warnings.catch_warnings():
        warnings.simplefilter("ignore")
        st_names = [t.name for t in sort_tables(list(order), extra_dependencies=extra or None)]
        if st_names != names:
            raise Violation("C19/tables/sort_tables-differs", f"sort_tables {st_names} != sort_tables_and_constraints {names}")
        if not dep_arg:
            md_names = [t.name for t in md.sorted_tables]
            mpos = {nm: i for i, nm in enumerate(md_names)}
            for p_, c in fixed:
                if mpos[f"t{p_}"] > mpos[f"t{c}"]:
                    raise Violation("C19/tables/explicit-dependency-violated", f"MetaData.sorted_tables {md_names} ignores explicit dependency t{p_} -> t{c}")


@st.composite
def _table_graphs(draw):
    n = draw(st.integers(2, 6))
    node = st.integers(0, n - 1)
    fks = draw(st.lists(st.tuples(node, node, st.sampled_from([0, 0, 0, 1])).map(list), max_size=8))
    pair = st.tuples(node, node).map(list)
    # explicit dependencies: half of the time drawn from the FK pairs themselves (the pair a cycle-breaking step touches)
    fkpairs = [[p_, c] for c, p_, _ in fks if p_ != c]
    src = st.sampled_from(fkpairs) if fkpairs and draw(st.booleans()) else pair
    dep_attr = draw(st.lists(src, max_size=3))
    dep_arg = draw(st.lists(src, max_size=2))
    return {"n": n, "fks": fks, "dep_attr": dep_attr, "dep_arg": dep_arg, "order": draw(st.permutations(list(range(n))))}


def _table_exh(tier):
    # every FK-pair subset on 3 tables x explicit dependency sets of size <= 2 (quick: size <= 1), two input orders
    import itertools

    pairs = [(a, b) for a in range(3) for b in range(3) if a != b]
    for mask in range(1 << len(pairs)):
        fks = [[c, p_, 0] for k, (c, p_) in enumerate(pairs) if mask >> k & 1]
        for r in (1, 2) if tier != "quick" else (1,):
            for deps in itertools.combinations(pairs, r):
                for how in (0, 1):
                    for order in ([0, 1, 2], [2, 1, 0]):
                        d = [list(x) for x in deps]
                        yield {"n": 3, "fks": fks, "dep_attr": d if how == 0 else [], "dep_arg": d if how == 1 else [], "order": order}


def subs(tier):
    return [
        Enumerated("exh", check_exh, cases=_exh_cases),
        Enumerated("tables_exh", check_tables, cases=_table_exh),
        Generated("random", check_random, strategy=_graphs(), quick=3000, thorough=200000),
        Generated("tables", check_tables, strategy=_table_graphs(), quick=3000, thorough=150000),
    ]
