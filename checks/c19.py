"""C19 - dependency sorting is a correct topological order; cycles exactly reported.

Oracle: reachability closure (reference).  Exhaustive over every digraph on
<=4 nodes incl. self-loops (quick) / plus every loop-free digraph on 5 nodes
(thorough); random larger graphs with items of perturbed hashes and edges that
mention nodes outside ``allitems``.
"""
from __future__ import annotations

from hypothesis import strategies as st

from vf.api import Enumerated, Generated, Violation

PROPERTY = "C19"
LEVEL = "exploration"
RULE = (
    "exh: every labelled digraph on n<=4 nodes incl. self-loops as (n, edge bitmask) [thorough: + all loop-free digraphs on 5 nodes]; "
    "random: 1-40 nodes, drawn edge list (may mention nodes outside allitems), drawn allitems order and two drawn hash assignments. "
    "Non-trivial: graph has >=1 edge among the items and is neither a DAG whose allitems order is already topological nor a single self-loop; "
    "distinct = canonical JSON of the case"
)
ASSUMPTIONS = [
    "items are hashable and compare by identity/equality consistently (the documented input domain)",
    "find_cycles is judged over the whole tuple graph (it ignores allitems by design); sort is judged over the graph induced on allitems",
]


class _N:
    __slots__ = ("i", "h")

    def __init__(self, i, h):
        self.i = i
        self.h = h

    def __hash__(self):
        return self.h

    def __repr__(self):
        return f"N{self.i}"


def _closure(nodes, edges):
    succ = {n: set() for n in nodes}
    for a, b in edges:
        if a in succ and b in succ:
            succ[a].add(b)
    reach = {}
    for s in nodes:
        seen = set()
        stack = list(succ[s])
        while stack:
            x = stack.pop()
            if x in seen:
                continue
            seen.add(x)
            stack.extend(succ[x])
        reach[s] = seen
    return reach


def _run_impl(topological, CircularDependencyError, tuples, items):
    try:
        subsets = [list(s) for s in topological.sort_as_subsets(tuples, items)]
        flat = list(topological.sort(tuples, items))
        return ("ok", subsets, flat, None)
    except CircularDependencyError as e:
        return ("cycle", None, None, e)


def _check_graph(n_items, order, edges, hashes_a, hashes_b, ctx, case):
    """order: allitems order (list of node ids); edges: list of (parent, child)
    over node ids (ids >= n_items are outsiders not in allitems)"""
    from sqlalchemy.exc import CircularDependencyError
    from sqlalchemy.util import topological

    all_ids = sorted(set(order) | {x for e in edges for x in e})
    inner = [(a, b) for a, b in edges if a in set(order) and b in set(order)]
    reach_items = _closure(order, inner)
    has_cycle = any(v in reach_items[v] for v in order)
    reach_all = _closure(all_ids, edges)
    expect_cyc_nodes = {v for v in all_ids if v in reach_all[v]}

    pos = {v: i for i, v in enumerate(order)}
    already_topo = all(pos[a] < pos[b] for a, b in inner)
    single_self_loop = len(set(inner)) == 1 and inner[0][0] == inner[0][1]
    nontrivial = bool(inner) and not (not has_cycle and already_topo) and not single_self_loop
    ctx.note(case, nontrivial, classes=["cyclic" if has_cycle else "dag", "outsiders" if len(all_ids) > len(order) else "closed"])

    results = []
    for hashes in (hashes_a, hashes_b):
        objs = {v: _N(v, hashes[v % len(hashes)] if hashes else v) for v in all_ids}
        tuples = [(objs[a], objs[b]) for a, b in edges]
        items = [objs[v] for v in order]
        kind, subsets, flat, err = _run_impl(topological, CircularDependencyError, tuples, items)
        if has_cycle:
            if kind != "cycle":
                raise Violation("C19/sort/no-error-on-cycle", f"cycle among items but sort returned {flat}", observed=str(flat), expected="CircularDependencyError")
            got = {o.i for o in err.cycles}
            if got != expect_cyc_nodes:
                raise Violation("C19/error.cycles/wrong-set", f"CircularDependencyError.cycles={sorted(got)} expected {sorted(expect_cyc_nodes)}", observed=sorted(got), expected=sorted(expect_cyc_nodes))
            results.append(("cycle",))
        else:
            if kind != "ok":
                raise Violation("C19/sort/spurious-cycle-error", f"acyclic among items but CircularDependencyError raised (cycles={err.cycles})", observed=str(err), expected="a sort order")
            ids = [o.i for o in flat]
            if sorted(ids) != sorted(order) or len(ids) != len(order):
                raise Violation("C19/sort/not-a-permutation", f"sort output {ids} is not a permutation of {order}", observed=ids, expected=sorted(order))
            p = {v: i for i, v in enumerate(ids)}
            for a, b in inner:
                if p[a] >= p[b]:
                    raise Violation("C19/sort/edge-violated", f"edge {a}->{b} violated in {ids}", observed=ids, expected=f"{a} before {b}")
            sub_ids = [[o.i for o in s] for s in subsets]
            if [x for s in sub_ids for x in s] != ids:
                raise Violation("C19/sort_as_subsets/differs-from-sort", f"{sub_ids} vs {ids}")
            done = set()
            for s in sub_ids:
                if not s:
                    raise Violation("C19/sort_as_subsets/empty-subset", f"{sub_ids}")
                for x in s:
                    for y in s:
                        if x != y and y in reach_items[x]:
                            raise Violation("C19/sort_as_subsets/not-antichain", f"{x}->{y} inside subset {s}")
                    deps = {a for a, b in inner if b == x}
                    if not deps <= done:
                        raise Violation("C19/sort_as_subsets/dependency-not-earlier", f"{x} in {s} before deps {sorted(deps - done)}")
                done.update(s)
            results.append(("ok", ids, sub_ids))
        fc = {o.i for o in topological.find_cycles(tuples, items)}
        if fc != expect_cyc_nodes:
            raise Violation("C19/find_cycles/wrong-set", f"find_cycles={sorted(fc)} expected {sorted(expect_cyc_nodes)}", observed=sorted(fc), expected=sorted(expect_cyc_nodes))
    if results[0] != results[1]:
        raise Violation("C19/sort/order-depends-on-hash", f"{results[0]} vs {results[1]} for different item hashes", observed=str(results))


# ---- exhaustive small graphs
def _exh_cases(tier):
    for n in range(0, 5):
        for mask in range(1 << (n * n)):
            yield ["full", n, mask]
    if tier == "thorough":
        n = 5
        pairs = n * (n - 1)
        for mask in range(1 << pairs):
            yield ["loopfree", n, mask]


def _decode(kind, n, mask):
    edges = []
    if kind == "full":
        for a in range(n):
            for b in range(n):
                if mask >> (a * n + b) & 1:
                    edges.append((a, b))
    else:
        k = 0
        for a in range(n):
            for b in range(n):
                if a == b:
                    continue
                if mask >> k & 1:
                    edges.append((a, b))
                k += 1
    return edges


def check_exh(case, ctx):
    kind, n, mask = case
    edges = _decode(kind, n, mask)
    order = list(range(n))
    # second hash assignment reverses hash order so set iteration order differs
    _check_graph(n, order, edges, [], [1000 - 7 * i for i in range(max(n, 1))], ctx, case)


# ---- random larger graphs
@st.composite
def _graphs(draw):
    n = draw(st.integers(1, 40))
    extra = draw(st.integers(0, 3))
    order = draw(st.permutations(list(range(n))))
    total = n + extra
    max_e = min(total * total, 4 * total)
    density = draw(st.integers(0, max_e))
    mode = draw(st.sampled_from(["any", "forward", "forward+1back"]))
    edges = []
    node = st.integers(0, total - 1)
    for _ in range(density):
        a, b = draw(node), draw(node)
        if mode != "any" and a > b:
            a, b = b, a
        if mode != "any" and a == b:
            continue
        edges.append([a, b])
    if mode == "forward+1back" and edges:
        a, b = draw(st.sampled_from(edges))
        edges.append([b, a])
    ha = draw(st.lists(st.integers(-(2**40), 2**40), min_size=total, max_size=total, unique=True))
    hb = draw(st.lists(st.integers(-(2**40), 2**40), min_size=total, max_size=total, unique=True))
    return {"n": n, "order": list(order), "edges": edges, "ha": ha, "hb": hb}


def check_random(case, ctx):
    edges = [tuple(e) for e in case["edges"]]
    _check_graph(case["n"], list(case["order"]), edges, case["ha"], case["hb"], ctx, {"n": case["n"], "order": case["order"], "edges": case["edges"]})


def subs(tier):
    return [
        Enumerated("exh", check_exh, cases=_exh_cases),
        Generated("random", check_random, strategy=_graphs(), quick=3000, thorough=200000),
    ]
