"""C10 - Result objects deliver exactly the underlying rows under any access pattern.

Programs-as-data: a row set, a result *source* (IteratorResult, ChunkedIteratorResult,
live CursorResult default / stream_results+max_row_buffer / yield_per execution option,
INSERT..RETURNING (fully buffered), FrozenResult re-materialised, MergedResult) and a
list of op records.  Every op is applied to the real Result / filtered view and to a
plain list reference model (cursor position, cumulative uniqueness set, projection,
open / exhausted / terminated / closed state).
"""
from __future__ import annotations

import warnings

from hypothesis import strategies as st

from vf.api import Enumerated, Generated, HarnessError, Violation

PROPERTY = "C10"
LEVEL = "exploration"
RULE = (
    "case = (column kinds 1-6 of int/str/json-list, pool of <=6 distinct rows, 0-40 row indexes into the pool, source spec, <=25 op records). "
    "Sources: iter | chunked(chunk sizes 1-7, dynamic_yield_per) | cursor(default) | stream(max_row_buffer 1-10) | yp_opt(yield_per option) | "
    "returning(insertmanyvalues page 1-7) | frozen(base, used twice) | merged(2-3 parts of iter/chunked/cursor/stream). Ops: fetchone, next, iter k, "
    "fetchmany(n>=1|None), all/fetchall, partitions(n|None, take k), first/one/one_or_none/scalar/scalar_one/scalar_one_or_none, view switches "
    "scalars(i|key)/mappings/rows/tuples, columns(1-5 positions WITH repetition and gaps, each given as int / string key / Column object, chained; half of the programs start with 1-2 projections), unique(strategy), yield_per(n), freeze (unconsumed only), close; the program ends with all() "
    "on the real result which must equal the undelivered remainder; sub tuplegetter_exh: every index tuple of length <=4 over width 5 (780) through engine._util_cy.tuplegetter / _is_contiguous vs operator.itemgetter. Non-trivial: >=2 different row-delivering methods returned rows before "
    "exhaustion and the program used unique, yield_per / a buffering source, or a view switch / columns; distinct = canonical JSON of the case"
)
ASSUMPTIONS = [
    "fetchmany(n) only with n>=1 or None (n<=0 is DBAPI-defined); fetchmany(None)/partitions(None) without yield_per may return any non-empty prefix (backend-defined size)",
    "after exhaustion or after a terminal method (first/one*/scalar*) only 'no row is delivered' is asserted: empty value, NoResultFound or ResourceClosedError are all accepted; after an explicit close() every fetch must raise ResourceClosedError",
    "unique() + unhashable value without strategy: TypeError is the documented outcome (program stops there); terminal methods compare rows instead of hashing, both outcomes accepted",
    "terminal methods under unique() after rows were already delivered, and Result.scalar*() under unique() on multi-column rows, are not specified: the cumulative-uniqueness answer and the implementation's raw-next-row answer are both accepted",
    "one live view at a time (a new scalars()/mappings() view is always derived from the real result; older views are dropped); a second unique() on an object that is already unique is not generated; freeze() only on an unconsumed result (documented precondition)",
    "SQLite returns INSERT..RETURNING rows in parameter order with sort_by_parameter_order=True; JSON columns carry the list values through a result processor",
    "known findings excluded by construction and pinned: MergedResult close/terminal does not close; ChunkedIteratorResult yield_per()/dynamic fetchmany() while a chunk is partially consumed drops rows; ScalarResult/MappingResult.unique() after the view fetched is ignored by memoized getters",
]

OPEN, EXHAUSTED, TERMINATED, CLOSED = "open", "exhausted", "terminated", "closed"

STRATEGIES = ["none", "repr", "col0", "const"]


def _strategy_fn(name):
    if name == "none":
        return None
    if name == "repr":
        return lambda row: repr(tuple(row))
    if name == "col0":
        return lambda row: repr(row[0])
    if name == "const":
        return lambda row: 0
    raise HarnessError(name)


def _model_key(name, p):
    if name == "none":
        return tuple(p)
    if name == "repr":
        return repr(tuple(p))
    if name == "col0":
        return repr(p[0])
    if name == "const":
        return 0
    raise HarnessError(name)


class _ModelTypeError(Exception):
    pass


class _Uniq:
    __slots__ = ("seen", "strategy")

    def __init__(self, strategy):
        self.seen = set()
        self.strategy = strategy


class _View:
    __slots__ = ("kind", "proj", "uniq", "fetched")

    def __init__(self, kind, proj, uniq):
        self.kind = kind  # rows | scalars | mappings
        self.proj = list(proj)
        self.uniq = uniq
        self.fetched = False


class _Model:
    def __init__(self, rows, keys):
        self.rows = [tuple(r) for r in rows]
        self.keys = list(keys)
        self.pos = 0
        self.state = OPEN
        self.yield_per = None
        self.uncertain = None
        self.R = _View("rows", range(len(keys)), None)
        self.cur = self.R

    # ---- helpers
    def project(self, raw, view):
        return tuple(raw[i] for i in view.proj)

    def fmt(self, view, p):
        if view.kind == "rows":
            return ("row", tuple(p), tuple(self.keys[i] for i in view.proj))
        if view.kind == "scalars":
            return ("scalar", p[0])
        return ("map", dict(zip([self.keys[i] for i in view.proj], p)), tuple(self.keys[i] for i in view.proj))

    def _key(self, view, p):
        u = view.uniq
        if u.strategy == "none":
            if any(isinstance(v, list) for v in p):
                raise _ModelTypeError()
        return _model_key(u.strategy, p)

    def deliver(self, view, n):
        """up to n (None = all) formatted outputs; sets EXHAUSTED when the end was hit"""
        out = []
        if self.state != OPEN:
            return out
        while n is None or len(out) < n:
            if self.pos >= len(self.rows):
                self.state = EXHAUSTED
                break
            raw = self.rows[self.pos]
            self.pos += 1
            p = self.project(raw, view)
            if view.uniq is not None:
                k = self._key(view, p)
                if k in view.uniq.seen:
                    continue
                view.uniq.seen.add(k)
            out.append(self.fmt(view, p))
        return out

    def peek_remaining(self, view):
        """outputs that deliver(view, None) would give, without changing state"""
        if self.state != OPEN:
            return []
        seen = set(view.uniq.seen) if view.uniq is not None else None
        out = []
        for raw in self.rows[self.pos:]:
            p = self.project(raw, view)
            if seen is not None:
                k = self._key(view, p)
                if k in seen:
                    continue
                seen.add(k)
            out.append(self.fmt(view, p))
        return out

    def only_one(self, view, op):
        """accepted outcomes of a terminal method, canonical first"""
        second = op in ("one", "one_or_none", "scalar_one", "scalar_one_or_none")
        none_raises = op in ("one", "scalar_one")
        scalar = op in ("scalar", "scalar_one", "scalar_one_or_none")

        def shape(p):
            if scalar:
                return ("scalar", p[0])
            return self.fmt(view, p)

        def finish(cands):
            # cands: distinct candidate rows in order (projected tuples)
            if not cands:
                return ("exc", "NoResultFound") if none_raises else ("ret", None)
            if second and len(cands) > 1:
                return ("exc", "MultipleResultsFound")
            return ("ret", shape(cands[0]))

        rest = [self.project(r, view) for r in self.rows[self.pos:]] if self.state == OPEN else []
        accepted = []
        if view.uniq is None:
            accepted.append(finish(rest[:2]))
        else:
            strat = view.uniq.strategy
            hashable = not (strat == "none" and any(isinstance(v, list) for p in rest for v in p))

            def keyf(p):
                return _model_key(strat, p) if (strat != "none" or hashable) else repr(p)

            # (a) cumulative: rows whose key was not seen before, de-duplicated
            seen = set(view.uniq.seen) if hashable or strat != "none" else set()
            cands = []
            for p in rest:
                k = keyf(p)
                if k in seen:
                    continue
                seen.add(k)
                cands.append(p)
                if len(cands) > 1:
                    break
            accepted.append(finish(cands))
            # (b) implementation style: next raw row, de-duplicated against itself only
            cands = []
            for p in rest:
                if cands and keyf(p) == keyf(cands[0]):
                    continue
                cands.append(p)
                if len(cands) > 1:
                    break
            b = finish(cands)
            if b not in accepted:
                accepted.append(b)
            if scalar and len(view.proj) > 1:
                # documented as scalars().one(): uniqueness over the first column only
                cands = []
                sseen = set()
                for p in rest:
                    k = repr(p[0])
                    if k in sseen:
                        continue
                    sseen.add(k)
                    cands.append(p)
                    if len(cands) > 1:
                        break
                c = finish(cands)
                if c not in accepted:
                    accepted.append(c)
            if not hashable:
                accepted.append(("exc", "TypeError"))
        return accepted


# ---------------------------------------------------------------- sources
class _Env:
    def __init__(self, case, ctx):
        self.case = case
        self.ctx = ctx
        self.cleanups = []
        self.engine = None
        self.conn = None
        self.table = None
        self.chunk_trackers = []  # dicts {"emitted": n, "base": offset}
        self.kind = case["source"]["kind"]
        self.is_merged = self.kind == "merged"
        self.frozen = None

    def db(self):
        if self.engine is None:
            from sqlalchemy import JSON, Column, Integer, MetaData, String, Table, insert
            from vf.sautil import mem_engine

            self.engine = mem_engine()
            md = MetaData()
            cols = [Column("id", Integer, primary_key=True)]
            for i, k in enumerate(self.case["kinds"]):
                cols.append(Column(f"c{i}", {"i": Integer, "s": String, "j": JSON}[k]))
            self.table = Table("t", md, *cols)
            self.conn = self.engine.connect()
            md.create_all(self.conn)
            rows = _rows_of(self.case)
            if rows and self.kind != "returning":
                self.conn.execute(insert(self.table), [dict(id=n + 1, **{f"c{i}": v for i, v in enumerate(r)}) for n, r in enumerate(rows)])
            self.cleanups.append(self.conn.close)
            self.cleanups.append(self.engine.dispose)
        return self.conn

    def close(self):
        for fn in self.cleanups:
            fn()


def _rows_of(case):
    pool = case["pool"]
    return [tuple(pool[i % len(pool)]) for i in case["rows"]] if pool else []


def _build(env, spec, rows, lo):
    """real Result delivering rows[lo:lo+len(rows)] (ids lo+1..)"""
    from sqlalchemy import insert, select
    from sqlalchemy.engine.result import ChunkedIteratorResult, IteratorResult, SimpleResultMetaData

    keys = [f"c{i}" for i in range(len(env.case["kinds"]))]
    kind = spec["kind"]
    if kind == "iter":
        return IteratorResult(SimpleResultMetaData(keys), iter(list(rows)))
    if kind == "chunked":
        data = list(rows)
        tr = {"emitted": 0, "base": lo}
        env.chunk_trackers.append(tr)
        sizes = spec["sizes"]

        def chunks(size):
            i = 0
            while tr["emitted"] < len(data):
                if size:
                    n = size
                else:
                    n = sizes[i % len(sizes)]
                    i += 1
                chunk = data[tr["emitted"]: tr["emitted"] + n]
                tr["emitted"] += len(chunk)
                yield chunk

        return ChunkedIteratorResult(SimpleResultMetaData(keys), chunks, dynamic_yield_per=bool(spec.get("dyn")))
    if kind in ("cursor", "stream", "yp_opt"):
        conn = env.db()
        t = env.table
        stmt = select(*[t.c[k] for k in keys]).where(t.c.id > lo, t.c.id <= lo + len(rows)).order_by(t.c.id)
        opts = {}
        if kind == "stream":
            opts = {"stream_results": True, "max_row_buffer": spec["mrb"]}
        elif kind == "yp_opt":
            opts = {"yield_per": spec["mrb"]}
        return conn.execute(stmt, execution_options=opts)
    if kind == "returning":
        conn = env.db()
        t = env.table
        if not rows:
            # an INSERT needs >=1 parameter set; an empty row set is produced by a SELECT instead
            return conn.execute(select(*[t.c[k] for k in keys]).where(t.c.id < 0))
        stmt = insert(t).returning(*[t.c[k] for k in keys], sort_by_parameter_order=True)
        return conn.execute(
            stmt,
            [dict(id=n + 1, **{f"c{i}": v for i, v in enumerate(r)}) for n, r in enumerate(rows)],
            execution_options={"insertmanyvalues_page_size": spec["page"]},
        )
    if kind == "frozen":
        base = _build(env, spec["base"], rows, lo)
        env.frozen = base.freeze()
        return env.frozen()
    if kind == "merged":
        cuts = sorted(c % (len(rows) + 1) for c in spec["cuts"])
        bounds = [0] + cuts + [len(rows)]
        parts = []
        for i, ps in enumerate(spec["parts"]):
            a, b = bounds[i], bounds[i + 1]
            parts.append(_build(env, ps, rows[a:b], lo + a))
        return parts[0].merge(*parts[1:])
    raise HarnessError(kind)


# ---------------------------------------------------------------- real-side execution
_EXC = ("NoResultFound", "MultipleResultsFound", "ResourceClosedError", "StopIteration")


def _norm(view_kind, x):
    from sqlalchemy.engine.row import Row, RowMapping

    if view_kind == "rows":
        if not isinstance(x, Row):
            raise Violation("C10/type/row-expected", f"expected a Row, got {type(x).__name__}: {x!r}")
        return ("row", tuple(x), tuple(x._fields))
    if view_kind == "mappings":
        if not isinstance(x, RowMapping):
            raise Violation("C10/type/rowmapping-expected", f"expected a RowMapping, got {type(x).__name__}: {x!r}")
        return ("map", dict(x), tuple(x.keys()))
    return ("scalar", x)


def _call(fn, allow_typeerror):
    from sqlalchemy import exc

    try:
        return ("ret", fn())
    except exc.NoResultFound:
        return ("exc", "NoResultFound")
    except exc.MultipleResultsFound:
        return ("exc", "MultipleResultsFound")
    except exc.ResourceClosedError:
        return ("exc", "ResourceClosedError")
    except TypeError as e:
        if allow_typeerror and "unhashable" in str(e):
            return ("exc", "TypeError")
        raise


class _Stop(Exception):
    """end interpretation of this program (state not defined any further)"""


FETCH_OPS = ("fetchone", "next", "iter", "fetchmany", "all", "fetchall", "partitions")
TERMINALS = ("first", "one", "one_or_none", "scalar", "scalar_one", "scalar_one_or_none")


def check_prog(case, ctx):
    with warnings.catch_warnings():
        warnings.simplefilter("ignore")
        env = _Env(case, ctx)
        classes = set()
        info = {"methods": set(), "feature": False}
        try:
            _run(case, ctx, env, classes, info)
        except _Stop:
            pass
        except Violation:
            ctx.note(case, True, classes=classes)
            raise
        finally:
            env.close()
        nontrivial = len(info["methods"]) >= 2 and info["feature"]
        classes.add("delivering-methods:%d" % min(len(info["methods"]), 4))
        if not info["feature"]:
            classes.add("no-feature")
        ctx.note(case, nontrivial, classes=classes)


def _sig(env, what):
    return f"C10/{what}"


def _run(case, ctx, env, classes, info):
    rows = _rows_of(case)
    keys = [f"c{i}" for i in range(len(case["kinds"]))]
    src = case["source"]
    pinned = bool(case.get("pinned"))
    m = _Model(rows, keys)
    R = _build(env, src, rows, 0)
    cur = R
    classes.add("src:" + src["kind"])
    if src["kind"] in ("frozen",):
        classes.add("src:frozen/" + src["base"]["kind"])
    if src["kind"] == "merged":
        for p in src["parts"]:
            classes.add("src:merged/" + p["kind"])
    if src["kind"] in ("stream", "yp_opt", "chunked", "returning", "merged", "frozen"):
        info["feature"] = True
    if src["kind"] == "yp_opt":
        m.yield_per = src["mrb"]
    chunked_live = src["kind"] == "chunked"
    dyn = chunked_live and bool(src.get("dyn"))
    merged_live = src["kind"] == "merged"
    explicit_closed = False

    def held_rows():
        # rows handed out by the chunks() callables but not yet consumed by the result
        if not env.chunk_trackers:
            return 0
        emitted = sum(t["emitted"] for t in env.chunk_trackers)
        return emitted - m.pos

    def any_chunked():
        return chunked_live or (merged_live and any(p["kind"] == "chunked" for p in src["parts"]))

    hazard = {}

    def vio(what, msg, observed=None, expected=None):
        sig = _sig(env, what)
        # pinned replays of known findings execute the excluded op; classify by that root cause
        if hazard.get("chunk") and what.split("/")[-1] in ("content", "rows-missing", "rows-extra", "default-size-content"):
            sig = "C10/chunked/iterator-replaced-drops-held-chunk"
        elif hazard.get("late_unique") and what.split("/")[-1] in ("content", "rows-missing", "rows-extra", "default-size-content"):
            sig = "C10/filter-view/late-unique-ignored"
        return Violation(sig, f"[{src['kind']}] {msg}", observed=observed, expected=expected)

    def after_close_rows(step, op, got):
        if merged_live:
            return Violation("C10/merged/close-does-not-close", f"step {step} {op}: MergedResult delivered {got!r} after close()/terminal method", observed=repr(got))
        return vio(f"{op}/rows-after-close", f"step {step} {op}: delivered {got!r} after the result was closed", observed=repr(got))

    def expect_no_rows(step, op, res, empty_excs):
        """state is EXHAUSTED / TERMINATED / CLOSED: nothing may be delivered"""
        kind, val = res
        if kind == "exc":
            if val == "ResourceClosedError":
                return
            if m.state == CLOSED:
                raise vio(f"{op}/closed-wrong-exception", f"step {step} {op} after close(): raised {val}, ResourceClosedError expected", observed=val)
            if val in empty_excs:
                return
            raise vio(f"{op}/exhausted-wrong-exception", f"step {step} {op} on {m.state} result raised {val}", observed=val, expected=list(empty_excs))
        empty = val is None or val is _NOROW or (isinstance(val, list) and not val)
        if not empty:
            raise after_close_rows(step, op, val)
        if m.state == CLOSED:
            if merged_live:
                raise Violation("C10/merged/close-does-not-close", f"step {step} {op}: MergedResult returned {val!r} after close() instead of raising ResourceClosedError", observed=repr(val))
            raise vio(f"{op}/closed-no-raise", f"step {step} {op} after close() returned {val!r} instead of raising ResourceClosedError", observed=repr(val), expected="ResourceClosedError")

    for step, opd in enumerate(case["ops"]):
        op = opd[0]
        view = m.cur
        # ------------------------------------------------------------ view / configuration ops
        if op == "rows":
            m.cur = m.R
            cur = R
            classes.add("op:rows")
            continue
        if op == "tuples":
            if m.cur is m.R:
                if cur.tuples() is not R:
                    raise vio("tuples/identity", f"step {step}: tuples() did not return the same result object")
                classes.add("op:tuples")
            continue
        if op == "scalars":
            i = opd[1] % len(m.R.proj)
            key = m.keys[m.R.proj[i]] if opd[2] else i
            cur = R.scalars(key)
            m.cur = _View("scalars", [m.R.proj[i]], m.R.uniq)
            classes.add("op:scalars")
            info["feature"] = True
            continue
        if op == "mappings":
            cur = R.mappings()
            m.cur = _View("mappings", m.R.proj, m.R.uniq)
            classes.add("op:mappings")
            info["feature"] = True
            continue
        if op == "columns":
            if view.kind == "scalars":
                continue
            n = len(view.proj)
            # projection = arbitrary sequence of positions WITH repetition and gaps; each element is given as an int,
            # a string key or (cursor metadata only) the Column object.  Old format: ([idx..], bykey) without repetition.
            if opd[1] and isinstance(opd[1][0], list):
                spec = [(j % n, mode) for j, mode in opd[1]]
            else:
                spec = []
                for j in opd[1]:
                    if (j % n, 1 if opd[2] else 0) not in spec:
                        spec.append((j % n, 1 if opd[2] else 0))
            idx = [j for j, _ in spec]
            args = []
            for j, mode in spec:
                kname = m.keys[view.proj[j]]
                if mode == 2 and env.table is not None and kname in env.table.c and cur._metadata._has_key(env.table.c[kname]):
                    args.append(env.table.c[kname])
                    classes.add("projection-by-column-object")
                elif mode >= 1:
                    args.append(kname)
                else:
                    args.append(j)
            r2 = cur.columns(*args)
            if r2 is not cur:
                raise vio("columns/identity", f"step {step}: columns() returned a different object")
            if len(set(idx)) < len(idx):
                classes.add("projection-repeats-index")
                if max(idx) - min(idx) + 1 > len(set(idx)):
                    classes.add("projection-repeat+gap")
                if all(a <= b for a, b in zip(idx, idx[1:])) and idx[-1] - idx[0] == len(idx) - 1:
                    classes.add("projection-nondecreasing-span-equals-length")
            elif idx != list(range(idx[0], idx[0] + len(idx))):
                classes.add("projection-gap-or-reorder")
            if view.proj != list(range(len(m.keys))):
                classes.add("projection-chained")
            view.proj = [view.proj[j] for j in idx]
            classes.add("op:columns" + ("-late" if view.fetched else ""))
            info["feature"] = True
            continue
        if op == "unique":
            if view.uniq is not None and (view is m.R or view.fetched or view.uniq is not m.R.uniq):
                continue  # second unique() on an object that is already unique: not generated
            # (late unique() on a filter view was repaired in /repo by fix: b7206f9 - generated again)
            if view is not m.R and view.fetched:
                hazard["late_unique"] = True
            r2 = cur.unique(_strategy_fn(opd[1]))
            if r2 is not cur:
                raise vio("unique/identity", f"step {step}: unique() returned a different object")
            view.uniq = _Uniq(opd[1])
            classes.add("op:unique/" + opd[1] + ("-late" if view.fetched else ""))
            info["feature"] = True
            continue
        if op == "yield_per":
            if any_chunked() and held_rows() > 0 and not pinned:
                ctx.exclude("ChunkedIteratorResult.yield_per() while a chunk is partially consumed (known finding: rest of chunk dropped)")
                continue
            if merged_live and m.pos > 0 and any_chunked():
                continue
            if any_chunked() and held_rows() > 0:
                hazard["chunk"] = True
            r2 = cur.yield_per(opd[1])
            if r2 is not cur:
                raise vio("yield_per/identity", f"step {step}: yield_per() returned a different object")
            m.yield_per = opd[1]
            classes.add("op:yield_per" + ("-late" if m.pos else ""))
            info["feature"] = True
            continue
        if op == "freeze":
            if not (view is m.R and m.pos == 0 and m.state == OPEN and m.R.uniq is None and not merged_live):
                continue
            fr = R.freeze()
            newrows = [m.project(r, m.R) for r in m.rows]
            newkeys = [m.keys[i] for i in m.R.proj]
            m = _Model(newrows, newkeys)
            R = cur = fr()
            env.frozen = fr
            env.chunk_trackers = []
            chunked_live = dyn = False
            classes.add("op:freeze")
            info["feature"] = True
            continue
        if op == "close":
            # (MergedResult.close() was repaired in /repo by fix: 18bb615 - generated again)
            cur.close()
            m.state = CLOSED
            explicit_closed = True
            classes.add("op:close")
            if R.closed is not True:
                raise vio("close/closed-flag", f"step {step}: .closed is {R.closed!r} after close()")
            continue

        # ------------------------------------------------------------ fetch ops
        if op == "fetchone" and view.kind == "scalars":
            op = "next"  # ScalarResult has no fetchone()
        if op in ("scalar", "scalar_one", "scalar_one_or_none") and view is not m.R:
            op = {"scalar": "first", "scalar_one": "one", "scalar_one_or_none": "one_or_none"}[op]
        if dyn and op in ("fetchmany", "partitions") and held_rows() > 0 and not pinned:
            ctx.exclude("ChunkedIteratorResult(dynamic_yield_per) fetchmany() while a chunk is partially consumed (known finding: rest of chunk dropped)")
            continue
        if dyn and op in ("fetchmany", "partitions") and held_rows() > 0:
            hazard["chunk"] = True
        if m.uncertain is not None:
            if op in TERMINALS or view.uniq is not m.uncertain[0] or view.proj != m.uncertain[1]:
                classes.add("stop:position-backend-defined")
                raise _Stop()
        allow_te = view.uniq is not None and view.uniq.strategy == "none" and any(isinstance(r[i], list) for r in m.rows for i in view.proj)
        was_state = m.state
        view.fetched = True
        classes.add("op:" + op)
        classes.add("state:" + was_state)
        vk = view.kind

        def fmtlist(xs):
            return [_norm(vk, x) for x in xs]

        if op in TERMINALS:
            # a None scalar value is indistinguishable from "no row" for methods that return None on no row
            accepted = [("ret", None) if a == ("ret", ("scalar", None)) else a for a in m.only_one(view, op)]
            res = _call(getattr(cur, op), allow_te)
            if was_state != OPEN:
                expect_no_rows(step, op, res, ("NoResultFound",))
            else:
                if res[0] == "ret" and res[1] is not None:
                    if op.startswith("scalar"):
                        res = ("ret", ("scalar", res[1]))
                    else:
                        res = ("ret", _norm(vk, res[1]))
                if res not in accepted:
                    if len(accepted) > 1:
                        classes.add("terminal-ambiguous")
                    raise vio(f"{op}/value", f"step {step} {op}(): got {res!r}, model accepts {accepted!r} (pos {m.pos} of {len(m.rows)})", observed=repr(res), expected=repr(accepted))
                if len(accepted) > 1:
                    classes.add("terminal-ambiguous")
                if res[0] == "ret" and res[1] is not None:
                    info["methods"].add(op)
                m.state = TERMINATED
            continue

        if was_state != OPEN:
            if op == "fetchone":
                res = _call(cur.fetchone, allow_te)
            elif op == "next":
                res = _call(lambda: next(cur, _NOROW), allow_te)
            elif op == "iter":
                res = _call(lambda: list(cur), allow_te)
            elif op == "fetchmany":
                res = _call(lambda: list(cur.fetchmany(opd[1])), allow_te)
            elif op in ("all", "fetchall"):
                res = _call(lambda: list(getattr(cur, op)()), allow_te)
            elif op == "partitions":
                res = _call(lambda: list(cur.partitions(opd[1])), allow_te)
            else:
                raise HarnessError(op)
            expect_no_rows(step, op, res, ())
            continue

        if allow_te and m.pos < len(m.rows):
            # unique() without strategy hashes the next row, which holds a list: TypeError is the documented outcome
            classes.add("unique-unhashable-typeerror")
            fn = {
                "fetchone": lambda: cur.fetchone(),
                "next": lambda: _next(cur),
                "iter": lambda: [_next(iter(cur))],
                "fetchmany": lambda: cur.fetchmany(opd[1]),
                "all": lambda: cur.all(),
                "fetchall": lambda: cur.fetchall(),
                "partitions": lambda: next(cur.partitions(opd[1]), _NOROW),
            }[op]
            res = _call(fn, True)
            if res != ("exc", "TypeError"):
                raise vio("unique/unhashable-no-typeerror", f"step {step} {op}: unique() without strategy over a list value gave {res!r}, TypeError expected", observed=repr(res), expected="TypeError")
            raise _Stop()
        if op in ("fetchone", "next"):
            exp = m.deliver(view, 1)
            if op == "fetchone":
                res = _call(cur.fetchone, allow_te)
                norow = res[0] == "ret" and res[1] is None
            else:
                res = _call(lambda: _next(cur), allow_te)
                norow = res[0] == "ret" and res[1] is _NOROW
            got = res if res[0] != "ret" else ([] if norow else fmtlist([res[1]]))
            _cmp(vio, step, op, got, exp, m)
        elif op == "iter":
            k = opd[1]
            exp = m.deliver(view, k)

            def take():
                it = iter(cur)
                out = []
                for _ in range(k):
                    x = next(it, _NOROW)
                    if x is _NOROW:
                        break
                    out.append(x)
                return out

            res = _call(take, allow_te)
            got = fmtlist(res[1]) if res[0] == "ret" else res
            _cmp(vio, step, op, got, exp, m)
        elif op == "fetchmany":
            n = opd[1] if opd[1] is not None else m.yield_per
            if n is None:
                rest = m.peek_remaining(view)
                res = _call(lambda: list(cur.fetchmany()), allow_te)
                got = fmtlist(res[1]) if res[0] == "ret" else res
                _prefix(vio, step, op, got, rest, m, view)
                classes.add("fetchmany-default-size")
            else:
                exp = m.deliver(view, n)
                res = _call(lambda: list(cur.fetchmany(opd[1])), allow_te)
                got = fmtlist(res[1]) if res[0] == "ret" else res
                _cmp(vio, step, op, got, exp, m)
        elif op in ("all", "fetchall"):
            exp = m.deliver(view, None)
            res = _call(lambda: list(getattr(cur, op)()), allow_te)
            got = fmtlist(res[1]) if res[0] == "ret" else res
            _cmp(vio, step, op, got, exp, m)
        elif op == "partitions":
            n = opd[1] if opd[1] is not None else m.yield_per
            take_k = opd[2]

            def parts():
                g = cur.partitions(opd[1])
                out = []
                for _ in range(take_k):
                    x = next(g, _NOROW)
                    if x is _NOROW:
                        break
                    out.append(list(x))
                return out

            res = _call(parts, allow_te)
            if res[0] != "ret":
                raise vio(f"{op}/exception", f"step {step} partitions({opd[1]}): raised {res[1]}", observed=res[1])
            gotparts = [fmtlist(p) for p in res[1]]
            got = [x for p in gotparts for x in p]
            if any(len(p) == 0 for p in gotparts):
                raise vio("partitions/empty-partition", f"step {step}: partitions() yielded an empty list", observed=repr(gotparts))
            if n is None:
                flat = [x for p in gotparts for x in p]
                rest = m.peek_remaining(view)
                if len(gotparts) < take_k:
                    # generator ended: everything must have been delivered
                    if flat != rest:
                        raise vio("partitions/content", f"step {step} partitions(None): {flat!r} != remaining {rest!r}", observed=repr(flat), expected=repr(rest))
                    m.deliver(view, None)
                else:
                    _prefix(vio, step, op, flat, rest, m, view)
                classes.add("fetchmany-default-size")
            else:
                for pi in range(take_k):
                    exp = m.deliver(view, n)
                    gp = gotparts[pi] if pi < len(gotparts) else []
                    _cmp(vio, step, f"partitions[{pi}]", gp, exp, m)
                    if not exp:
                        break
                if len(gotparts) > pi + 1:
                    raise vio("partitions/extra", f"step {step}: more partitions than the model", observed=repr(gotparts))
        else:
            raise HarnessError(op)
        if res[0] == "ret" and got and not isinstance(got, tuple):
            info["methods"].add("fetchall" if op == "all" else op)
        if m.state == EXHAUSTED and was_state == OPEN:
            classes.add("exhausted-by:" + op)

        if not explicit_closed and m.state in (OPEN, EXHAUSTED) and not merged_live:
            if R.closed is not False:
                raise vio("closed-flag/true-without-close", f"step {step} {op}: .closed is {R.closed!r} although close() was never called and no terminal method ran")

    # ------------------------------------------------------------ a FrozenResult can be invoked again and delivers every row again
    if env.frozen is not None:
        again = [_norm("rows", x) for x in env.frozen().all()]
        expf = [("row", tuple(r), tuple(m.keys)) for r in m.rows]
        if again != expf:
            raise vio("frozen/second-materialisation", f"FrozenResult()() second invocation delivered {again!r}, expected {expf!r}", observed=repr(again), expected=repr(expf))
        classes.add("frozen-second-use")

    # ------------------------------------------------------------ final: the undelivered remainder
    if m.uncertain is not None and (m.R.uniq is not m.uncertain[0] or m.R.proj != m.uncertain[1]):
        return
    if m.state in (OPEN, EXHAUSTED):
        if m.R.uniq is not None and m.R.uniq.strategy == "none" and m.pos < len(m.rows) and any(isinstance(r[i], list) for r in m.rows for i in m.R.proj):
            return  # would be the documented TypeError; already exercised by the op path
        exp = m.deliver(m.R, None) if m.state == OPEN else []
        allow_te = False
        res = _call(lambda: list(R.all()), allow_te)
        if m.state == EXHAUSTED and res == ("exc", "ResourceClosedError") and not exp:
            return
        got = [_norm("rows", x) for x in res[1]] if res[0] == "ret" else res
        _cmp(vio, "final", "all", got, exp, m)
        if exp:
            info["methods"].add("fetchall")


class _NoRowT:
    def __repr__(self):
        return "<no row>"


_NOROW = _NoRowT()


def _next(cur):
    return next(cur, _NOROW)


def _cmp(vio, step, op, got, exp, m):
    if isinstance(got, tuple) and got and got[0] == "exc":
        if not exp and m.state in (EXHAUSTED,) and got[1] == "ResourceClosedError":
            return
        raise vio(f"{op.split('[')[0]}/exception", f"step {step} {op}: raised {got[1]}, model expects {exp!r}", observed=got[1], expected=repr(exp))
    if got != exp:
        what = "content"
        if len(got) == len(exp):
            if [g[1] for g in got] == [e[1] for e in exp]:
                what = "keys"
        elif [g for g in got] == exp[: len(got)]:
            what = "rows-missing"
        elif got[: len(exp)] == exp:
            what = "rows-extra"
        raise vio(f"{op.split('[')[0]}/{what}", f"step {step} {op}: got {got!r}, model {exp!r} (model pos {m.pos}/{len(m.rows)})", observed=repr(got), expected=repr(exp))


def _prefix(vio, step, op, got, rest, m, view):
    """backend-defined batch size: any non-empty prefix of the remaining outputs"""
    if isinstance(got, tuple) and got and got[0] == "exc":
        raise vio(f"{op}/exception", f"step {step} {op}(None): raised {got[1]}", observed=got[1])
    if got != rest[: len(got)] or (rest and not got):
        raise vio(f"{op}/default-size-content", f"step {step} {op}(None): got {got!r}, remaining {rest!r}", observed=repr(got), expected=repr(rest))
    m.deliver(view, len(got)) if got else m.deliver(view, 1)
    if view.uniq is not None and m.state == OPEN and m.pos < len(m.rows) and not m.peek_remaining(view):
        # only already-seen duplicates remain: whether the batch consumed them is backend-defined.
        # Reads through the same uniqueness state deliver nothing either way; anything else stops the program.
        m.uncertain = (view.uniq, list(view.proj))


# ---------------------------------------------------------------- generator
_INT = st.sampled_from([0, 1, 2, None])
_STR = st.sampled_from(["a", "b", None])
_JS = st.sampled_from([[0], [1], [0, 1]])


def _simple_source(draw, fam="any"):
    kinds = (["iter", "chunked", "chunked"] if fam in ("any", "mem") else []) + (["cursor", "stream", "stream"] if fam in ("any", "cursor") else [])
    k = draw(st.sampled_from(kinds))
    if k == "chunked":
        return {"kind": k, "sizes": draw(st.lists(st.integers(1, 7), min_size=1, max_size=3)), "dyn": draw(st.booleans())}
    if k == "stream":
        return {"kind": k, "mrb": draw(st.integers(1, 10))}
    return {"kind": k}


def _fetch_op(draw, small=False):
    op = draw(st.sampled_from(["fetchone", "next", "iter", "fetchmany", "fetchmany", "fetchmany", "partitions", "partitions", "all", "fetchall"]))
    if op == "iter":
        return [op, draw(st.integers(1, 4))]
    if op == "fetchmany":
        return [op, draw(st.sampled_from([None, 1, 1, 2, 2, 3, 4, 5, 8]))]
    if op == "partitions":
        return [op, draw(st.sampled_from([None, 1, 1, 2, 2, 3, 3, 5])), draw(st.integers(1, 3))]
    if op in ("all", "fetchall") and not small and draw(st.integers(0, 3)) > 0:
        return ["fetchmany", draw(st.integers(1, 4))]  # keep full drains rarer
    return [op]


def _columns_op(draw):
    """positions with repetition and gaps (length 1-5); element modes 0 int / 1 string key / 2 Column object"""
    how = draw(st.sampled_from(["any", "any", "sorted", "dupgap"]))
    if how == "dupgap":
        # a contiguous run in which one element is replaced by its neighbour: repeat + compensating gap, e.g. (0,0,2), (0,2,2), (0,1,1,3)
        ln = draw(st.integers(3, 5))
        start = draw(st.integers(0, 3))
        run = list(range(start, start + ln))
        p = draw(st.integers(0, ln - 2))
        if draw(st.booleans()) and p + 1 < ln - 1:
            run[p + 1] = run[p]
        elif p > 0:
            run[p] = run[p + 1]
        else:
            run[1] = run[0]
        idx = run
    else:
        idx = draw(st.lists(st.integers(0, 5), min_size=1, max_size=5))
        if how == "sorted":
            idx = sorted(idx)
    mode = draw(st.sampled_from(["int", "int", "str", "obj", "mixed"]))
    modes = [({"int": 0, "str": 1, "obj": 2}[mode] if mode != "mixed" else draw(st.integers(0, 2))) for _ in idx]
    return ["columns", [[j, mm] for j, mm in zip(idx, modes)]]


@st.composite
def _programs(draw):
    ncols = draw(st.sampled_from([1, 2, 3, 3, 4, 4, 5, 6]))
    kinds = [draw(st.sampled_from(["i", "i", "s", "j"])) for _ in range(ncols)]
    if draw(st.integers(0, 2)) > 1:
        kinds = [("i" if k == "j" else k) for k in kinds]  # some cases fully hashable by construction
    valst = {"i": _INT, "s": _STR, "j": _JS}
    pool = draw(st.lists(st.tuples(*[valst[k] for k in kinds]).map(list), min_size=1, max_size=6))
    nrows = draw(st.sampled_from([40, 30, 25, 20, 16, 12, 10, 8, 6, 5, 4, 3, 2, 1, 0, 35, 28, 18, 14, 9]))
    rows = draw(st.lists(st.integers(0, 5), min_size=nrows, max_size=nrows))
    sk = draw(st.sampled_from(["stream", "merged", "chunked", "cursor", "yp_opt", "returning", "frozen", "iter", "merged", "stream"]))
    if sk in ("iter", "cursor"):
        source = {"kind": sk}
    elif sk == "chunked":
        source = {"kind": sk, "sizes": draw(st.lists(st.integers(1, 7), min_size=1, max_size=3)), "dyn": draw(st.booleans())}
    elif sk in ("stream", "yp_opt"):
        source = {"kind": sk, "mrb": draw(st.integers(1, 10))}
    elif sk == "returning":
        source = {"kind": sk, "page": draw(st.integers(1, 7))}
    elif sk == "frozen":
        source = {"kind": sk, "base": _simple_source(draw)}
    else:
        n = draw(st.integers(2, 3))
        fam = draw(st.sampled_from(["mem", "cursor"]))  # merge() requires identical metadata: one family per merged result
        source = {"kind": sk, "parts": [_simple_source(draw, fam) for _ in range(n)], "cuts": [draw(st.integers(0, 40)) for _ in range(n - 1)]}
    ops = []
    # half of the programs start with one or two (chained) projections so that every access pattern runs over one
    for _ in range(draw(st.sampled_from([0, 0, 1, 1, 2]))):
        ops.append(_columns_op(draw))
    nops = draw(st.integers(5, 21))
    groups = ["fetch"] * 9 + ["view"] * 3 + ["config"] * 5 + ["freeze"]
    for i in range(nops):
        g = draw(st.sampled_from(groups))
        if g == "fetch":
            ops.append(_fetch_op(draw))
        elif g == "view":
            op = draw(st.sampled_from(["scalars", "mappings", "rows", "tuples"]))
            if op == "scalars":
                ops.append([op, draw(st.integers(0, 5)), draw(st.booleans())])
            else:
                ops.append([op])
        elif g == "config":
            op = draw(st.sampled_from(["unique", "unique", "yield_per", "columns"]))
            if op == "unique":
                ops.append([op, draw(st.sampled_from(["none", "none", "none", "repr", "repr", "col0", "col0", "const"]))])
            elif op == "yield_per":
                ops.append([op, draw(st.integers(1, 6))])
            else:
                ops.append(_columns_op(draw))
        else:
            ops.append(["freeze"])
    # tail: a terminal method or close(), then a few more fetches on the closed / terminated result
    tail = draw(st.sampled_from(["none", "terminal", "terminal", "close"]))
    if tail != "none":
        ops.append([draw(st.sampled_from(TERMINALS))] if tail == "terminal" else ["close"])
        for _ in range(draw(st.integers(0, 3))):
            if draw(st.integers(0, 3)) == 0:
                ops.append([draw(st.sampled_from(TERMINALS))])
            else:
                ops.append(_fetch_op(draw, small=True))
    return {"kinds": kinds, "pool": pool, "rows": rows, "source": source, "ops": ops}


# ---------------------------------------------------------------- tuplegetter (projection primitive) vs operator.itemgetter
def _tg_cases(tier):
    import itertools

    for ln in (1, 2, 3, 4):
        for idx in itertools.product(range(5), repeat=ln):
            yield list(idx)


def check_tuplegetter(case, ctx):
    import operator

    from sqlalchemy.engine import _util_cy

    idx = tuple(case)
    row = (10, 11, 12, 13, 14)
    exp = tuple(row[i] for i in idx)
    ref = operator.itemgetter(*idx)(row)
    if (ref if len(idx) > 1 else (ref,)) != exp:
        raise HarnessError("reference itemgetter disagrees with the list model")
    classes = ["len:%d" % len(idx)]
    rep = len(set(idx)) < len(idx)
    if rep:
        classes.append("projection-repeats-index")
        if max(idx) - min(idx) + 1 > len(set(idx)):
            classes.append("projection-repeat+gap")
    ctx.note(case, len(idx) > 1, classes=classes)
    getter = _util_cy.tuplegetter(*idx)
    for r in (row, list(row)):
        got = tuple(getter(r))
        if got != exp:
            raise Violation("C10/tuplegetter/wrong-elements", f"tuplegetter{idx}({r!r}) = {got!r}, operator.itemgetter gives {exp!r}", observed=repr(got), expected=repr(exp))
    isc = getattr(_util_cy, "_is_contiguous", None)  # plain function in the pure-Python build, not importable from the extension
    if isc is not None and len(idx) > 1:
        want = all(a + 1 == b for a, b in zip(idx, idx[1:]))
        if bool(isc(idx)) != want:
            raise Violation("C10/tuplegetter/is-contiguous", f"_is_contiguous{idx} = {bool(isc(idx))}, expected {want}", observed=repr(bool(isc(idx))), expected=repr(want))


def subs(tier):
    return [
        Enumerated("tuplegetter_exh", check_tuplegetter, cases=_tg_cases),
        Generated("programs", check_prog, strategy=_programs(), quick=4000, thorough=80000),
    ]
