"""C33 - Session commit / rollback / savepoint keep the session consistent with the database.

History programs over the E-ORM universe (checks/_orm_flush.py) that mix
begin_nested, release / rollback of the innermost or an enclosing savepoint,
Session.commit / rollback (through all savepoints), flush, close and object
operations.  The reference is a nested-transaction model of row states (stack
of snapshots uid -> row).  After every commit / rollback at any level:

(1) an independent sqlite3 connection sees exactly the model's *committed*
    rows, and the session's own DBAPI connection sees the rows of the surviving
    scope;
(2) every loaded (``__dict__``) column attribute of every object equals the
    surviving scope's row (relationship attributes: equal modulo objects that
    are documented to linger until expiry), and attribute reads return the
    model's value;
(3) membership / lifecycle state: objects added inside a rolled-back scope are
    transient and out of the session, objects deleted inside it are persistent
    again, key-switched objects are keyed under the surviving key.
"""
from __future__ import annotations

from hypothesis import strategies as st

from checks import _orm_flush as E
from vf.api import Generated

PROPERTY = "C33"
LEVEL = "exploration"
RULE = (
    "case = drawn mapping config (as C30, expire_on_commit on/off) + history of <=40 ops: half free-form over the transaction-heavy op "
    "alphabet, the rest built on the template setup/commit/savepoint/ops/savepoint/add+delete+modify/rollback-to-savepoint/.../commit with "
    "drawn fill-in. Non-trivial: savepoint depth >=2 was reached, a savepoint (inner or enclosing) holding an add, a delete and a "
    "modification (or key switch) was rolled back, and a commit followed -- or a key switch flushed inside a savepoint that was released "
    "and then undone by rolling back the enclosing transaction/savepoint, followed by a commit (15% of cases use a template for this); "
    "distinct = canonical JSON of (config, ops)"
)
ASSUMPTIONS = [
    "SQLite only (file database, non-legacy transaction mode so that SAVEPOINT begins a transaction)",
    "the nested-transaction reference model and the flush model of checks/_orm_flush.py are trusted (same domain restrictions as C30)",
    "objects expunged by a rollback are discarded by the program (their attributes are documented to stay unchanged; re-adding them is out of scope)",
    "relationship attributes are compared modulo deleted objects, which loaded collections are documented to keep until expiry",
    "Session.close() is followed by re-loading each surviving row with Session.get()",
    "known findings excluded by construction: 'deleted' state kept after commit with expire_on_commit=False; rollback re-inserting an "
    "expunged key-switched object into the identity map (plus the C30 exclusions)",
]

C33_CODES = [
    "hand", "ucode", "new", "new", "add", "set", "set", "append", "append", "remove", "replace", "clear", "setparent", "setparent", "clearparent",
    "tagadd", "tagremove", "pk", "pk", "fav", "delete", "delete", "delete", "expunge", "merge",
    "flush", "flush", "commit", "commit", "rollback", "rollback", "nested", "nested", "nested", "nested", "release", "release",
    "nrollback", "nrollback", "nrollback", "expire", "read", "read", "read", "close",
]
BODY = [c for c in C33_CODES if c not in ("commit", "rollback", "close", "nested", "release", "nrollback")]
small = st.integers(0, 15)


def _op(codes):
    return st.tuples(st.sampled_from(codes), small, small, small).map(list)


@st.composite
def _template(draw):
    new = st.tuples(st.just("new"), small, small, st.integers(0, 3)).map(list)
    ops = draw(st.lists(new, min_size=3, max_size=5))
    ops += draw(st.lists(_op(E.SETUP_CODES), min_size=2, max_size=5))
    ops.append(["commit", 0, 0, 0])
    ops += draw(st.lists(_op(BODY), min_size=0, max_size=3))
    ops.append(["nested", 0, 0, 0])
    ops += draw(st.lists(_op(BODY), min_size=0, max_size=3))
    ops.append(["nested", 0, 0, 0])
    inner = draw(st.lists(_op(BODY), min_size=0, max_size=3))
    inner += [["new", draw(small), draw(small), 0], ["delete", draw(small), 0, 0], ["delete", draw(small), 0, 0], ["set", draw(small), draw(small), 0],
              draw(st.sampled_from([["set", 0, 1, 0], ["pk", 0, 0, 0], ["setparent", 0, 0, 0], ["tagadd", 0, 0, 0]]))[:1] + [draw(small), draw(small), draw(small)]]
    inner = draw(st.permutations(inner))
    ops += list(inner)
    if draw(st.booleans()):
        ops.append(["nested", 0, 0, 0])
        ops += draw(st.lists(_op(BODY), min_size=0, max_size=2))
    ops.append(["nrollback", 0, draw(st.sampled_from([1, 1, 0, 3])), 0])
    ops += draw(st.lists(_op(C33_CODES), min_size=0, max_size=4))
    ops.append(draw(st.sampled_from([["release", 0, 0, 0], ["nrollback", 0, 1, 0], ["flush", 0, 0, 0], ["read", 1, 1, 1]])))
    ops += draw(st.lists(_op(BODY), min_size=0, max_size=2))
    ops.append(["commit", 0, 0, 0])
    ops += draw(st.lists(_op(C33_CODES), min_size=0, max_size=5))
    return ops[:40]


@st.composite
def _keyswitch_template(draw):
    """a persistent row's primary key is switched and flushed inside a savepoint, the savepoint is released,
    then the enclosing transaction (or an enclosing savepoint) is rolled back; work continues and commits"""
    nopk = [c for c in BODY if c != "pk"]
    ops = [["new", 0, draw(small), 0], ["new", 0, draw(small), 0], ["new", 1, draw(small), 0], ["new", 1, draw(small), 0]]
    ops += draw(st.lists(_op(E.SETUP_CODES), min_size=1, max_size=4))
    ops.append(["commit", 0, 0, 0])
    outer_sp = draw(st.booleans())  # roll back an enclosing savepoint instead of the whole transaction
    if outer_sp:
        ops += draw(st.lists(_op(nopk), min_size=0, max_size=2))
        ops.append(["nested", 0, 0, 0])
    ops += draw(st.lists(_op(nopk), min_size=0, max_size=2))
    levels = draw(st.sampled_from([1, 1, 2]))
    for _ in range(levels):
        ops.append(["nested", 0, 0, 0])
    ops.append(["pk", draw(small), 0, 0])
    if draw(st.booleans()):
        ops.append(["flush", 0, 0, 0])  # otherwise the release flushes
    ops += draw(st.lists(_op(nopk), min_size=0, max_size=2))
    for _ in range(levels):
        ops.append(["release", 0, 0, 0])
    ops += draw(st.lists(_op(nopk), min_size=0, max_size=2))
    ops.append(["nrollback", 0, 1, 0] if outer_sp else ["rollback", 0, 0, 0])
    ops += draw(st.lists(_op(["read", "set", "pk", "setparent", "append", "flush", "merge"]), min_size=1, max_size=4))
    ops.append(["commit", 0, 0, 0])
    ops += draw(st.lists(_op(C33_CODES), min_size=0, max_size=4))
    return ops[:40]


@st.composite
def _cases(draw):
    cfg = draw(E.cfg_strategy("c33"))
    pick = draw(st.integers(0, 19))
    if pick < 3:
        cfg = E.norm_cfg(dict(cfg, fam="pct", natpk=draw(st.sampled_from(["passive", "orm"])),
                              fk_nullable=cfg.get("fk_nullable", True), inh=cfg.get("inh", False), fav=cfg.get("fav", False),
                              m2m_coll=cfg.get("m2m_coll", "list"), m2m_bidir=cfg.get("m2m_bidir", "backref")))
        ops = draw(_keyswitch_template())
    elif pick < 15:
        ops = draw(_template())
    else:
        ops = draw(E.ops_strategy(C33_CODES, mid=("commit", "commit", "nested")))
    return {"cfg": cfg, "ops": ops}


def check(case, ctx):
    holder = []
    try:
        E.run_program(case, ctx, holder=holder, prop="C33", check_tx=True)
    finally:
        it = holder[0] if holder else None
        if it is None:
            ctx.note(case, False, classes=["raised"])
        else:
            cfg = it.U.cfg
            cls = sorted(c for c in it.classes if c not in ("flush", "commit", "read", "mixed-flush", "replace-flush", "merge", "expire"))
            cls += [f"fam={cfg['fam']}", f"expire_on_commit={cfg['eoc']}"]
            if cfg.get("natpk"):
                cls.append("natural-pk")
            nontrivial = "pk-switch-in-released-savepoint-then-outer-rollback" in it.classes or "commit-after-rich-rollback" in it.classes and any(c.startswith("savepoint-depth-2") or c.startswith("savepoint-depth-3") for c in it.classes)
            ctx.info("tx_points_checked", it.counters["tx_checks"])
            ctx.info("flush_points_compared", it.counters["flush_checks"])
            ctx.info("ops_executed", it.counters["ops"] - it.counters["skipped"])
            ctx.info("ops_skipped", it.counters["skipped"])
            ctx.note(case, nontrivial, classes=cls)


def subs(tier):
    return [Generated("histories", check, strategy=_cases(), quick=560, thorough=50000, budget_s_quick=90.0)]
