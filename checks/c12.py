"""C12 - bulk INSERT with RETURNING returns one row per parameter set, in order.

Live tier (SQLite): every parameter set carries a unique payload token; the
cursor delivers multi-row RETURNING results in a *permuted* order (SQLite
documents RETURNING order as arbitrary), so ``sort_by_parameter_order`` has to
be earned by the sentinel machinery.  Recording tier (PostgreSQL / MariaDB /
SQL Server dialects over a recording DBAPI): a small fake server interprets the
emitted INSERT, assigns server-generated keys in ``sen_counter`` / VALUES order
and answers every batch in reversed order.
"""
from __future__ import annotations

import itertools
import re
import uuid
import warnings

from hypothesis import strategies as st

from checks import _dmlutil as du
from vf.api import Enumerated, Generated, Violation

PROPERTY = "C12"
LEVEL = "exploration"
RULE = (
    "live: drawn (sentinel style x rows 1..60 x insertmanyvalues_page_size 1..25 given as engine arg / connection, execute or statement "
    "execution option x paramstyle qmark|numeric|named|numeric_dollar x returning()/return_defaults()/no RETURNING x sort_by_parameter_order "
    "x extra default columns x upsert clause x RETURNING permutation of the cursor); grid: rows 0..60 x page 1..25 x 4 sentinel styles "
    "(quick: reduced); geom_grid: rows x page size {2,3,5,7,1000} x dialect.insertmanyvalues_max_parameters override {4..60} so that the max-parameters "
    "batch shrink is active, for sorted client-sentinel and unsorted configurations; live/rec additionally draw page sizes {1,2,3,5,7,1000,100000}, a "
    "max-parameters override 4..60 and row counts k*batch, k*batch+-1, <batch relative to the shrunk batch; orm: unit-of-work flush and ORM bulk INSERT with heterogeneous key sets; rec: PostgreSQL/MariaDB/MSSQL driver "
    "dialects over a recording DBAPI whose fake server answers each batch in reversed order. Non-trivial: sort requested with >=2 batches, "
    "or a sentinel column in use with a permuted multi-row batch, or heterogeneous key sets; distinct = canonical JSON of the case"
)
ASSUMPTIONS = [
    "an empty parameter list is deprecated input (SADeprecationWarning) and only checked for that warning",
    "Core executemany parameter sets are homogeneous (documented: first set decides the columns); heterogeneous sets only through ORM bulk INSERT",
    "SQLite RETURNING order is arbitrary (sqlite.org/lang_returning.html), so a cursor that permutes a multi-row RETURNING result is a legal backend",
    "numeric_dollar is exercised live through the test-only sqlite+pysqlite_dollar dialect of dialects/sqlite/pysqlite.py",
    "recording tier: the fake server models INSERT..VALUES / INSERT..SELECT..FROM (VALUES..) ORDER BY sen_counter only; serial keys are assigned in "
    "sen_counter order (PostgreSQL/MSSQL documented guarantee) or VALUES order (MariaDB InnoDB) and the driver returns a bound value unchanged",
    "client-generated sentinel values are unique (documented requirement)",
    "Dialect.insertmanyvalues_max_parameters (documented dialect attribute; 999 on old SQLite, 2099 on SQL Server) may be any value that still lets one "
    "parameter set fit: the check sets it on the engine's dialect instance to make the limit active with narrow tables",
    "the server-generated-PK style uses a 128-bit randomblob() default: its value is never part of the oracle (rows are matched through the payload) and collisions are ignored",
]

STYLES = ["autoinc", "uuid_pk", "str_pk", "sent_col", "sent_uuid", "composite", "given_pk", "nopk", "server_pk", "explicit_autoinc"]
SENTINEL_STYLES = {"uuid_pk", "str_pk", "sent_col", "sent_uuid", "composite", "given_pk"}
DOWNGRADE_STYLES = {"autoinc", "nopk", "server_pk"}
PAGE_VIA = ["engine", "conn_opt", "exec_opt", "stmt_opt"]


class _Counter:
    def __init__(self, fn):
        self.n = 0
        self.fn = fn

    def __call__(self):
        self.n += 1
        return self.fn(self.n)


def _build_table(sa, m, style, extras, name="t"):
    """returns (table, counters dict)"""
    cnt = {}
    cols = []
    if style in ("autoinc", "sent_col", "sent_uuid"):
        cols.append(sa.Column("id", sa.Integer, primary_key=True))
    elif style == "explicit_autoinc":
        cols.append(sa.Column("id", sa.Integer, primary_key=True, insert_sentinel=True))
    elif style == "uuid_pk":
        cnt["id"] = _Counter(lambda n: uuid.UUID(int=(7919 * (1000 - n)) % (1 << 64) + 1))
        cols.append(sa.Column("id", sa.Uuid, primary_key=True, default=cnt["id"]))
    elif style == "str_pk":
        cnt["id"] = _Counter(lambda n: "pk%04d" % (5000 - n))
        cols.append(sa.Column("id", sa.String(20), primary_key=True, default=cnt["id"]))
    elif style == "composite":
        cnt["id2"] = _Counter(lambda n: "c%04d" % (5000 - n))
        cols.append(sa.Column("id", sa.Integer, primary_key=True, autoincrement=False))
        cols.append(sa.Column("id2", sa.String(20), primary_key=True, default=cnt["id2"]))
    elif style == "given_pk":
        cols.append(sa.Column("id", sa.Integer, primary_key=True, autoincrement=False))
    elif style == "nopk":
        cols.append(sa.Column("id", sa.Integer))
    elif style == "server_pk":
        cols.append(sa.Column("id", sa.String(40), primary_key=True, server_default=sa.text("(lower(hex(randomblob(16))))")))
    else:
        raise ValueError(style)
    cols.append(sa.Column("tok", sa.String(40), unique=True))
    if "val" in extras:
        cols.append(sa.Column("val", sa.Integer))
    if "sd" in extras:
        cols.append(sa.Column("sd", sa.String(10), server_default="sdv"))
    if "pd" in extras:
        cols.append(sa.Column("pd", sa.Integer, default=41))
    if "pc" in extras:
        cnt["pc"] = _Counter(lambda n: "pc%d" % n)
        cols.append(sa.Column("pc", sa.String(20), default=cnt["pc"]))
    if "sq" in extras:
        cols.append(sa.Column("sq", sa.String(20), default=sa.func.coalesce(sa.literal("sq") + sa.literal("v"), "z")))
    if style == "sent_col":
        cols.append(sa.insert_sentinel("sent"))
    if style == "sent_uuid":
        cnt["su"] = _Counter(lambda n: uuid.UUID(int=(104729 * (900 - n)) % (1 << 60) + 3))
        cols.append(sa.Column("su", sa.Uuid, default=cnt["su"], insert_sentinel=True, nullable=False))
    return sa.Table(name, m, *cols), cnt


def _tok(i, salt):
    # distinct, not sorted like the index (so sorting by payload cannot fake parameter order)
    return "T%02d_%03d" % ((i * 37 + salt) % 61, i)


def _params(style, n, salt, extras):
    out = []
    for i in range(n):
        p = {"tok": _tok(i, salt)}
        if style in ("composite", "given_pk"):
            p["id"] = 9000 - 7 * i  # descending, so key order != parameter order
        if "val" in extras:
            p["val"] = (i * 13 + salt) % 17
        out.append(p)
    return out


def _norm(v):
    if isinstance(v, uuid.UUID):
        return v.hex
    return v


def _stored(conn, t):
    """tok -> {col: value} via a raw driver-level SELECT"""
    names = [c.name for c in t.c]
    rows = conn.exec_driver_sql("SELECT %s FROM %s" % (", ".join(names), t.name)).all()
    out = {}
    for r in rows:
        d = dict(zip(names, r))
        if d["tok"] in out:
            raise Violation("C12/table/duplicate-payload", f"payload {d['tok']} stored twice", observed=str(rows)[:500])
        out[d["tok"]] = d
    return out


def _bind_bounds(style, extras, case):
    """(upper bound of binds per parameter set, upper bound of binds outside VALUES) - used only to keep a drawn
    insertmanyvalues_max_parameters override legal (the shrunk batch must hold at least one row)"""
    per_row = 1 + {"uuid_pk": 1, "str_pk": 1, "int_pk": 1, "sent_col": 1, "sent_uuid": 1, "composite": 2, "given_pk": 1}.get(style, 0)
    per_row += sum({"val": 1, "pd": 1, "pc": 1, "sq": 3}.get(e, 0) for e in extras)
    outside = (2 if case.get("ret_expr") else 0) + (1 if case.get("upsert", "none") in ("update_excluded", "update_bound") else 0)
    return per_row, outside


def _geometry(case, style, extras):
    """resolves the dialect max-parameters override and the row count of a batch-geometry case.
    returns (max_params or None, n)"""
    mp = case.get("max_params")
    n = case.get("n")
    if not mp and "n_rel" not in case:
        return None, n
    per_row, outside = _bind_bounds(style, extras, case)
    page = case["page"]
    b = page
    if mp:
        mp = max(mp, per_row + outside)
        b = min(page, max(1, (mp - outside) // per_row))
    if "n_rel" in case:
        kind, k = case["n_rel"]
        if kind == "lt":
            n = max(1, min(b - 1, 1 + k))
        else:
            n = k * b + {"mult": 0, "plus": 1, "minus": -1}[kind]
        n = max(1, min(n, 90))
    return mp or None, n


def _batch_classes(sizes, n, page, mp):
    """labels from the observed VALUES-group sizes of the emitted INSERT statements"""
    out = []
    if not sizes:
        return out
    big = max(sizes)
    batched = big > 1 or (len(sizes) < n)
    if mp:
        out.append("max-parameters-set")
    if mp and big < min(page, n) and len(sizes) > 1 and (batched or page > 1):
        out.append("max-parameters-active")
    if big > 1:
        out.append("rows-multiple-of-batch" if n % big == 0 else "rows-not-multiple-of-batch")
        if n % big == 1:
            out.append("rows=k*batch+1")
        if n % big == big - 1 and big > 2:
            out.append("rows=k*batch-1")
        if n < big or len(sizes) == 1:
            out.append("rows-within-one-batch")
    if page >= 1000:
        out.append("page>=1000")
    return out


def _expect_error(style, ret, sort, n):
    # documented: an autoincrement PK explicitly marked insert_sentinel=True is refused by a dialect that cannot use it
    return style == "explicit_autoinc" and ret != "none" and sort and n > 1


def _insert_stmt(sa, t, case):
    ret, sort = case["ret"], case["sort"]
    ups = case.get("upsert", "none")
    if ups == "none":
        stmt = sa.insert(t)
    else:
        from sqlalchemy.dialects.sqlite import insert as sl_insert

        stmt = sl_insert(t)
        if ups == "nothing":
            stmt = stmt.on_conflict_do_nothing(index_elements=[t.c.tok])
        elif ups == "update_excluded":
            stmt = stmt.on_conflict_do_update(index_elements=[t.c.tok], set_={"tok": stmt.excluded.tok + "!"})
        elif ups == "update_bound":
            stmt = stmt.on_conflict_do_update(index_elements=[t.c.tok], set_={"tok": "clash"})
    if ret == "returning":
        rc = [c for c in t.c if c.name not in ("sent",)]
        if case.get("ret_expr"):
            rc = rc + [(t.c.tok + sa.literal("~") + sa.literal("x")).label("rx")]
        stmt = stmt.returning(*rc, sort_by_parameter_order=sort)
    elif ret == "return_defaults":
        stmt = stmt.return_defaults(sort_by_parameter_order=sort)
    if case["page_via"] == "stmt_opt":
        stmt = stmt.execution_options(insertmanyvalues_page_size=case["page"])
    return stmt


def check_live(case, ctx):
    import sqlalchemy as sa

    style, page, sort, ret = case["style"], case["page"], case["sort"], case["ret"]
    extras = case.get("extras", [])
    scr = case.get("scramble", "rev")
    via = case["page_via"]
    stats = {}
    ekw = {"insertmanyvalues_page_size": page} if via == "engine" else {}
    eng = du.sqlite_engine(case.get("paramstyle", "qmark"), scr, stats, **ekw)
    max_params, n = _geometry(case, style, extras)
    if max_params:
        # Dialect.insertmanyvalues_max_parameters is a documented dialect attribute (999 on SQLite < 3.32, 2099 on SQL Server); a small value
        # makes the "max number of parameters" batch shrink active with narrow tables and few rows
        eng.dialect.insertmanyvalues_max_parameters = max_params
    try:
        m = sa.MetaData()
        t, cnt = _build_table(sa, m, style, extras)
        m.create_all(eng)
        params = _params(style, n, case.get("salt", 0), extras)
        stmt = _insert_stmt(sa, t, case)
        classes = [style, "ret=" + ret, "sort" if sort else "nosort", "via=" + via, "ps=" + case.get("paramstyle", "qmark"),
                   "ups=" + case.get("upsert", "none")]
        nbatches = -(-n // page)
        classes.append("batches=%s" % ("0" if n == 0 else "1" if nbatches == 1 else "2-3" if nbatches <= 3 else "4+"))
        cap = []

        def on_exec(conn, cursor, statement, parameters, context, executemany):
            if statement.lstrip().startswith("INSERT"):
                cap.append((statement, parameters, executemany))

        sa.event.listen(eng, "before_cursor_execute", on_exec)
        with eng.connect() as conn:
            if via == "conn_opt":
                conn = conn.execution_options(insertmanyvalues_page_size=page)
            xkw = {"execution_options": {"insertmanyvalues_page_size": page}} if via == "exec_opt" else {}
            if n == 0:
                ctx.note(case, False, classes=classes + ["empty"])
                with warnings.catch_warnings(record=True) as w:
                    warnings.simplefilter("always")
                    try:
                        conn.execute(stmt, [], **xkw)
                    except sa.exc.SQLAlchemyError:
                        pass
                if not any(issubclass(x.category, sa.exc.SADeprecationWarning) for x in w):
                    raise Violation("C12/empty-list/no-deprecation-warning", "empty parameter list executed without the documented deprecation warning")
                return
            expect_err = _expect_error(style, ret, sort, n)
            try:
                result = conn.execute(stmt, params, **xkw)
                err = None
            except sa.exc.InvalidRequestError as e:
                result, err = None, e
            except sa.exc.StatementError as e:
                if not isinstance(e.orig, sa.exc.InvalidRequestError):
                    raise
                result, err = None, e
            if expect_err:
                ctx.note(case, True, classes=classes + ["refused"])
                if err is None:
                    raise Violation("C12/explicit-autoinc-sentinel/not-refused", "insert_sentinel=True on an autoincrement PK was accepted by SQLite with sort_by_parameter_order", expected="InvalidRequestError")
                if "can't be explicitly marked as a sentinel" not in str(err):
                    raise Violation("C12/explicit-autoinc-sentinel/wrong-error", str(err)[:300])
                if conn.exec_driver_sql("SELECT count(*) FROM t").scalar() != 0:
                    raise Violation("C12/explicit-autoinc-sentinel/rows-inserted", "statement refused but rows are present")
                return
            if err is not None:
                ctx.note(case, True, classes=classes + ["unexpected-error"])
                raise Violation("C12/unexpected-refusal/" + style, f"{type(err).__name__}: {str(err)[:300]}", expected="rows inserted")

            rows = result.all() if ret == "returning" else None
            ipk_rows = rd_rows = None
            if ret == "return_defaults":
                ipk_rows = result.inserted_primary_key_rows
                rd_rows = result.returned_defaults_rows
            stored = _stored(conn, t)

            sizes = []
            _w = set(p["tok"] for p in params)
            for _s, _ps, _m in cap:
                if not isinstance(_ps, list):
                    _vals = list(_ps.values()) if isinstance(_ps, dict) else list(_ps)
                    sizes.append(sum(1 for v in _vals if isinstance(v, str) and v in _w))
            classes += _batch_classes(sizes, n, page, max_params)
            multi_scrambled = stats.get("multi", 0) > 0 and scr != "none"
            uses_sentinel = style in SENTINEL_STYLES and sort and ret != "none" and n > 1
            nontrivial = ret != "none" and ((sort and nbatches >= 2) or (uses_sentinel and multi_scrambled) or "max-parameters-active" in classes)
            if uses_sentinel:
                classes.append("sentinel-sort")
            if multi_scrambled:
                classes.append("permuted-batch")
            if sort and ret != "none" and n > 1 and style in DOWNGRADE_STYLES | {"explicit_autoinc"}:
                classes.append("downgraded")
            ctx.note(case, nontrivial, classes=classes)

            want = [p["tok"] for p in params]
            # every parameter set inserted exactly once
            if sorted(stored) != sorted(want):
                missing = sorted(set(want) - set(stored))
                extra = sorted(set(stored) - set(want))
                raise Violation("C12/table/contents", f"table payloads differ from parameter list: missing {missing[:5]} extra {extra[:5]} ({len(stored)} stored, {n} sets)",
                                observed=sorted(stored), expected=sorted(want))
            for p in params:
                for k, v in p.items():
                    if stored[p["tok"]][k] != v:
                        raise Violation("C12/table/column-value", f"row {p['tok']}: column {k} stored {stored[p['tok']][k]!r}, bound {v!r}")
            # documented page size bound: no statement carries more than `page` parameter sets
            wset = set(want)
            total = 0
            for stmt_s, ps, many in cap:
                vals = []
                real_many = isinstance(ps, list)  # cursor.executemany(); insertmanyvalues batches are single execute() calls
                for one in (ps if real_many else [ps]):
                    vals.extend(one.values() if isinstance(one, dict) else one)
                k = sum(1 for v in vals if isinstance(v, str) and v in wset)
                total += k
                if not real_many and k > page:
                    raise Violation("C12/batch/exceeds-page-size", f"one INSERT carries {k} parameter sets with insertmanyvalues_page_size={page}", observed=stmt_s[:200])
                if not real_many and max_params and k > 1 and len(vals) > max_params:
                    if "sq" in extras and not case.get("pinned"):
                        continue  # known finding, counted below
                    sig = "C12/batch/exceeds-max-parameters" + ("/multi-bind-default" if "sq" in extras else "")
                    raise Violation(sig, f"one INSERT binds {len(vals)} parameters with dialect.insertmanyvalues_max_parameters={max_params}", observed=stmt_s[:200])
            if max_params and "sq" in extras and not case.get("pinned"):
                ctx.exclude("max-parameters bound not judged when a SQL-expression default with several binds sits inside VALUES (known finding: binds under-counted)")
            if total != n:
                raise Violation("C12/batch/bound-count", f"{total} payloads bound over all INSERT statements, {n} parameter sets")
            # client-side default generators ran exactly once per row
            for k, c in cnt.items():
                if c.n != n:
                    raise Violation("C12/default/call-count", f"default generator of column {k} ran {c.n} times for {n} rows")

            names = [c.name for c in t.c if c.name != "sent"]
            if rows is not None:
                if len(rows) != n:
                    raise Violation("C12/returning/row-count", f"{len(rows)} rows returned for {n} parameter sets (style {style}, page {page}, sort {sort})",
                                    observed=len(rows), expected=n)
                got = [r._mapping["tok"] for r in rows]
                if sort:
                    if got != want:
                        firstbad = next(i for i, (a, b) in enumerate(zip(got, want)) if a != b)
                        raise Violation("C12/returning/order", f"sort_by_parameter_order: row {firstbad} carries {got[firstbad]} but parameter set {firstbad} is {want[firstbad]} "
                                        f"(style {style}, n {n}, page {page}, permutation {scr})", observed=got, expected=want)
                elif sorted(got) != sorted(want):
                    raise Violation("C12/returning/multiset", "returned payloads differ from inserted payloads", observed=sorted(got), expected=sorted(want))
                for r in rows:
                    mp = r._mapping
                    srow = stored[mp["tok"]]
                    for nm in names:
                        if _norm(mp[nm]) != srow[nm]:
                            raise Violation("C12/returning/row-mismatch", f"returned row for {mp['tok']} has {nm}={mp[nm]!r}, stored {srow[nm]!r}")
                    if case.get("ret_expr") and mp["rx"] != mp["tok"] + "~x":
                        raise Violation("C12/returning/expr-bind", f"RETURNING expression with bound literals gave {mp['rx']!r} for {mp['tok']}")
                    if len(r) != len(names) + (1 if case.get("ret_expr") else 0):
                        raise Violation("C12/returning/sentinel-leak", f"row has {len(r)} columns, {len(names)} requested: {tuple(r)!r}")
            if ipk_rows is not None:
                pkn = [c.name for c in t.primary_key.columns]
                if len(ipk_rows) != n:
                    raise Violation("C12/inserted_primary_key_rows/count", f"{len(ipk_rows)} entries for {n} parameter sets")
                if pkn:
                    by_pk = {tuple(s[k] for k in pkn): tok_ for tok_, s in stored.items()}
                    got = []
                    for r in ipk_rows:
                        key = tuple(_norm(v) for v in r)
                        if key not in by_pk:
                            raise Violation("C12/inserted_primary_key_rows/unknown-key", f"primary key {key!r} is not in the table")
                        got.append(by_pk[key])
                    if sort and got != want:
                        raise Violation("C12/inserted_primary_key_rows/order", f"n-th inserted primary key does not belong to n-th parameter set (style {style}, n {n}, page {page})",
                                        observed=got, expected=want)
                    if sorted(got) != sorted(want):
                        raise Violation("C12/inserted_primary_key_rows/multiset", "inserted primary keys do not cover the inserted rows", observed=sorted(got), expected=sorted(want))
                if rd_rows is not None and sort and pkn:
                    if len(rd_rows) != n:
                        raise Violation("C12/returned_defaults_rows/count", f"{len(rd_rows)} entries for {n} parameter sets")
                    for i, (rd, ipk) in enumerate(zip(rd_rows, ipk_rows)):
                        tok_ = want[i]
                        for k, v in rd._mapping.items():
                            k = getattr(k, "name", k)
                            if k in stored[tok_] and _norm(v) != stored[tok_][k]:
                                raise Violation("C12/returned_defaults_rows/value", f"returned default {k}={v!r} for parameter set {i} but stored {stored[tok_][k]!r}")
    finally:
        eng.dispose()


_EXTRAS = ["val", "sd", "pd", "pc", "sq"]


@st.composite
def _live_cases(draw):
    style = draw(st.sampled_from(STYLES[:-1] + ["sent_col", "uuid_pk", "composite"]))
    if draw(st.integers(0, 19)) == 0:
        style = "explicit_autoinc"
    page = draw(st.one_of(st.integers(1, 8), st.integers(1, 25)))
    n = draw(st.one_of(st.integers(1, 60), st.integers(max(1, page - 1), min(60, 3 * page + 2))))
    ret = draw(st.sampled_from(["returning", "returning", "returning", "return_defaults", "none"]))
    sort = draw(st.sampled_from([True, True, True, False]))
    case = {
        "style": style, "n": n, "page": page, "ret": ret, "sort": sort,
        "page_via": draw(st.sampled_from(PAGE_VIA)),
        "paramstyle": draw(st.sampled_from(["qmark", "numeric", "named", "numeric_dollar"])),
        "scramble": draw(st.sampled_from(["rev", "rot", "swap", "rev", "none"])),
        "extras": sorted(draw(st.sets(st.sampled_from(_EXTRAS), max_size=3))),
        "salt": draw(st.integers(0, 60)),
        "upsert": draw(st.sampled_from(["none", "none", "none", "nothing", "update_excluded", "update_bound"])),
        "ret_expr": draw(st.booleans()) if ret == "returning" else False,
    }
    # batch geometry: page sizes incl. the default-like 1000 / very large, a dialect max-parameters limit that is actually active, and
    # row counts placed relative to the (shrunk) batch size
    g = draw(st.integers(0, 3))
    if g >= 1:
        case["page"] = draw(st.sampled_from([1, 2, 3, 5, 7, 1000, 100000]))
    if g >= 2:
        case["max_params"] = draw(st.integers(4, 60))
    if g >= 1 and draw(st.booleans()) or g == 3:
        case["n_rel"] = [draw(st.sampled_from(["mult", "plus", "minus", "lt", "plus", "minus"])), draw(st.integers(1, 4))]
    return case



# ------------------------------------------------------------------ ORM consumers
ORM_STYLES = ["autoinc", "uuid_pk", "sent_col", "str_pk", "server_pk"]


_ORM_FAMILY = {}


def _orm_class(sa, orm, style):
    """one immutable mapped class per style and process (counters are reset per case)"""
    if style not in _ORM_FAMILY:
        _ORM_FAMILY[style] = _orm_class_build(sa, orm, style)
    reg, cls, cnt = _ORM_FAMILY[style]
    for c in cnt.values():
        c.n = 0
    return reg, cls, cnt


def _orm_class_build(sa, orm, style):
    reg = orm.registry()
    cnt = {}
    ns = {"__tablename__": "t"}
    if style in ("autoinc", "sent_col"):
        ns["id"] = orm.mapped_column(sa.Integer, primary_key=True)
    elif style == "uuid_pk":
        cnt["id"] = _Counter(lambda n: uuid.UUID(int=(7919 * (1000 - n)) % (1 << 64) + 1))
        ns["id"] = orm.mapped_column(sa.Uuid, primary_key=True, default=cnt["id"])
    elif style == "str_pk":
        cnt["id"] = _Counter(lambda n: "pk%04d" % (5000 - n))
        ns["id"] = orm.mapped_column(sa.String(20), primary_key=True, default=cnt["id"])
    elif style == "server_pk":
        ns["id"] = orm.mapped_column(sa.String(40), primary_key=True, server_default=sa.text("(lower(hex(randomblob(16))))"))
    ns["tok"] = orm.mapped_column(sa.String(40), unique=True)
    ns["a"] = orm.mapped_column(sa.Integer, default=5, nullable=True)
    ns["b"] = orm.mapped_column(sa.String(10), nullable=True)
    ns["sd"] = orm.mapped_column(sa.String(10), server_default="sdv")
    if style == "sent_col":
        ns["_sent"] = orm.orm_insert_sentinel()
        ns["__annotations__"] = {"_sent": orm.Mapped[int]}
    cls = type("T", (), ns)
    if style == "server_pk":
        ns_args = {"eager_defaults": True}
        cls.__mapper_args__ = ns_args
    reg.mapped(cls)
    return reg, cls, cnt


def check_orm(case, ctx):
    import sqlalchemy as sa
    from sqlalchemy import orm

    style, page, mode, sort, scr = case["style"], case["page"], case["mode"], case["sort"], case["scramble"]
    keysets = case["keysets"]  # per row: 0 none, 1 a, 2 b, 3 a+b
    n = len(keysets)
    stats = {}
    eng = du.sqlite_engine(case.get("paramstyle", "qmark"), scr, stats, insertmanyvalues_page_size=page)
    reg, cls, cnt = _orm_class(sa, orm, style)
    try:
        reg.metadata.create_all(eng)
        salt = case.get("salt", 0)
        params = []
        for i, ks in enumerate(keysets):
            p = {"tok": _tok(i, salt)}
            if ks & 1:
                p["a"] = None if case.get("nulls") and i % 3 == 0 else 100 + i
            if ks & 2:
                p["b"] = "b%d" % i
            params.append(p)
        hetero = len({tuple(sorted(k for k, v in p.items() if v is not None)) for p in params}) > 1
        want = [p["tok"] for p in params]
        classes = [style, mode, "hetero" if hetero else "homog", "sort" if sort else "nosort"]
        sess = orm.Session(eng)
        try:
            if mode == "flush":
                objs = [cls(**p) for p in params]
                order = case.get("add_order", "fwd")
                sess.add_all(objs if order == "fwd" else objs[::-1])
                sess.flush()
                got_rows = [(o.tok, o.id, o.a, o.b) for o in objs]
                sd_vals = [o.sd for o in objs]  # server default: loaded via RETURNING or refresh
            else:
                T = cls
                if mode == "bulk_cols":
                    stmt = sa.insert(T).returning(T.id, T.tok, T.a, T.b, T.sd, sort_by_parameter_order=sort)
                    res = sess.execute(stmt, params).all()
                    got_rows = [(r.tok, r.id, r.a, r.b) for r in res]
                    sd_vals = [r.sd for r in res]
                else:
                    stmt = sa.insert(T).returning(T, sort_by_parameter_order=sort)
                    res = sess.scalars(stmt, params).all()
                    got_rows = [(o.tok, o.id, o.a, o.b) for o in res]
                    sd_vals = [o.sd for o in res]
            names = ["id", "tok", "a", "b", "sd"]
            raw = sess.connection().exec_driver_sql("SELECT id, tok, a, b, sd FROM t").all()
            stored = {r[1]: dict(zip(names, r)) for r in raw}
            multi = stats.get("multi", 0) > 0 and scr != "none"
            ordered = sort or mode == "flush"
            nbatches = -(-n // page)
            ctx.note(case, (hetero and n > 1) or (ordered and nbatches >= 2) or (multi and ordered), classes=classes + (["permuted-batch"] if multi else []))
            if len(raw) != n or sorted(stored) != sorted(want):
                raise Violation(f"C12/orm-{mode}/table-contents", f"{len(raw)} rows stored for {n} parameter sets", observed=sorted(stored), expected=sorted(want))
            if len(got_rows) != n:
                raise Violation(f"C12/orm-{mode}/row-count", f"{len(got_rows)} rows delivered for {n} parameter sets")
            got = [g[0] for g in got_rows]
            if ordered and got != want:
                raise Violation(f"C12/orm-{mode}/order", f"delivered payload order differs from parameter order (style {style}, page {page})", observed=got, expected=want)
            if sorted(got) != sorted(want):
                raise Violation(f"C12/orm-{mode}/multiset", "delivered payloads differ from inserted payloads", observed=sorted(got), expected=sorted(want))
            for (tok_, id_, a, b), sdv, in zip(got_rows, sd_vals):
                s = stored[tok_]
                if _norm(id_) != s["id"]:
                    raise Violation(f"C12/orm-{mode}/pk-mismatch", f"object/row with payload {tok_} got primary key {id_!r} but the stored row has {s['id']!r} "
                                    f"(style {style}, n {n}, page {page}, permutation {scr})", observed=repr(id_), expected=repr(s["id"]))
                if (a, b, sdv) != (s["a"], s["b"], s["sd"]):
                    raise Violation(f"C12/orm-{mode}/value-mismatch", f"payload {tok_}: delivered (a,b,sd)={(a, b, sdv)!r}, stored {(s['a'], s['b'], s['sd'])!r}")
            for p in params:
                s = stored[p["tok"]]
                # documented (orm/queryguide/dml.rst "Sending NULL values in ORM bulk INSERT statements"): the ORM omits None-valued
                # columns from the INSERT, so the column default applies
                exp_a = p["a"] if p.get("a") is not None else 5
                exp_b = p.get("b")
                if (s["a"], s["b"], s["sd"]) != (exp_a, exp_b, "sdv"):
                    raise Violation(f"C12/orm-{mode}/stored-values", f"payload {p['tok']}: stored (a,b,sd)={(s['a'], s['b'], s['sd'])!r}, expected {(exp_a, exp_b, 'sdv')!r}")
            for k, c in cnt.items():
                if c.n != n:
                    raise Violation(f"C12/orm-{mode}/default-call-count", f"default generator of {k} ran {c.n} times for {n} rows")
        finally:
            sess.close()
    finally:
        eng.dispose()


@st.composite
def _orm_cases(draw):
    page = draw(st.integers(1, 12))
    n = draw(st.one_of(st.integers(1, 40), st.integers(max(1, page - 1), min(40, 3 * page + 2))))
    shape = draw(st.sampled_from(["homog", "runs", "random", "random"]))
    if shape == "homog":
        keysets = [draw(st.integers(0, 3))] * n
    elif shape == "runs":
        keysets = []
        while len(keysets) < n:
            keysets += [draw(st.integers(0, 3))] * draw(st.integers(1, 6))
        keysets = keysets[:n]
    else:
        keysets = draw(st.lists(st.integers(0, 3), min_size=n, max_size=n))
    return {
        "style": draw(st.sampled_from(ORM_STYLES + ["sent_col", "uuid_pk"])), "page": page, "keysets": keysets,
        "mode": draw(st.sampled_from(["flush", "flush", "bulk_cols", "bulk_entity"])), "sort": draw(st.sampled_from([True, True, False])),
        "scramble": draw(st.sampled_from(["rev", "rot", "swap", "none"])), "salt": draw(st.integers(0, 60)),
        "paramstyle": draw(st.sampled_from(["qmark", "named", "numeric_dollar"])), "add_order": draw(st.sampled_from(["fwd", "fwd", "rev"])),
        "nulls": draw(st.booleans()),
    }



# ------------------------------------------------------------------ recording tier (PostgreSQL / MariaDB / MSSQL dialects)
REC_BACKENDS = {
    "pg_psycopg2": "postgresql+psycopg2://", "pg_psycopg": "postgresql+psycopg://", "pg_pg8000": "postgresql+pg8000://",
    "pg_asyncpg": "postgresql+asyncpg://", "maria_pymysql": "mariadb+pymysql://", "maria_connector": "mariadb+mariadbconnector://",
    "maria_mysqldb": "mariadb+mysqldb://", "mssql_pyodbc": "mssql+pyodbc://", "mssql_pymssql": "mssql+pymssql://",
}
# Uuid sentinels are exercised live only: what a PG/MariaDB/MSSQL driver hands back for a UUID column is driver specific and a fake would guess
REC_STYLES = ["autoinc", "int_pk", "str_pk", "sent_col", "composite", "given_pk", "server_pk", "nopk"]


def _rec_table(sa, m, style, extras):
    cnt = {}
    cols = []
    if style in ("autoinc", "sent_col"):
        cols.append(sa.Column("id", sa.Integer, primary_key=True))
    elif style == "int_pk":
        cnt["id"] = _Counter(lambda n: 70000 - 3 * n)
        cols.append(sa.Column("id", sa.Integer, primary_key=True, autoincrement=False, default=cnt["id"]))
    elif style == "str_pk":
        cnt["id"] = _Counter(lambda n: "pk%04d" % (5000 - n))
        cols.append(sa.Column("id", sa.String(20), primary_key=True, default=cnt["id"]))
    elif style == "uuid_pk":
        cnt["id"] = _Counter(lambda n: uuid.UUID(int=(7919 * (1000 - n)) % (1 << 64) + 1))
        cols.append(sa.Column("id", sa.Uuid, primary_key=True, default=cnt["id"]))
    elif style == "composite":
        cnt["id2"] = _Counter(lambda n: "c%04d" % (5000 - n))
        cols.append(sa.Column("id", sa.Integer, primary_key=True, autoincrement=False))
        cols.append(sa.Column("id2", sa.String(20), primary_key=True, default=cnt["id2"]))
    elif style == "given_pk":
        cols.append(sa.Column("id", sa.Integer, primary_key=True, autoincrement=False))
    elif style == "server_pk":
        cols.append(sa.Column("id", sa.String(40), primary_key=True, server_default=sa.text("some_gen()")))
    elif style == "nopk":
        cols.append(sa.Column("id", sa.Integer))
    cols.append(sa.Column("tok", sa.String(40)))
    if "val" in extras:
        cols.append(sa.Column("val", sa.Integer))
    if "sd" in extras:
        cols.append(sa.Column("sd", sa.String(10), server_default="sdv"))
    if "pd" in extras:
        cols.append(sa.Column("pd", sa.Integer, default=41))
    if style == "sent_col":
        cols.append(sa.insert_sentinel("sent"))
    return sa.Table("t", m, *cols), cnt


class _FakeServer:
    """interprets the emitted INSERT; stores rows; answers RETURNING permuted"""

    def __init__(self, paramstyle, style, perm, family):
        self.paramstyle, self.style, self.perm, self.family = paramstyle, style, perm, family
        self.serial = 100
        self.stored = []      # dicts in insertion order
        self.batches = []     # per INSERT statement: list of payloads in binding (counter) order
        self.forms = []
        self.nplaceholders = []
        self.errors = []

    def result_for(self, statement, parameters):
        if statement.lstrip()[:6].upper() != "INSERT":
            return None
        try:
            info = du.parse_insert(statement, parameters, self.paramstyle)
        except du.ParseError as e:
            self.errors.append(f"{e} :: {statement[:300]}")
            return None
        rows, ctrs = info["rows"], info["counters"]
        self.forms.append(info["form"])
        if info["form"] == "select":
            if sorted(ctrs) != list(range(len(rows))):
                self.errors.append(f"sen_counter values {ctrs} are not 0..{len(rows) - 1}")
            order = sorted(range(len(rows)), key=lambda i: ctrs[i])
        else:
            order = list(range(len(rows)))
        inserted = []
        for i in order:
            r = rows[i]
            d = {}
            for col, (kind, v) in r.items():
                d[col] = v if kind == "bind" else ("<sql:%s>" % v)
            if "id" not in d:
                if self.style in ("autoinc", "sent_col"):
                    self.serial += 1
                    d["id"] = self.serial
                elif self.style == "server_pk":
                    self.serial += 1
                    d["id"] = "g%05d" % (99999 - self.serial)  # server generated, not monotonic
                else:
                    d["id"] = None
            d.setdefault("sd", "sdv")
            inserted.append(d)
            self.stored.append(d)
        self.batches.append([d.get("tok") for d in inserted])
        self.nplaceholders.append(info["nplaceholders"])
        if not info["returning"]:
            return None
        desc, getters = [], []
        for item in info["returning"]:
            if item[0] != "col":
                self.errors.append(f"RETURNING item not understood: {item[1]}")
                return None
            desc.append(item[2] or item[1])
            getters.append(item[1])
        data = [tuple(d.get(g) for g in getters) for d in inserted]
        if len(data) > 1:
            if self.perm == "rev":
                data = data[::-1]
            elif self.perm == "rot":
                k = len(data) // 2
                data = data[k:] + data[:k]
            elif self.perm == "swap":
                for i in range(0, len(data) - 1, 2):
                    data[i], data[i + 1] = data[i + 1], data[i]
        return desc, data


def check_rec(case, ctx):
    import sqlalchemy as sa
    from vf import fakedb

    backend, style, n, page, sort, perm = case["backend"], case["style"], case["n"], case["page"], case["sort"], case["perm"]
    extras = case.get("extras", [])
    family = backend.split("_")[0]
    eng, db = fakedb.recording_engine(REC_BACKENDS[backend], insertmanyvalues_page_size=page)
    max_params, n = _geometry(case, style, extras)
    n = min(n, 60)
    if max_params:
        eng.dialect.insertmanyvalues_max_parameters = max_params
    try:
        m = sa.MetaData()
        t, cnt = _rec_table(sa, m, style, extras)
        params = []
        for i in range(n):
            p = {"tok": _tok(i, case.get("salt", 0))}
            if style in ("composite", "given_pk"):
                p["id"] = 9000 - 7 * i
            if "val" in extras:
                p["val"] = (i * 13) % 17
            params.append(p)
        want = [p["tok"] for p in params]
        srv = _FakeServer(eng.dialect.paramstyle, style, perm, family)
        db.result_for = srv.result_for
        rc = [c for c in t.c if c.name != "sent"]
        ret = case.get("ret", "returning")
        stmt = sa.insert(t)
        if ret == "returning":
            stmt = stmt.returning(*rc, sort_by_parameter_order=sort)
        else:
            stmt = stmt.return_defaults(sort_by_parameter_order=sort)
        classes = [backend, family + ":" + style, "sort" if sort else "nosort", "ret=" + ret]
        with eng.connect() as conn:
            result = conn.execute(stmt, params)
            rows = result.all() if ret == "returning" else None
            ipk = result.inserted_primary_key_rows if ret != "returning" else None
        nb = len(srv.batches)
        multi = any(len(b) > 1 for b in srv.batches)
        mode = "row-at-a-time" if nb == n and n > 1 else "batched"
        classes += [mode] + sorted(set("form=" + f for f in srv.forms)) + _batch_classes([len(b) for b in srv.batches], n, page, max_params)
        ctx.note(case, n > 1 and ((sort and (multi or nb >= 2)) or "max-parameters-active" in classes), classes=classes)
        if srv.errors:
            raise Violation("C12/rec/statement-not-understood", f"{backend}: {srv.errors[0]}")
        flat = [x for b in srv.batches for x in b]
        if sorted(flat) != sorted(want):
            raise Violation("C12/rec/bound-sets", f"{backend}/{style}: parameter sets bound over all batches differ from the parameter list ({len(flat)} bound, {n} given)",
                            observed=flat, expected=want)
        if any(len(b) > page for b in srv.batches):
            raise Violation("C12/rec/exceeds-page-size", f"{backend}: a batch carries {max(len(b) for b in srv.batches)} sets, page size {page}")
        if max_params and any(np_ > max_params and len(b) > 1 for np_, b in zip(srv.nplaceholders, srv.batches)):
            raise Violation("C12/rec/exceeds-max-parameters", f"{backend}: a batch binds {max(srv.nplaceholders)} parameters, dialect limit {max_params}")
        if style in ("autoinc", "sent_col") and sort and flat != want:
            # server-generated keys are correlated through binding order (VALUES order / sen_counter)
            raise Violation("C12/rec/binding-order", f"{backend}/{style}: batches bind parameter sets out of order", observed=flat, expected=want)
        by_tok = {d["tok"]: d for d in srv.stored}
        names = [c.name for c in rc]
        if rows is not None:
            if len(rows) != n:
                raise Violation("C12/rec/row-count", f"{backend}/{style}: {len(rows)} rows for {n} parameter sets")
            got = [r._mapping["tok"] for r in rows]
            if sort and got != want:
                raise Violation("C12/rec/order", f"{backend}/{style}: rows are not in parameter order (n {n}, page {page}, server answered {perm}, mode {mode})",
                                observed=got, expected=want)
            if sorted(got) != sorted(want):
                raise Violation("C12/rec/multiset", f"{backend}/{style}: returned payloads differ from inserted", observed=sorted(got), expected=sorted(want))
            for r in rows:
                mp = r._mapping
                d = by_tok[mp["tok"]]
                for nm in names:
                    if nm in d and mp[nm] != d[nm] and _norm(mp[nm]) != _norm(d[nm]) and str(mp[nm]) != str(d[nm]):
                        raise Violation("C12/rec/row-mismatch", f"{backend}/{style}: row {mp['tok']} column {nm} delivered {mp[nm]!r}, server has {d[nm]!r}")
                if len(r) != len(names):
                    raise Violation("C12/rec/sentinel-leak", f"{backend}/{style}: row has {len(r)} columns, {len(names)} requested")
        if ipk is not None:
            pkn = [c.name for c in t.primary_key.columns]
            if len(ipk) != n:
                raise Violation("C12/rec/ipk-count", f"{backend}/{style}: {len(ipk)} inserted_primary_key_rows for {n} sets")
            if pkn and sort:
                for i, r in enumerate(ipk):
                    d = by_tok[want[i]]
                    exp = tuple(d[k] for k in pkn)
                    if tuple(r) != exp and tuple(str(_norm(x)) for x in r) != tuple(str(_norm(x)) for x in exp):
                        raise Violation("C12/rec/ipk-order", f"{backend}/{style}: inserted primary key {i} is {tuple(r)!r}, row of parameter set {i} has {exp!r}")
        for k, c in cnt.items():
            if c.n != n:
                raise Violation("C12/rec/default-call-count", f"default generator of {k} ran {c.n} times for {n} rows")
    finally:
        eng.dispose()


@st.composite
def _rec_cases(draw):
    page = draw(st.one_of(st.integers(1, 6), st.integers(1, 25), st.sampled_from([1, 2, 3, 5, 7, 1000, 100000])))
    n = draw(st.one_of(st.integers(2, 40), st.integers(min(40, max(2, page - 1)), max(2, min(40, 3 * page + 2)))))
    case = {
        "backend": draw(st.sampled_from(sorted(REC_BACKENDS))), "style": draw(st.sampled_from(REC_STYLES + ["autoinc", "autoinc"])),
        "n": n, "page": page, "sort": draw(st.sampled_from([True, True, True, False])), "perm": draw(st.sampled_from(["rev", "rev", "rot", "swap"])),
        "extras": sorted(draw(st.sets(st.sampled_from(["val", "sd", "pd"]), max_size=2))), "salt": draw(st.integers(0, 60)),
        "ret": draw(st.sampled_from(["returning", "returning", "return_defaults"])),
    }
    g = draw(st.integers(0, 2))
    if g >= 1:
        case["max_params"] = draw(st.integers(4, 60))
    if g == 2 or draw(st.integers(0, 3)) == 0:
        case["n_rel"] = [draw(st.sampled_from(["mult", "plus", "minus", "lt", "plus", "minus"])), draw(st.integers(1, 4))]
    return case


GRID_STYLES = ["autoinc", "uuid_pk", "sent_col", "nopk"]


def _grid_cases(tier):
    if tier == "quick":
        ns = [0, 1, 2, 3, 4, 5, 7, 8, 9, 12, 13, 24, 25, 26, 49, 50, 51, 60]
        pages = [1, 2, 3, 4, 5, 8, 12, 13, 25]
    else:
        ns = list(range(0, 61))
        pages = list(range(1, 26))
    for style in GRID_STYLES:
        for n in ns:
            for page in pages:
                yield {"style": style, "n": n, "page": page, "ret": "returning", "sort": True, "page_via": "engine" if (n + page) % 2 else "exec_opt",
                       "paramstyle": "qmark", "scramble": "rev", "extras": [], "salt": (n * 7 + page) % 61, "upsert": "none", "ret_expr": False}


def _geom_grid_cases(tier):
    """rows x page size x dialect max-parameters limit, for batched configurations (client-side sentinel sorted; plain unsorted)"""
    if tier == "quick":
        ns, mps, pages = [1, 2, 3, 4, 5, 6, 7, 8, 9, 10, 13, 15, 16, 21], [4, 9, 25], [3, 7, 1000]
    else:
        ns, mps, pages = list(range(1, 31)), [4, 5, 6, 9, 14, 25, 60], [2, 3, 5, 7, 1000]
    for style, sort in [("uuid_pk", True), ("sent_col", True), ("autoinc", False), ("nopk", False), ("composite", True)]:
        for mp in mps:
            for page in pages:
                for n in ns:
                    yield {"style": style, "n": n, "page": page, "ret": "returning", "sort": sort, "page_via": "engine" if (n + mp) % 2 else "exec_opt",
                           "paramstyle": ["qmark", "named", "numeric_dollar"][(n + page) % 3], "scramble": "rev", "extras": ["val"] if mp % 2 else [],
                           "salt": (n * 5 + mp) % 61, "upsert": "none", "ret_expr": False, "max_params": mp}


def subs(tier):
    return [
        Enumerated("grid", check_live, cases=_grid_cases),
        Enumerated("geom_grid", check_live, cases=_geom_grid_cases),
        Generated("live", check_live, strategy=_live_cases(), quick=2000, thorough=30000),
        Generated("orm", check_orm, strategy=_orm_cases(), quick=600, thorough=10000),
        Generated("rec", check_rec, strategy=_rec_cases(), quick=1200, thorough=20000),
    ]
