"""C56 - upsert statements insert or update exactly as their conflict clause says.

Live tier (SQLite): an insert-or-update reference model is applied row by row
in parameter order and compared with the table and the RETURNING rows after the
SQLAlchemy statement ran (single / executemany / multi-VALUES / insertmanyvalues
with RETURNING, 1-2 ON CONFLICT clauses, partial unique index targets,
``excluded`` references, per-row bound parameters in SET, WHERE).

Recording tier: the same construct built with ``postgresql.insert`` runs through
a psycopg2 dialect engine (paramstyle qmark) whose recording DBAPI hands every
emitted statement to a raw SQLite connection (the ON CONFLICT grammar subset
both databases share); ``mysql.insert(..).on_duplicate_key_update`` is compiled
for MySQL / MariaDB and its clause is parsed back and evaluated.
"""
from __future__ import annotations

import re
import sqlite3

from hypothesis import strategies as st

from checks import _dmlutil as du
from vf.api import Generated, Violation

PROPERTY = "C56"
LEVEL = "exploration"
RULE = (
    "drawn: existing rows 0-6 and 1-8 parameter sets over small value domains (conflicts on PK, on a unique column, on a composite unique, "
    "on a partial unique index, on several at once, duplicates within the batch), 1-2 ON CONFLICT clauses (DO NOTHING with/without target, "
    "DO UPDATE with index_elements as strings or columns, index_where, set_ of literals / excluded.col / target.col arithmetic / per-row "
    "bindparam, where=), executed as single, executemany, multi-VALUES and executemany+RETURNING (sort_by_parameter_order on/off, page size "
    "1-5, permuting cursor); pg_on_sqlite: same programs through postgresql.insert + psycopg2 dialect, statements executed on raw SQLite; "
    "mysql_clause: drawn ON DUPLICATE KEY UPDATE set-lists (kwargs/dict/ordered tuples) x 6 drivers x VALUES()/alias form; siblings: histories of 2-5 upserts on ONE SQLite engine (compiled cache on) plus a no-cache twin engine, "
    "each statement derived from a base clause by toggling exactly one element {where value, where present/absent, where structure, set_ value, set_ keys, "
    "index_elements/index_where, excluded vs literal, do_nothing vs do_update}, forward and reverse order, first statement optionally repeated last, every "
    "statement judged against the model from the same initial rows, plus cache-key soundness over the history; cachekey: the same sibling families for the "
    "sqlite / postgresql / mysql constructs at compile level (equal _generate_cache_key() => equal SQL and correct extracted parameters). Non-trivial: the batch has both conflicting and non-conflicting sets, or a fired SET references excluded, or "
    "a where/index_where decides; distinct = canonical JSON of the case"
)
ASSUMPTIONS = [
    "SQLite 3.40 upsert semantics are the trusted base: clauses are tested in order, the first whose target is violated fires; a targetless "
    "last clause catches any remaining uniqueness violation; any other violation raises (IntegrityError); rows of one statement are processed "
    "in VALUES order, each seeing the previous ones (rules probed on raw sqlite3 and stated in dialects/sqlite/base.py 'Specifying Multiple ON CONFLICT Clauses')",
    "NULLs never conflict; a partial unique index only constrains rows satisfying its predicate",
    "after an IntegrityError only 'raised in both' and the rolled-back table are compared (how much of an executemany ran is driver specific)",
    "PostgreSQL tier executes the psycopg2-dialect rendering on SQLite, so PostgreSQL-only semantics (cannot affect a row twice, ON CONSTRAINT) "
    "are out of scope; MySQL tier checks the rendered clause structurally and by evaluation, never against a server",
    "MySQL tier: assignment keys are column-key strings (documented form); the MySQL 8 row-alias form is switched on by setting the dialect flag that "
    "initialize() derives from the server version; MySQL evaluates ON DUPLICATE KEY UPDATE assignments left to right",
    "cache-key soundness uses _generate_cache_key(), compile(cache_key=...) and construct_params(extracted_parameters=...) - the path the engine's compiled "
    "cache takes; for MySQL (no WHERE in ON DUPLICATE KEY UPDATE) the where-toggles are folded into one more assignment",
    "per-row bindparam() in DO UPDATE SET is in scope (issue #13130 handling in SQLCompiler._deliver_insertmanyvalues_batches)",
]

COLS = ["id", "u", "a", "b", "p", "act", "v", "note"]
CONSTRAINTS = ["id", "u", "ab", "pp"]  # pp = partial unique index on (p) where act = 1


# ------------------------------------------------------------------ reference model
class ModelIntegrityError(Exception):
    pass


def _violations(rows, r, skip=None):
    """names of uniqueness constraints row r violates against rows (skip = index of the row itself)"""
    out = []
    for name in CONSTRAINTS:
        for i, o in enumerate(rows):
            if i == skip:
                continue
            if _conflict(name, o, r):
                out.append((name, i))
                break
    return out


def _conflict(name, o, r):
    if name == "id":
        return r["id"] is not None and o["id"] == r["id"]
    if name == "u":
        return r["u"] is not None and o["u"] == r["u"]
    if name == "ab":
        return r["a"] is not None and r["b"] is not None and (o["a"], o["b"]) == (r["a"], r["b"])
    if name == "pp":
        return r["act"] == 1 and o["act"] == 1 and r["p"] is not None and o["p"] == r["p"]
    raise ValueError(name)


def _ev(e, tgt, exc, bp):
    k = e[0]
    if k == "const":
        return e[1]
    if k == "exc":
        return exc[e[1]]
    if k == "tgt":
        return tgt[e[1]]
    if k in ("bp", "bpd"):
        return bp[e[1]]
    if k == "add":
        x, y = _ev(e[1], tgt, exc, bp), _ev(e[2], tgt, exc, bp)
        return None if x is None or y is None else x + y
    raise ValueError(e)


def _cond(c, tgt, exc, bp):
    """SQL three-valued logic collapsed: unknown -> False"""
    if c is None:
        return True
    k = c[0]
    if k == "isnull":
        return _ev(c[1], tgt, exc, bp) is None
    x, y = _ev(c[1], tgt, exc, bp), _ev(c[2], tgt, exc, bp)
    if x is None or y is None:
        return False
    return {"lt": x < y, "ne": x != y, "eq": x == y, "ge": x >= y}[k]


def model_apply(rows, r, clauses, bp, trace):
    """apply one proposed row; returns the RETURNING snapshot (dict) or None.
    rows: list of dict (mutated). raises ModelIntegrityError."""
    r = dict(r)
    if r["id"] is None:
        r["id"] = max([o["id"] for o in rows], default=0) + 1
    viol = _violations(rows, r)
    if not viol:
        rows.append(r)
        trace.append("insert")
        return dict(r)
    vnames = {n: i for n, i in viol}
    for cl in clauses:
        tgt = cl.get("target")
        if tgt is None:
            hit = viol[0][1]
        elif tgt in vnames:
            hit = vnames[tgt]
        else:
            continue
        if cl["action"] == "nothing":
            trace.append("nothing")
            return None
        cur = rows[hit]
        if not _cond(cl.get("where"), cur, r, bp):
            trace.append("where-false")
            return None
        new = dict(cur)
        for col, e in cl["set"]:
            new[col] = _ev(e, cur, r, bp)
        if _violations(rows, new, skip=hit):
            trace.append("update-violates")
            raise ModelIntegrityError(f"update of row id={cur['id']} violates another constraint")
        rows[hit] = new
        trace.append("update" + ("+excluded" if any(_uses(e, "exc") for _, e in cl["set"]) else "") + ("+where" if cl.get("where") else "")
                     + ("+index_where" if tgt == "pp" else ""))
        return dict(new)
    trace.append("uncaught")
    raise ModelIntegrityError(f"violates {sorted(vnames)} not named by any clause")


def _uses(e, kind):
    if e[0] == kind or (kind == "bp" and e[0] == "bpd"):
        return True
    return any(isinstance(x, list) and _uses(x, kind) for x in e[1:])


def _subst(e, old, new):
    if not isinstance(e, list):
        return e
    if e and e[0] == old:
        return [new] + e[1:]
    return [_subst(x, old, new) for x in e]


# ------------------------------------------------------------------ building the real thing
DDL = [
    "CREATE TABLE t (id INTEGER PRIMARY KEY, u VARCHAR(10), a INTEGER, b INTEGER, p INTEGER, act INTEGER, v INTEGER, note VARCHAR(60), "
    "UNIQUE (u), UNIQUE (a, b))",
    "CREATE UNIQUE INDEX ix_pp ON t (p) WHERE act = 1",
]


def _table(sa):
    m = sa.MetaData()
    t = sa.Table(
        "t", m,
        sa.Column("id", sa.Integer, primary_key=True), sa.Column("u", sa.String(10), unique=True), sa.Column("a", sa.Integer),
        sa.Column("b", sa.Integer), sa.Column("p", sa.Integer), sa.Column("act", sa.Integer), sa.Column("v", sa.Integer),
        sa.Column("note", sa.String(60)), sa.UniqueConstraint("a", "b"),
    )
    sa.Index("ix_pp", t.c.p, unique=True, sqlite_where=t.c.act == 1, postgresql_where=t.c.act == 1)
    return m, t


def _expr(sa, e, t, stmt, excl):
    k = e[0]
    if k == "const":
        return e[1]
    if k == "exc":
        return excl[e[1]]
    if k == "tgt":
        return t.c[e[1]]
    if k == "bp":
        return sa.bindparam(e[1], type_=t.c.v.type)
    if k == "bpd":  # a bindparam that carries a default value, overridden by every parameter set
        return sa.bindparam(e[1], -1, type_=t.c.v.type)
    if k == "add":
        x, y = _expr(sa, e[1], t, stmt, excl), _expr(sa, e[2], t, stmt, excl)
        if not hasattr(x, "__clause_element__") and not isinstance(x, sa.sql.ClauseElement):
            x = sa.literal(x)
        return x + y
    raise ValueError(e)


def _where(sa, c, t, stmt, excl):
    if c is None:
        return None
    k = c[0]
    x = _expr(sa, c[1], t, stmt, excl)
    if not isinstance(x, sa.sql.ClauseElement):
        x = sa.literal(x)
    if k == "isnull":
        return x.is_(None)
    y = _expr(sa, c[2], t, stmt, excl)
    return {"lt": lambda: x < y, "ne": lambda: x != y, "eq": lambda: x == y, "ge": lambda: x >= y}[k]()


def _target_args(t, cl, names_as):
    tgt = cl.get("target")
    if tgt is None:
        return {}
    cols = {"id": ["id"], "u": ["u"], "ab": ["a", "b"], "pp": ["p"]}[tgt]
    elems = cols if names_as == "str" else [t.c[c] for c in cols]
    kw = {"index_elements": elems}
    if tgt == "pp":
        kw["index_where"] = t.c.act == 1
    return kw


def _apply_clauses(sa, stmt, t, clauses, names_as, set_keys_as):
    for cl in clauses:
        kw = _target_args(t, cl, names_as)
        if cl["action"] == "nothing":
            stmt = stmt.on_conflict_do_nothing(**kw)
        else:
            set_ = {}
            for col, e in cl["set"]:
                set_[col if set_keys_as == "str" else t.c[col]] = _expr(sa, e, t, stmt, stmt.excluded)
            w = _where(sa, cl.get("where"), t, stmt, stmt.excluded)
            stmt = stmt.on_conflict_do_update(set_=set_, where=w, **kw)
    return stmt


def _normalize_case(case):
    """make the drawn program valid by construction (targetless clause last and DO NOTHING only; bp only where rows can carry it)"""
    clauses = []
    for i, cl in enumerate(case["clauses"][:2]):
        cl = dict(cl)
        last = i == len(case["clauses"][:2]) - 1
        if cl.get("target") is None and (not last or cl["action"] != "nothing"):
            cl["target"] = "id"
        if cl["action"] == "update":
            seen, st_ = set(), []
            for col, e in cl["set"]:
                if col not in seen:
                    seen.add(col)
                    st_.append([col, e])
            cl["set"] = st_ or [["v", ["exc", "v"]]]
        clauses.append(cl)
    if len(clauses) == 2 and clauses[0].get("target") == clauses[1].get("target"):
        clauses[1]["target"] = "u" if clauses[0].get("target") != "u" else "id"
    return clauses


def _rows_from(specs, with_id, prefix, clauses=(), pool=()):
    """concrete rows from intent specs [intent, ref, v, act, unull]: every row starts with values that collide with nothing and then copies
    the key of constraint `intent` from an earlier row (existing rows + previous rows of the batch), so programs are valid by construction"""
    out = []
    pool = list(pool)
    base = 100 if prefix == "n" else 0
    for i, sp in enumerate(specs):
        intent, ref, v, act, unull = sp
        ix = base + i
        r = {"id": (ix + 1) if with_id else None, "u": None if unull else "u%d" % ix, "a": ix, "b": ix % 3, "p": ix, "act": act, "v": v,
             "note": "%s%d" % (prefix, i)}
        if intent in ("c0", "c1"):
            k = min(int(intent[1]), len(clauses) - 1) if clauses else 0
            intent = clauses[k].get("target") if clauses and clauses[k].get("target") else ["id", "u", "ab", "pp"][ref % 4]
        elif intent == "other":  # a constraint no clause names (raises unless a targetless clause catches it)
            named = {cl.get("target") for cl in clauses}
            rest = [c for c in ["id", "u", "ab", "pp"] if c not in named]
            intent = rest[ref % len(rest)] if rest else "none"
        cands = [o for o in pool if intent != "pp" or o["act"] == 1]
        if intent == "u":
            cands = [o for o in cands if o["u"] is not None]
        if intent != "none" and cands:
            o = cands[ref % len(cands)]
            if intent == "id" and with_id:
                r["id"] = o["id"]
            elif intent == "u":
                r["u"] = o["u"]
            elif intent == "ab":
                r["a"], r["b"] = o["a"], o["b"]
            elif intent == "pp":
                r["p"], r["act"] = o["p"], 1
            elif intent == "id+u" and with_id and o["u"] is not None:
                r["id"], r["u"] = o["id"], o["u"]
        out.append(r)
        pool.append(r)
    return out


def _snapshot(raw_rows):
    return sorted([tuple(r) for r in raw_rows], key=repr)


def _model_run(existing, rows, clauses, bps):
    """returns (table, returned snapshots (None for no row), trace, error)"""
    table = [dict(r) for r in existing]
    ret, trace = [], []
    try:
        for r, bp in zip(rows, bps):
            ret.append(model_apply(table, r, clauses, bp, trace))
        return table, ret, trace, None
    except ModelIntegrityError as e:
        return None, None, trace, e


def _seed_existing(specs):
    """existing rows: keep those the constraints accept"""
    table = []
    for r in _rows_from(specs, True, "e"):
        if _violations(table, r):
            continue
        table.append(r)
    return table


def _classes(trace, mode, clauses, rows):
    cls = {"mode=" + mode, "clauses=%d" % len(clauses)}
    cls.update("fired=" + t for t in set(trace))
    kinds = set(trace)
    if "insert" in kinds and len(kinds) > 1:
        cls.add("mixed-batch")
    return cls


class _PgOnSqlite:
    """the "server" behind the psycopg2-dialect recording engine: every statement the dialect emits is executed on a raw SQLite
    connection (shared ON CONFLICT grammar); multi-row RETURNING results are answered reversed"""

    def __init__(self):
        self.raw = sqlite3.connect(":memory:", isolation_level=None)
        for d in DDL:
            self.raw.execute(d)
        self.unsupported = []
        self.multi = 0

    def seed(self, existing):
        for r in existing:
            self.raw.execute("INSERT INTO t (id,u,a,b,p,act,v,note) VALUES (?,?,?,?,?,?,?,?)", tuple(r[c] for c in COLS))
        self.raw.execute("BEGIN")

    def table(self):
        return self.raw.execute("SELECT id,u,a,b,p,act,v,note FROM t").fetchall()

    def rollback(self):
        if self.raw.in_transaction:
            self.raw.execute("ROLLBACK")

    def result_for(self, statement, parameters):
        stl = statement.lstrip()
        if stl[:6].upper() != "INSERT":
            return None
        if isinstance(parameters, list):  # cursor.executemany()
            for one in parameters:
                self.result_for(statement, one)
            return None
        sql = " ".join(statement.split())
        params = list(parameters or ())
        if "FROM (VALUES" in sql or "::" in sql:
            self.unsupported.append("pg-only INSERT..SELECT sentinel form")
            raise _Unsupported()
        # PostgreSQL binds the partial-index predicate; SQLite only infers a partial index from a literal predicate
        m = re.search(r"ON CONFLICT \(p\) WHERE act = \?", sql)
        while m:
            pos = sql[: m.end()].count("?") - 1
            val = params.pop(pos)
            if not isinstance(val, int):
                raise _Unsupported()
            sql = sql[: m.end() - 1] + str(val) + sql[m.end():]
            m = re.search(r"ON CONFLICT \(p\) WHERE act = \?", sql)
        cur = self.raw.execute(sql, tuple(params))
        if cur.description is None:
            return None
        data = cur.fetchall()
        if len(data) > 1:
            self.multi += 1
            data = data[::-1]
        return [d[0] for d in cur.description], data


class _Unsupported(Exception):
    pass


def check_live(case, ctx):
    _run(case, ctx, "sqlite")


def check_pg(case, ctx):
    _run(case, ctx, "pg")


def _run(case, ctx, backend):
    import sqlalchemy as sa

    if backend == "sqlite":
        from sqlalchemy.dialects.sqlite import insert as sl_insert
    else:
        from sqlalchemy.dialects.postgresql import insert as sl_insert
        from vf import fakedb

    clauses = _normalize_case(case)
    if backend == "pg":
        clauses = clauses[:1]  # PostgreSQL accepts a single ON CONFLICT clause
    mode = case["mode"]
    with_id = case.get("with_id", True)
    existing = _seed_existing(case["existing"])
    rows = _rows_from(case["rows"], with_id, "n", clauses, existing)
    if backend == "sqlite" and mode in ("many", "many_returning") and len(rows) > 1 and any(cl.get("target") == "pp" for cl in clauses) and not case.get("pinned"):
        # known finding: the SQLite compiler renders index_where with literal_execute, which executemany refuses
        ctx.exclude("index_where (partial index target) with executemany on SQLite (known finding)")
        mode = {"many": "multi_values", "many_returning": "multi_values_returning"}[mode]
    if mode in ("single_params", "single_values"):
        rows = rows[:1]
    upd = [cl for cl in clauses if cl["action"] == "update"]
    pinned = bool(case.get("pinned"))
    sort = bool(case.get("sort"))
    if any(_uses(e, "bpd") for cl in upd for _, e in cl["set"]) and not pinned:
        # known finding: a SET bindparam that has a default value is not detected as per-row (has_upsert_bound_parameters) -> batched with the first row's value
        ctx.exclude("DO UPDATE SET bindparam with a default value + executemany RETURNING (known finding)")
        for cl in upd:
            cl["set"] = [[c, _subst(e, "bpd", "bp")] for c, e in cl["set"]]
    bp_in_where = any(cl.get("where") and any(isinstance(x, list) and _uses(x, "bp") for x in cl["where"][1:]) for cl in upd)
    bpd_in_set = any(_uses(e, "bpd") for cl in upd for _, e in cl["set"])
    if False and bp_in_where and mode == "many_returning" and not sort and len(rows) > 1 and not pinned:  # repaired in /repo (fix: 431b92d): no longer excluded
        # known finding: per-row bindparam in DO UPDATE .. WHERE is batched by insertmanyvalues with the first row's value
        ctx.exclude("per-row bindparam in DO UPDATE WHERE + batched executemany RETURNING (known finding)")
        sort = True
    uses_bp = bp_in_where or any(_uses(e, "bp") for cl in upd for _, e in cl["set"])
    bpvals = [{"bpv": (case.get("bp_seed", 0) + 7 * i) % 23} for i in range(len(rows))]
    if mode in ("multi_values", "multi_values_returning", "single_values"):
        bpvals = [bpvals[0]] * len(rows)  # one statement, one value for the bound parameter
    m_table, m_ret, trace, m_err = _model_run(existing, rows, clauses, bpvals)

    fired = set(trace)
    nontrivial = ("insert" in fired and len(fired) > 1) or any(("excluded" in f or "where" in f) for f in fired)
    cls = _classes(trace, mode, clauses, rows)
    if m_err is not None:
        cls.add("integrity-error")
    if uses_bp:
        cls.add("bound-param-in-set")
    ctx.note(case, nontrivial, classes=sorted(cls))

    stats = {}
    srv = None
    if backend == "sqlite":
        eng = du.sqlite_engine(case.get("paramstyle", "qmark"), case.get("scramble", "rev"), stats, insertmanyvalues_page_size=case.get("page", 3))
        integrity = (sa.exc.IntegrityError,)
    else:
        eng, db = fakedb.recording_engine("postgresql+psycopg2://", paramstyle="qmark", insertmanyvalues_page_size=case.get("page", 3))
        srv = _PgOnSqlite()
        db.result_for = srv.result_for
        integrity = (sa.exc.IntegrityError, sqlite3.IntegrityError)
    try:
        m, t = _table(sa)
        if backend == "sqlite":
            m.create_all(eng)
        with eng.connect() as conn:
            if backend == "sqlite":
                for r in existing:
                    conn.exec_driver_sql("INSERT INTO t (id,u,a,b,p,act,v,note) VALUES (?,?,?,?,?,?,?,?)", tuple(r[c] for c in COLS))
                conn.commit()
                read_table = lambda: conn.exec_driver_sql("SELECT id,u,a,b,p,act,v,note FROM t").all()  # noqa: E731
                rollback = conn.rollback
            else:
                srv.seed(existing)
                read_table = srv.table

                def rollback():
                    conn.rollback()
                    srv.rollback()
            stmt = _apply_clauses(sa, sl_insert(t), t, clauses, case.get("names_as", "col"), case.get("set_keys_as", "str"))
            keys = COLS if with_id else COLS[1:]
            plist = [{k: r[k] for k in keys} for r in rows]
            returning = mode in ("many_returning", "multi_values_returning") or (mode.startswith("single") and case.get("single_returning"))
            if returning:
                stmt = stmt.returning(*[t.c[c] for c in COLS], **({"sort_by_parameter_order": True} if (sort and mode == "many_returning") else {}))
            got_err = None
            result_rows = None
            try:
                if mode == "single_params":
                    p = dict(plist[0])
                    if uses_bp:
                        p.update(bpvals[0])
                    res = conn.execute(stmt, p)
                elif mode == "single_values":
                    res = conn.execute(stmt.values(**plist[0]), bpvals[0] if uses_bp else {})
                elif mode in ("many", "many_returning"):
                    ps = [dict(p, **(bp if uses_bp else {})) for p, bp in zip(plist, bpvals)]
                    res = conn.execute(stmt, ps)
                else:
                    res = conn.execute(stmt.values(plist), bpvals[0] if uses_bp else {})
                if returning:
                    result_rows = [tuple(r) for r in res.all()]
            except integrity as e:
                got_err = e
                rollback()
            except _Unsupported:
                ctx.info("pg: statement outside the grammar subset shared with SQLite (not judged)")
                return
            except sa.exc.StatementError as e:
                if isinstance(e.orig, sa.exc.InvalidRequestError) and "literal_execute" in str(e.orig) and any(cl.get("target") == "pp" for cl in clauses):
                    raise Violation("C56/sqlite/index_where/executemany-refused",
                                    "on_conflict_*(index_where=...) cannot be executed with a list of parameter sets on SQLite: " + str(e.orig)[:160],
                                    observed=str(e)[:400], expected="executemany upsert against the partial unique index")
                raise
            if m_err is not None:
                if got_err is None:
                    rollback()
                    raise Violation(f"C56/{backend}/no-integrity-error", f"model: {m_err}; statement succeeded ({mode}, clauses {clauses})", expected="IntegrityError")
                after = _snapshot(read_table())
                if after != _snapshot([tuple(r[c] for c in COLS) for r in existing]):
                    raise Violation(f"C56/{backend}/rollback-state", "table differs from the initial rows after IntegrityError + rollback", observed=after)
                return
            if got_err is not None:
                raise Violation(f"C56/{backend}/unexpected-integrity-error", f"{str(getattr(got_err, 'orig', got_err))[:120]} but the model accepts every row ({mode}, trace {trace})",
                                observed=str(got_err)[:400], expected="success")
            after = _snapshot(read_table())
            want = _snapshot([tuple(r[c] for c in COLS) for r in m_table])
            if after != want:
                sig = f"C56/{backend}/table-state/" + mode
                if mode == "many_returning" and bpd_in_set:
                    sig = "C56/upsert-bound-param/set-default-valued-bindparam-batched"
                elif mode == "many_returning" and bp_in_where and not sort:
                    sig = "C56/upsert-bound-param/where-clause-batched"
                elif uses_bp and mode in ("many", "many_returning"):
                    sig = f"C56/{backend}/table-state/bound-set-param/" + mode
                raise Violation(sig, f"table differs from the insert-or-update model ({mode}, clauses {clauses}, trace {trace})", observed=after, expected=want)
            if returning:
                exp = [tuple(r[c] for c in COLS) for r in m_ret if r is not None]
                ordered = mode.startswith("single") or (mode == "many_returning" and sort)
                if ordered:
                    if result_rows != exp:
                        raise Violation(f"C56/{backend}/returning-order/" + mode, f"RETURNING rows differ from the affected rows in parameter order (trace {trace})",
                                        observed=result_rows, expected=exp)
                elif _snapshot(result_rows) != _snapshot(exp):
                    raise Violation(f"C56/{backend}/returning-rows/" + mode, f"RETURNING rows differ from the affected rows (trace {trace})", observed=_snapshot(result_rows), expected=_snapshot(exp))
            rollback()
    finally:
        eng.dispose()
        if srv is not None:
            srv.raw.close()


# ------------------------------------------------------------------ MySQL / MariaDB ON DUPLICATE KEY UPDATE (structural + evaluated)
MYSQL_DRIVERS = {
    "mysql_pymysql": "mysql+pymysql://", "mysql_mysqldb": "mysql+mysqldb://", "mysql_connector": "mysql+mysqlconnector://",
    "mysql_aiomysql": "mysql+aiomysql://", "mariadb_connector": "mariadb+mariadbconnector://", "mariadb_pymysql": "mariadb+pymysql://",
}


class _ClauseEval:
    """evaluates the right-hand side of one rendered assignment: VALUES(col) | new.col | t.col | col | placeholder | NULL | (a + b ..) | concat(a, b ..)"""

    def __init__(self, text, base, positions, cur, proposed, alias):
        self.t, self.base, self.pos_map, self.cur, self.prop, self.alias = text, base, positions, cur, proposed, alias
        self.i = 0
        self.binds = 0

    def ws(self):
        while self.i < len(self.t) and self.t[self.i] == " ":
            self.i += 1

    def expr(self):
        v = self.term()
        self.ws()
        while self.i < len(self.t) and self.t[self.i] == "+":
            self.i += 1
            w = self.term()
            v = None if v is None or w is None else v + w
            self.ws()
        return v

    def term(self):
        self.ws()
        t, i = self.t, self.i
        if self.base + i in self.pos_map:
            end, val, _ = self.pos_map[self.base + i]
            self.i = end - self.base
            self.binds += 1
            return val
        if t.startswith("(", i):
            self.i += 1
            v = self.expr()
            self.ws()
            if not t.startswith(")", self.i):
                raise du.ParseError(f"expected ) at {self.i} in {t!r}")
            self.i += 1
            return v
        m = re.compile(r"concat\(").match(t, i)
        if m:
            self.i = m.end()
            parts = [self.expr()]
            self.ws()
            while t.startswith(",", self.i):
                self.i += 1
                parts.append(self.expr())
                self.ws()
            if not t.startswith(")", self.i):
                raise du.ParseError(f"expected ) closing concat in {t!r}")
            self.i += 1
            return None if any(p is None for p in parts) else "".join(str(p) for p in parts)
        m = re.compile(r"VALUES\(`?(\w+)`?\)").match(t, i)
        if m:
            if self.alias:
                raise du.ParseError("VALUES() used although the row alias form is required")
            self.i = m.end()
            return self.prop[m.group(1)]
        m = re.compile(r"(new|t)\.`?(\w+)`?").match(t, i)
        if m:
            self.i = m.end()
            if m.group(1) == "new":
                if not self.alias:
                    raise du.ParseError("row alias used although VALUES() form expected")
                return self.prop[m.group(2)]
            return self.cur[m.group(2)]
        m = re.compile(r"NULL\b").match(t, i)
        if m:
            self.i = m.end()
            return None
        m = re.compile(r"`?(\w+)`?").match(t, i)
        if m and m.group(1) in self.cur:
            self.i = m.end()
            return self.cur[m.group(1)]
        raise du.ParseError(f"cannot parse {t[i:i + 30]!r}")


def check_mysql(case, ctx):
    import sqlalchemy as sa
    from sqlalchemy.dialects.mysql import insert as my_insert
    from vf import fakedb

    m, t = _table(sa)
    cur = _rows_from([case["cur"]], True, "e")[0]
    prop = _rows_from([case["row"]], True, "n")[0]
    prop["id"] = cur["id"]
    seen, set_ = set(), []
    for col, e in case["set"]:
        if col not in seen and not _uses(e, "bp"):
            seen.add(col)
            set_.append([col, e])
    if not set_:
        set_ = [["v", ["exc", "v"]]]
    form = case["form"]
    alias = bool(case["alias"]) and case["driver"].startswith("mysql")
    eng, db = fakedb.recording_engine(MYSQL_DRIVERS[case["driver"]])
    eng.dialect._requires_alias_for_on_duplicate_key = alias  # what initialize() derives from MySQL >= 8.0.20
    try:
        stmt = my_insert(t)
        many = bool(case.get("many"))
        if not many:
            stmt = stmt.values(**prop)
        # keys are column key strings (the documented form for MySQL; Column objects as keys are only documented for sqlite/postgresql)
        pairs = [(col, _expr(sa, e, t, stmt, stmt.inserted)) for col, e in set_]
        if form == "kwargs":
            stmt = stmt.on_duplicate_key_update(**{(k if isinstance(k, str) else k.key): v for k, v in pairs})
        elif form == "dict":
            stmt = stmt.on_duplicate_key_update(dict(pairs))
        else:
            stmt = stmt.on_duplicate_key_update(pairs)
        got = []
        db.result_for = lambda s_, p_: got.append((s_, p_)) or None
        with eng.connect() as conn:
            if many:
                other = dict(prop, id=prop["id"] + 50, note="other")
                conn.execute(stmt, [other, prop])
            else:
                conn.execute(stmt)
        ins = [(s_, p_) for s_, p_ in got if s_.lstrip().upper().startswith("INSERT")]
        if len(ins) != 1:
            raise Violation("C56/mysql/statement-count", f"{len(ins)} INSERT statements captured")
        statement, params = ins[0]
        if many:
            if not isinstance(params, list) or len(params) != 2:
                raise Violation("C56/mysql/executemany-shape", f"expected cursor.executemany with 2 sets, got {type(params).__name__}")
            params = params[1]
        # model: MySQL evaluates the assignments left to right, each seeing the previous ones
        order = [c for c, _ in set_] if form == "tuples" else [c for c in COLS if c in {c2 for c2, _ in set_}]
        by = dict((c, e) for c, e in set_)
        want = dict(cur)
        for c in order:
            want[c] = _ev(by[c], want, prop, {})
        ordered_matters = form == "tuples" and order != [c for c in COLS if c in by] and any(_uses(e, "tgt") for e in by.values())
        ctx.note(case, any(_uses(e, "exc") for e in by.values()) or len(order) > 1,
                 classes=[case["driver"], "form=" + form, "alias" if alias else "values()", "many" if many else "single", "nset=%d" % len(order)]
                 + (["order-sensitive"] if ordered_matters else []))
        stx = " ".join(statement.split())
        k = stx.find(" ON DUPLICATE KEY UPDATE ")
        if k < 0:
            raise Violation("C56/mysql/clause-missing", stx[:300])
        head = stx[:k]
        if alias != head.endswith(" AS new"):
            raise Violation("C56/mysql/alias-form", f"alias required={alias} but statement head ends {head[-20:]!r}")
        res = du._Resolver(stx, params, eng.dialect.paramstyle)
        base = k + len(" ON DUPLICATE KEY UPDATE ")
        clause = stx[base:]
        spans = du._split_item_spans(stx, base, len(stx))
        got_row = dict(cur)
        got_order = []
        nbinds = 0
        try:
            for a, b in spans:
                item = stx[a:b]
                mm = re.match(r"\s*`?(\w+)`? = ", item)
                if not mm:
                    raise du.ParseError(f"not an assignment: {item!r}")
                ev = _ClauseEval(item[mm.end():], a + mm.end(), res.positions, got_row, prop, alias)
                val = ev.expr()
                ev.ws()
                if ev.i != len(ev.t):
                    raise du.ParseError(f"trailing text {ev.t[ev.i:]!r}")
                got_row[mm.group(1)] = val
                got_order.append(mm.group(1))
                nbinds += ev.binds
        except du.ParseError as e:
            raise Violation("C56/mysql/clause-not-understood", f"{e} in {clause!r}")
        if got_order != order:
            raise Violation("C56/mysql/assignment-order", f"assignments rendered in order {got_order}, construct says {order} (form {form})", observed=got_order, expected=order)
        if got_row != want:
            raise Violation("C56/mysql/assignment-value", f"evaluating the rendered clause gives {got_row}, the construct's arguments give {want}; clause {clause!r} params {params!r}",
                            observed=got_row, expected=want)
        # the VALUES part binds the proposed row
        info_vals = stx[: k]
        mcols = re.match(r"INSERT INTO t \((.*?)\) VALUES \(", info_vals)
        if not mcols:
            raise Violation("C56/mysql/values-not-understood", info_vals[:200])
        cols = [c.strip().strip("`") for c in mcols.group(1).split(",")]
        vstart = mcols.end() - 1
        vend = du._balanced(stx, vstart)
        vals = []
        for a, b in du._split_item_spans(stx, vstart + 1, vend - 1):
            lead = a + (len(stx[a:b]) - len(stx[a:b].lstrip()))
            if lead not in res.positions:
                raise Violation("C56/mysql/values-not-understood", stx[a:b])
            vals.append(res.positions[lead][1])
        if dict(zip(cols, vals)) != {c: prop[c] for c in cols}:
            raise Violation("C56/mysql/values-binds", f"VALUES binds {dict(zip(cols, vals))}, proposed row {prop}")
    finally:
        eng.dispose()


@st.composite
def _mysql_cases(draw):
    return {
        "driver": draw(st.sampled_from(sorted(MYSQL_DRIVERS))), "alias": draw(st.booleans()),
        "cur": ["none", 0, draw(st.integers(0, 9)), 1, draw(st.booleans())], "row": ["none", 0, draw(st.integers(0, 9)), draw(st.integers(0, 1)), draw(st.booleans())],
        "set": draw(st.lists(_set_item, min_size=1, max_size=4)), "form": draw(st.sampled_from(["kwargs", "dict", "tuples", "tuples"])),
        "many": draw(st.booleans()), "keys_as": draw(st.sampled_from(["str", "col"])),
    }


# ------------------------------------------------------------------ histories of sibling upserts through one engine cache
TOGGLES = ["where_value", "where_toggle", "where_struct", "set_value", "set_keys", "target", "exc_literal", "action"]


def _deep(x):
    import json

    return json.loads(json.dumps(x))


def _first_const_path(e):
    """path (list of indexes) to the first ['const', int] inside expression e"""
    if isinstance(e, list):
        if e and e[0] == "const" and isinstance(e[1], int):
            return []
        for i, x in enumerate(e):
            if isinstance(x, list):
                p_ = _first_const_path(x)
                if p_ is not None:
                    return [i] + p_
    return None


def _toggle(clauses, kind, arg):
    """derive a sibling clause list from `clauses` by changing exactly one element of the first clause"""
    out = _deep(clauses)
    cl = out[0]
    if kind == "action":
        if cl["action"] == "update":
            out[0] = {"action": "nothing", "target": cl.get("target")}
        else:
            out[0] = {"action": "update", "target": cl.get("target") or "id", "set": [["v", ["exc", "v"]]], "where": None}
        return out
    if kind == "target":
        order = ["id", "u", "ab", "pp"]
        cur = cl.get("target") or "id"
        cl["target"] = order[(order.index(cur) + 1 + arg % 3) % 4]
        return out
    if cl["action"] != "update":
        return out
    if kind == "where_value":
        w = cl.get("where")
        path = _first_const_path(w) if w else None
        if path is None:
            cl["where"] = ["lt", ["tgt", "v"], ["const", 3 + arg]]
        else:
            node = w
            for i in path:
                node = node[i]
            node[1] = node[1] + 1 + arg
    elif kind == "where_toggle":
        cl["where"] = None if cl.get("where") else ["lt", ["tgt", "v"], ["const", 5]]
    elif kind == "where_struct":
        w = cl.get("where")
        if not w or w[0] == "isnull":
            cl["where"] = ["ge", ["exc", "v"], ["tgt", "v"]]
        elif arg % 2 == 0:
            w[0] = {"lt": "ge", "ge": "lt", "ne": "eq", "eq": "ne"}[w[0]]
        else:
            w[1] = ["exc", "v"] if w[1] != ["exc", "v"] else ["tgt", "v"]
    elif kind == "set_value":
        for item in cl["set"]:
            path = _first_const_path(item[1])
            if path is not None:
                node = item[1]
                for i in path:
                    node = node[i]
                node[1] = node[1] + 1 + arg
                break
        else:
            cl["set"][0][1] = ["const", ("k%d" % arg) if cl["set"][0][0] == "note" else 40 + arg]
    elif kind == "set_keys":
        cols = [c for c, _ in cl["set"]]
        if "note" in cols and len(cols) > 1:
            cl["set"] = [it for it in cl["set"] if it[0] != "note"]
        else:
            cl["set"] = [it for it in cl["set"] if it[0] != "note"] + [["note", ["exc", "note"]]]
    elif kind == "exc_literal":
        e = cl["set"][0][1]
        isnote = cl["set"][0][0] == "note"
        cl["set"][0][1] = ["const", "lit" if isnote else 7] if _uses(e, "exc") else ["exc", "note" if isnote else "v"]
    return out


def _sib_base(case):
    cl = dict(case["base"])
    if cl["action"] == "update":
        seen, st_ = set(), []
        for col, e in cl["set"]:
            if col not in seen and col in ("v", "note", "act") and not _uses(e, "bp"):
                seen.add(col)
                st_.append([col, e])
        cl["set"] = st_ or [["v", ["exc", "v"]]]
        w = cl.get("where")
        if w and any(isinstance(x, list) and _uses(x, "bp") for x in w[1:]):
            cl["where"] = ["lt", ["tgt", "v"], ["const", 5]]
    if cl.get("target") is None:
        cl["target"] = "id"
    return [cl]


def _exec_variant(sa, conn, t, insert_fn, clauses, mode, sort, plist, names_as, set_keys_as):
    """runs one upsert in a transaction that is rolled back; returns ('ok', table, returning-rows|None) or ('integrity',)"""
    stmt = _apply_clauses(sa, insert_fn(t), t, clauses, names_as, set_keys_as)
    returning = mode in ("many_returning", "multi_values_returning", "single_returning")
    if returning:
        stmt = stmt.returning(*[t.c[c] for c in COLS], **({"sort_by_parameter_order": True} if (sort and mode == "many_returning") else {}))
    try:
        if mode in ("single", "single_returning"):
            res = conn.execute(stmt, plist[0])
        elif mode in ("many", "many_returning"):
            res = conn.execute(stmt, plist)
        else:
            res = conn.execute(stmt.values(plist))
        rr = [tuple(r) for r in res.all()] if returning else None
        table = _snapshot(conn.exec_driver_sql("SELECT id,u,a,b,p,act,v,note FROM t").all())
        return ("ok", table, rr)
    except sa.exc.IntegrityError:
        return ("integrity",)
    finally:
        conn.rollback()


def check_siblings(case, ctx):
    import sqlalchemy as sa
    from sqlalchemy.dialects.sqlite import insert as sl_insert

    base = _sib_base(case)
    variants = [("base", base)]
    for kind, arg in case["toggles"][:3]:
        variants.append((kind, _toggle(base, kind, arg)))
    if case.get("order") == "rev":
        variants = variants[::-1]
    if case.get("repeat_first"):
        variants.append(variants[0])
    mode = case["mode"]
    sort = bool(case.get("sort"))
    if mode in ("many", "many_returning") and any(cl.get("target") == "pp" for _, cls_ in variants for cl in cls_):
        ctx.exclude("index_where (partial index target) with executemany on SQLite (known finding)")
        mode = "multi_values_returning" if mode == "many_returning" else "multi_values"
    existing = _seed_existing(case["existing"])
    rows = _rows_from(case["rows"], True, "n", base, existing)
    if mode.startswith("single"):
        rows = rows[:1]
    plist = [{k: r[k] for k in COLS} for r in rows]
    ordered = mode.startswith("single") or (mode == "many_returning" and sort)

    # model outcome per variant (each from the same initial rows)
    expected = []
    for kind, cls_ in variants:
        m_table, m_ret, trace, m_err = _model_run(existing, rows, cls_, [{}] * len(rows))
        if m_err is not None:
            expected.append(("integrity", trace))
        else:
            expected.append(("ok", _snapshot([tuple(r[c] for c in COLS) for r in m_table]), [tuple(r[c] for c in COLS) for r in m_ret if r is not None], trace))
    outcomes = {repr(e[:3]) for e in expected}
    classes = {"mode=" + mode, "n=%d" % len(variants), "order=" + case.get("order", "fwd")} | {"toggle=" + k for k, _ in variants if k != "base"}
    if len(outcomes) > 1:
        classes.add("siblings-differ-in-outcome")
    for (k, _), e in zip(variants, expected):
        if k.startswith("where") and repr(e[:3]) != repr(expected[[v[0] for v in variants].index("base")][:3]):
            classes.add("where-sibling-differs-from-base")
    ctx.note(case, len(outcomes) > 1, classes=sorted(classes))

    stats = {}
    engines = {
        "cached": du.sqlite_engine(case.get("paramstyle", "qmark"), "none", stats, insertmanyvalues_page_size=case.get("page", 3)),
        "nocache": du.sqlite_engine(case.get("paramstyle", "qmark"), "none", stats, insertmanyvalues_page_size=case.get("page", 3), query_cache_size=0),
    }
    try:
        m, t = _table(sa)
        got = {}
        for name, eng in engines.items():
            m.create_all(eng)
            res = []
            with eng.connect() as conn:
                for r in existing:
                    conn.exec_driver_sql("INSERT INTO t (id,u,a,b,p,act,v,note) VALUES (?,?,?,?,?,?,?,?)", tuple(r[c] for c in COLS))
                conn.commit()
                for kind, cls_ in variants:
                    res.append(_exec_variant(sa, conn, t, sl_insert, cls_, mode, sort, plist, case.get("names_as", "col"), case.get("set_keys_as", "str")))
            got[name] = res
        for i, ((kind, cls_), exp) in enumerate(zip(variants, expected)):
            for name in ("cached", "nocache"):
                g = got[name][i]
                where = f"statement {i} ({kind}) of {[k for k, _ in variants]} on the {name} engine"
                tag = "sibling-history" if name == "cached" and got["nocache"][i] != g else name
                if exp[0] == "integrity":
                    if g[0] != "integrity":
                        raise Violation(f"C56/siblings/{tag}/no-integrity-error", f"{where}: model raises, statement succeeded; clauses {cls_}")
                    continue
                if g[0] == "integrity":
                    raise Violation(f"C56/siblings/{tag}/unexpected-integrity-error", f"{where}: model accepts every row (trace {exp[3]}); clauses {cls_}")
                if g[1] != exp[1]:
                    raise Violation(f"C56/siblings/{tag}/table-state", f"{where}: table differs from the insert-or-update model (trace {exp[3]}); clauses {cls_}",
                                    observed=g[1], expected=exp[1])
                if g[2] is not None:
                    if (g[2] != exp[2]) if ordered else (_snapshot(g[2]) != _snapshot(exp[2])):
                        raise Violation(f"C56/siblings/{tag}/returning", f"{where}: RETURNING rows differ from the affected rows (trace {exp[3]})", observed=g[2], expected=exp[2])
        # key soundness over the history
        stmts = [_apply_clauses(sa, sl_insert(t).values(**plist[0]), t, cls_, case.get("names_as", "col"), case.get("set_keys_as", "str")) for _, cls_ in variants]
        _key_soundness(sa, stmts, [k for k, _ in variants], engines["cached"].dialect, "sqlite")
    finally:
        for eng in engines.values():
            eng.dispose()


def _positional_values(compiled, params):
    names = list(compiled.bind_names.values())
    return [params[n] for n in names if n in params]


def _key_soundness(sa, stmts, labels, dialect, family):
    """equal cache keys must mean equal SQL and, with the second statement's extracted parameters, the second statement's bound values"""
    keys = [s_._generate_cache_key() for s_ in stmts]
    n_equal = 0
    for i in range(len(stmts)):
        for j in range(i + 1, len(stmts)):
            ki, kj = keys[i], keys[j]
            if ki is None or kj is None or ki.key != kj.key:
                continue
            n_equal += 1
            ci = stmts[i].compile(dialect=dialect, cache_key=ki)
            cj = stmts[j].compile(dialect=dialect)
            if str(ci) != str(cj):
                raise Violation(f"C56/cache-key/{family}/equal-key-different-sql", f"statements {labels[i]} and {labels[j]} have equal cache keys but compile differently",
                                observed=str(ci)[-300:], expected=str(cj)[-300:])
            via_cache = _positional_values(ci, ci.construct_params(extracted_parameters=kj.bindparams))
            direct = _positional_values(cj, cj.construct_params())
            if via_cache != direct:
                raise Violation(f"C56/cache-key/{family}/stale-extracted-parameter", f"statements {labels[i]} and {labels[j]} share a cache key; running the second through the "
                                f"first's compiled form binds {via_cache}, its own compilation binds {direct}", observed=via_cache, expected=direct)
    return n_equal


def check_cachekey(case, ctx):
    """compile-level key soundness for the sqlite / postgresql / mysql upsert constructs"""
    import sqlalchemy as sa

    family = case["family"]
    m, t = _table(sa)
    base = _sib_base(case)
    variants = [("base", base), ("base-again", _deep(base))]
    for kind, arg in case["toggles"][:4]:
        variants.append((kind, _toggle(base, kind, arg)))
    row = _rows_from([case["row"]], True, "n")[0]
    names_as, set_keys_as = case.get("names_as", "col"), case.get("set_keys_as", "str")
    if family == "sqlite":
        from sqlalchemy.dialects.sqlite import insert as ins
        from sqlalchemy.dialects.sqlite import pysqlite

        dialect = pysqlite.dialect()
        stmts = [_apply_clauses(sa, ins(t).values(**row), t, c, names_as, set_keys_as) for _, c in variants]
    elif family == "postgresql":
        from sqlalchemy.dialects.postgresql import insert as ins
        from sqlalchemy.dialects.postgresql import psycopg2

        dialect = psycopg2.dialect()
        stmts = [_apply_clauses(sa, ins(t).values(**row), t, c[:1], names_as, set_keys_as) for _, c in variants]
    else:
        from sqlalchemy.dialects.mysql import insert as ins
        from sqlalchemy.dialects.mysql import mysqldb

        dialect = mysqldb.dialect()
        stmts = []
        for _, c in variants:
            cl = c[0]
            st_ = ins(t).values(**row)
            set_ = cl["set"] if cl["action"] == "update" else [["v", ["tgt", "v"]]]
            pairs = [(col, _expr(sa, e, t, st_, st_.inserted)) for col, e in set_]
            if cl.get("where"):  # no WHERE in MySQL: fold the toggle into one more assignment so that it still changes the statement
                pairs.append(("act", _expr(sa, cl["where"][1], t, st_, st_.inserted)))
            stmts.append(st_.on_duplicate_key_update(pairs if case.get("form") == "tuples" else dict(pairs)))
    labels = [k for k, _ in variants]
    n_equal = _key_soundness(sa, stmts, labels, dialect, family)
    k0, k1 = stmts[0]._generate_cache_key(), stmts[1]._generate_cache_key()
    classes = [family] + ["toggle=" + k for k in labels[2:]] + ["equal-key-pairs=%s" % ("1" if n_equal <= 1 else "2+")]
    ctx.note(case, n_equal >= 2, classes=classes)
    if k0 is None or k1 is None or k0.key != k1.key:
        raise Violation(f"C56/cache-key/{family}/identical-statements-different-key", "the same upsert built twice does not produce the same cache key")


# ------------------------------------------------------------------ strategies
_intent = st.sampled_from(["c0"] * 14 + ["c1"] * 5 + ["none"] * 10 + ["other", "id+u"])
_rowspec = st.tuples(_intent, st.integers(0, 11), st.integers(0, 9), st.sampled_from([0, 1, 1]), st.sampled_from([False, False, False, True])).map(list)
_existing_spec = st.tuples(st.sampled_from(["none", "none", "none", "none", "u", "pp"]), st.integers(0, 11), st.integers(0, 9), st.sampled_from([0, 1, 1]),
                           st.sampled_from([False, False, False, True])).map(list)

_int_expr = st.one_of(
    st.sampled_from([["exc", "v"], ["tgt", "v"], ["const", 99], ["bp", "bpv"], ["exc", "a"], ["const", None]]),
    st.sampled_from([["add", ["tgt", "v"], ["exc", "v"]], ["add", ["exc", "v"], ["const", 100]], ["add", ["tgt", "v"], ["bp", "bpv"]], ["bpd", "bpv"]]),
)
_str_expr = st.sampled_from([["exc", "note"], ["add", ["tgt", "note"], ["exc", "note"]], ["const", "upd"], ["add", ["exc", "note"], ["const", "!"]]])
_set_item = st.one_of(
    st.tuples(st.just("v"), _int_expr), st.tuples(st.just("v"), _int_expr), st.tuples(st.just("note"), _str_expr),
    st.tuples(st.just("u"), st.sampled_from([["exc", "u"], ["const", "u1"], ["tgt", "u"]])),
    st.tuples(st.just("a"), st.sampled_from([["exc", "a"], ["const", 1]])), st.tuples(st.just("act"), st.sampled_from([["exc", "act"], ["const", 1], ["const", 0]])),
    st.tuples(st.just("p"), st.sampled_from([["exc", "p"], ["const", 2]])),
).map(list)
_wherec = st.one_of(
    st.none(), st.none(),
    st.sampled_from([["lt", ["tgt", "v"], ["exc", "v"]], ["ne", ["tgt", "v"], ["const", 5]], ["ge", ["exc", "v"], ["const", 4]], ["isnull", ["tgt", "u"]],
                     ["eq", ["exc", "act"], ["const", 1]], ["lt", ["tgt", "v"], ["bp", "bpv"]], ["ne", ["tgt", "note"], ["exc", "note"]]]),
)
_clause = st.one_of(
    st.fixed_dictionaries({"action": st.just("nothing"), "target": st.sampled_from([None, "id", "u", "ab", "pp"])}),
    st.fixed_dictionaries({"action": st.just("update"), "target": st.sampled_from(["id", "id", "u", "ab", "pp"]),
                           "set": st.lists(_set_item, min_size=1, max_size=3), "where": _wherec}),
    st.fixed_dictionaries({"action": st.just("update"), "target": st.sampled_from(["id", "u", "pp"]),
                           "set": st.lists(_set_item, min_size=1, max_size=2), "where": _wherec}),
)


@st.composite
def _live_cases(draw):
    return {
        "existing": draw(st.lists(_existing_spec, min_size=0, max_size=6)),
        "rows": draw(st.lists(_rowspec, min_size=2, max_size=8)),
        "clauses": draw(st.lists(_clause, min_size=1, max_size=2)),
        "mode": draw(st.sampled_from(["many_returning", "many", "multi_values_returning", "many_returning", "multi_values", "many", "many_returning",
                                      "many_returning", "multi_values_returning", "single_params", "single_values"])),
        "with_id": draw(st.sampled_from([True, True, True, False])),
        "sort": draw(st.booleans()), "single_returning": draw(st.booleans()),
        "page": draw(st.integers(1, 5)), "scramble": draw(st.sampled_from(["rev", "swap", "none"])),
        "paramstyle": draw(st.sampled_from(["qmark", "named", "numeric_dollar"])),
        "names_as": draw(st.sampled_from(["col", "str"])), "set_keys_as": draw(st.sampled_from(["col", "str"])),
        "bp_seed": draw(st.integers(0, 22)),
    }


_where_const = st.sampled_from([None, ["lt", ["tgt", "v"], ["const", 5]], ["ne", ["tgt", "v"], ["const", 5]], ["ge", ["exc", "v"], ["const", 4]],
                               ["lt", ["tgt", "v"], ["exc", "v"]], ["lt", ["tgt", "v"], ["const", 5]], ["ge", ["tgt", "v"], ["const", 3]]])
_base_clause = st.one_of(
    st.fixed_dictionaries({"action": st.just("update"), "target": st.sampled_from(["id", "id", "id", "u", "ab", "pp"]),
                           "set": st.lists(_set_item, min_size=1, max_size=2), "where": _where_const}),
    st.fixed_dictionaries({"action": st.just("update"), "target": st.just("id"), "set": st.just([["v", ["add", ["exc", "v"], ["const", 100]]]]), "where": _where_const}),
    st.fixed_dictionaries({"action": st.just("nothing"), "target": st.sampled_from(["id", "u"])}),
)
_toggle_item = st.tuples(st.sampled_from(TOGGLES + ["where_value", "where_toggle", "where_struct"]), st.integers(0, 3)).map(list)


@st.composite
def _sibling_cases(draw):
    return {
        "base": draw(_base_clause), "toggles": draw(st.lists(_toggle_item, min_size=1, max_size=3)),
        "order": draw(st.sampled_from(["fwd", "rev"])), "repeat_first": draw(st.booleans()),
        "existing": draw(st.lists(_existing_spec, min_size=1, max_size=6)),
        "rows": draw(st.lists(st.tuples(st.sampled_from(["c0", "c0", "c0", "none"]), st.integers(0, 11), st.integers(0, 9), st.sampled_from([0, 1, 1]),
                                        st.sampled_from([False, False, True])).map(list), min_size=2, max_size=6)),
        "mode": draw(st.sampled_from(["many_returning", "many", "multi_values_returning", "single", "single_returning", "many_returning"])),
        "sort": draw(st.booleans()), "page": draw(st.integers(1, 4)),
        "paramstyle": draw(st.sampled_from(["qmark", "named", "numeric_dollar"])),
        "names_as": draw(st.sampled_from(["col", "str"])), "set_keys_as": draw(st.sampled_from(["col", "str"])),
    }


@st.composite
def _cachekey_cases(draw):
    return {
        "family": draw(st.sampled_from(["sqlite", "postgresql", "mysql"])), "base": draw(_base_clause),
        "toggles": draw(st.lists(_toggle_item, min_size=1, max_size=4)), "row": ["none", 0, draw(st.integers(0, 9)), 1, False],
        "form": draw(st.sampled_from(["dict", "tuples"])), "names_as": draw(st.sampled_from(["col", "str"])), "set_keys_as": draw(st.sampled_from(["col", "str"])),
    }


def subs(tier):
    return [
        Generated("sqlite", check_live, strategy=_live_cases(), quick=2000, thorough=50000),
        Generated("pg_on_sqlite", check_pg, strategy=_live_cases(), quick=1000, thorough=20000),
        Generated("mysql_clause", check_mysql, strategy=_mysql_cases(), quick=800, thorough=15000),
        Generated("siblings", check_siblings, strategy=_sibling_cases(), quick=900, thorough=20000),
        Generated("cachekey", check_cachekey, strategy=_cachekey_cases(), quick=900, thorough=20000),
    ]
