"""C56 - upsert statements insert or update exactly as their conflict clause says.

Live tier (SQLite): an insert-or-update reference model is applied row by row
in parameter order and compared with the table and the RETURNING rows after the
SQLAlchemy statement ran (single / executemany / multi-VALUES / insertmanyvalues
with RETURNING, 1-2 ON CONFLICT clauses, partial unique index targets,
``excluded`` references, per-row bound parameters in SET, WHERE).

Recording tier: the same construct built with ``postgresql.insert`` runs through
a psycopg2 dialect engine (paramstyle qmark) whose recording DBAPI hands every
emitted statement to a raw SQLite connection (the ON CONFLICT grammar subset
both databases share); ``mysql.insert(..).on_duplicate_key_update`` is compiled
for MySQL / MariaDB and its clause is parsed back and evaluated.
"""
from __future__ import annotations

import re
import sqlite3

from hypothesis import strategies as st

from checks import _dmlutil as du
from vf.api import Generated, Violation

PROPERTY = "C56"
LEVEL = "exploration"
RULE = (
    "drawn: existing rows 0-6 and 1-8 parameter sets over small value domains (conflicts on PK, on a unique column, on a composite unique, "
    "on a partial unique index, on several at once, duplicates within the batch), 1-2 ON CONFLICT clauses (DO NOTHING with/without target, "
    "DO UPDATE with index_elements as strings or columns, index_where, set_ of literals / excluded.col / target.col arithmetic / per-row "
    "bindparam, where=), executed as single, executemany, multi-VALUES and executemany+RETURNING (sort_by_parameter_order on/off, page size "
    "1-5, permuting cursor). Non-trivial: the batch has both conflicting and non-conflicting sets, or a fired SET references excluded, or "
    "a where/index_where decides; distinct = canonical JSON of the case"
)
ASSUMPTIONS = [
    "SQLite 3.40 upsert semantics are the trusted base: clauses are tested in order, the first whose target is violated fires; a targetless "
    "last clause catches any remaining uniqueness violation; any other violation raises (IntegrityError); rows of one statement are processed "
    "in VALUES order, each seeing the previous ones (model validated against raw sqlite3 separately)",
    "NULLs never conflict; a partial unique index only constrains rows satisfying its predicate",
    "after an IntegrityError only 'raised in both' and the rolled-back table are compared (how much of an executemany ran is driver specific)",
    "PostgreSQL tier executes the psycopg2-dialect rendering on SQLite, so PostgreSQL-only semantics (cannot affect a row twice, ON CONSTRAINT) "
    "are out of scope; MySQL tier checks the rendered clause structurally and by evaluation, never against a server",
]

COLS = ["id", "u", "a", "b", "p", "act", "v", "note"]
CONSTRAINTS = ["id", "u", "ab", "pp"]  # pp = partial unique index on (p) where act = 1


# ------------------------------------------------------------------ reference model
class ModelIntegrityError(Exception):
    pass


def _violations(rows, r, skip=None):
    """names of uniqueness constraints row r violates against rows (skip = index of the row itself)"""
    out = []
    for name in CONSTRAINTS:
        for i, o in enumerate(rows):
            if i == skip:
                continue
            if _conflict(name, o, r):
                out.append((name, i))
                break
    return out


def _conflict(name, o, r):
    if name == "id":
        return r["id"] is not None and o["id"] == r["id"]
    if name == "u":
        return r["u"] is not None and o["u"] == r["u"]
    if name == "ab":
        return r["a"] is not None and r["b"] is not None and (o["a"], o["b"]) == (r["a"], r["b"])
    if name == "pp":
        return r["act"] == 1 and o["act"] == 1 and r["p"] is not None and o["p"] == r["p"]
    raise ValueError(name)


def _ev(e, tgt, exc, bp):
    k = e[0]
    if k == "const":
        return e[1]
    if k == "exc":
        return exc[e[1]]
    if k == "tgt":
        return tgt[e[1]]
    if k == "bp":
        return bp[e[1]]
    if k == "add":
        x, y = _ev(e[1], tgt, exc, bp), _ev(e[2], tgt, exc, bp)
        return None if x is None or y is None else x + y
    raise ValueError(e)


def _cond(c, tgt, exc, bp):
    """SQL three-valued logic collapsed: unknown -> False"""
    if c is None:
        return True
    k = c[0]
    if k == "isnull":
        return _ev(c[1], tgt, exc, bp) is None
    x, y = _ev(c[1], tgt, exc, bp), _ev(c[2], tgt, exc, bp)
    if x is None or y is None:
        return False
    return {"lt": x < y, "ne": x != y, "eq": x == y, "ge": x >= y}[k]


def model_apply(rows, r, clauses, bp, trace):
    """apply one proposed row; returns the RETURNING snapshot (dict) or None.
    rows: list of dict (mutated). raises ModelIntegrityError."""
    r = dict(r)
    if r["id"] is None:
        r["id"] = max([o["id"] for o in rows], default=0) + 1
    viol = _violations(rows, r)
    if not viol:
        rows.append(r)
        trace.append("insert")
        return dict(r)
    vnames = {n: i for n, i in viol}
    for cl in clauses:
        tgt = cl.get("target")
        if tgt is None:
            hit = viol[0][1]
        elif tgt in vnames:
            hit = vnames[tgt]
        else:
            continue
        if cl["action"] == "nothing":
            trace.append("nothing")
            return None
        cur = rows[hit]
        if not _cond(cl.get("where"), cur, r, bp):
            trace.append("where-false")
            return None
        new = dict(cur)
        for col, e in cl["set"]:
            new[col] = _ev(e, cur, r, bp)
        if _violations(rows, new, skip=hit):
            trace.append("update-violates")
            raise ModelIntegrityError(f"update of row id={cur['id']} violates another constraint")
        rows[hit] = new
        trace.append("update" + ("+excluded" if any(_uses(e, "exc") for _, e in cl["set"]) else "") + ("+where" if cl.get("where") else "")
                     + ("+index_where" if tgt == "pp" else ""))
        return dict(new)
    trace.append("uncaught")
    raise ModelIntegrityError(f"violates {sorted(vnames)} not named by any clause")


def _uses(e, kind):
    if e[0] == kind:
        return True
    return any(isinstance(x, list) and _uses(x, kind) for x in e[1:])


# ------------------------------------------------------------------ building the real thing
DDL = [
    "CREATE TABLE t (id INTEGER PRIMARY KEY, u VARCHAR(10), a INTEGER, b INTEGER, p INTEGER, act INTEGER, v INTEGER, note VARCHAR(60), "
    "UNIQUE (u), UNIQUE (a, b))",
    "CREATE UNIQUE INDEX ix_pp ON t (p) WHERE act = 1",
]


def _table(sa):
    m = sa.MetaData()
    t = sa.Table(
        "t", m,
        sa.Column("id", sa.Integer, primary_key=True), sa.Column("u", sa.String(10), unique=True), sa.Column("a", sa.Integer),
        sa.Column("b", sa.Integer), sa.Column("p", sa.Integer), sa.Column("act", sa.Integer), sa.Column("v", sa.Integer),
        sa.Column("note", sa.String(60)), sa.UniqueConstraint("a", "b"),
    )
    sa.Index("ix_pp", t.c.p, unique=True, sqlite_where=t.c.act == 1, postgresql_where=t.c.act == 1)
    return m, t


def _expr(sa, e, t, stmt, excl):
    k = e[0]
    if k == "const":
        return e[1]
    if k == "exc":
        return excl[e[1]]
    if k == "tgt":
        return t.c[e[1]]
    if k == "bp":
        return sa.bindparam(e[1], type_=t.c.v.type)
    if k == "add":
        x, y = _expr(sa, e[1], t, stmt, excl), _expr(sa, e[2], t, stmt, excl)
        if not hasattr(x, "__clause_element__") and not isinstance(x, sa.sql.ClauseElement):
            x = sa.literal(x)
        return x + y
    raise ValueError(e)


def _where(sa, c, t, stmt, excl):
    if c is None:
        return None
    k = c[0]
    x = _expr(sa, c[1], t, stmt, excl)
    if not isinstance(x, sa.sql.ClauseElement):
        x = sa.literal(x)
    if k == "isnull":
        return x.is_(None)
    y = _expr(sa, c[2], t, stmt, excl)
    return {"lt": lambda: x < y, "ne": lambda: x != y, "eq": lambda: x == y, "ge": lambda: x >= y}[k]()


def _target_args(t, cl, names_as):
    tgt = cl.get("target")
    if tgt is None:
        return {}
    cols = {"id": ["id"], "u": ["u"], "ab": ["a", "b"], "pp": ["p"]}[tgt]
    elems = cols if names_as == "str" else [t.c[c] for c in cols]
    kw = {"index_elements": elems}
    if tgt == "pp":
        kw["index_where"] = t.c.act == 1
    return kw


def _apply_clauses(sa, stmt, t, clauses, names_as, set_keys_as):
    for cl in clauses:
        kw = _target_args(t, cl, names_as)
        if cl["action"] == "nothing":
            stmt = stmt.on_conflict_do_nothing(**kw)
        else:
            set_ = {}
            for col, e in cl["set"]:
                set_[col if set_keys_as == "str" else t.c[col]] = _expr(sa, e, t, stmt, stmt.excluded)
            w = _where(sa, cl.get("where"), t, stmt, stmt.excluded)
            stmt = stmt.on_conflict_do_update(set_=set_, where=w, **kw)
    return stmt


def _normalize_case(case):
    """make the drawn program valid by construction (targetless clause last and DO NOTHING only; bp only where rows can carry it)"""
    clauses = []
    for i, cl in enumerate(case["clauses"][:2]):
        cl = dict(cl)
        last = i == len(case["clauses"][:2]) - 1
        if cl.get("target") is None and (not last or cl["action"] != "nothing"):
            cl["target"] = "id"
        if cl["action"] == "update":
            seen, st_ = set(), []
            for col, e in cl["set"]:
                if col not in seen:
                    seen.add(col)
                    st_.append([col, e])
            cl["set"] = st_ or [["v", ["exc", "v"]]]
        clauses.append(cl)
    if len(clauses) == 2 and clauses[0].get("target") == clauses[1].get("target"):
        clauses[1]["target"] = "u" if clauses[0].get("target") != "u" else "id"
    return clauses


def _rows_from(specs, with_id, prefix):
    out = []
    for i, s in enumerate(specs):
        out.append({"id": s[0] if with_id else None, "u": None if s[1] is None else "u%d" % s[1], "a": s[2], "b": s[3], "p": s[4], "act": s[5],
                    "v": s[6], "note": "%s%d" % (prefix, i)})
    return out


def _snapshot(raw_rows):
    return sorted([tuple(r) for r in raw_rows], key=repr)


def _model_run(existing, rows, clauses, bps):
    """returns (table, returned snapshots (None for no row), trace, error)"""
    table = [dict(r) for r in existing]
    ret, trace = [], []
    try:
        for r, bp in zip(rows, bps):
            ret.append(model_apply(table, r, clauses, bp, trace))
        return table, ret, trace, None
    except ModelIntegrityError as e:
        return None, None, trace, e


def _seed_existing(specs):
    """existing rows: keep those the constraints accept"""
    table = []
    for r in _rows_from(specs, True, "e"):
        if r["id"] is None or _violations(table, r):
            continue
        table.append(r)
    return table


def _classes(trace, mode, clauses, rows):
    cls = {"mode=" + mode, "clauses=%d" % len(clauses)}
    cls.update("fired=" + t for t in set(trace))
    kinds = set(trace)
    if "insert" in kinds and len(kinds) > 1:
        cls.add("mixed-batch")
    return cls


class _PgOnSqlite:
    """the "server" behind the psycopg2-dialect recording engine: every statement the dialect emits is executed on a raw SQLite
    connection (shared ON CONFLICT grammar); multi-row RETURNING results are answered reversed"""

    def __init__(self):
        self.raw = sqlite3.connect(":memory:", isolation_level=None)
        for d in DDL:
            self.raw.execute(d)
        self.unsupported = []
        self.multi = 0

    def seed(self, existing):
        for r in existing:
            self.raw.execute("INSERT INTO t (id,u,a,b,p,act,v,note) VALUES (?,?,?,?,?,?,?,?)", tuple(r[c] for c in COLS))
        self.raw.execute("BEGIN")

    def table(self):
        return self.raw.execute("SELECT id,u,a,b,p,act,v,note FROM t").fetchall()

    def rollback(self):
        if self.raw.in_transaction:
            self.raw.execute("ROLLBACK")

    def result_for(self, statement, parameters):
        stl = statement.lstrip()
        if stl[:6].upper() != "INSERT":
            return None
        sql = " ".join(statement.split())
        params = list(parameters or ())
        if "FROM (VALUES" in sql or "::" in sql:
            self.unsupported.append("pg-only INSERT..SELECT sentinel form")
            raise _Unsupported()
        # PostgreSQL binds the partial-index predicate; SQLite only infers a partial index from a literal predicate
        m = re.search(r"ON CONFLICT \(p\) WHERE act = \?", sql)
        while m:
            pos = sql[: m.end()].count("?") - 1
            val = params.pop(pos)
            if not isinstance(val, int):
                raise _Unsupported()
            sql = sql[: m.end() - 1] + str(val) + sql[m.end():]
            m = re.search(r"ON CONFLICT \(p\) WHERE act = \?", sql)
        cur = self.raw.execute(sql, tuple(params))
        if cur.description is None:
            return None
        data = cur.fetchall()
        if len(data) > 1:
            self.multi += 1
            data = data[::-1]
        return [d[0] for d in cur.description], data


class _Unsupported(Exception):
    pass


def check_live(case, ctx):
    _run(case, ctx, "sqlite")


def check_pg(case, ctx):
    _run(case, ctx, "pg")


def _run(case, ctx, backend):
    import sqlalchemy as sa

    if backend == "sqlite":
        from sqlalchemy.dialects.sqlite import insert as sl_insert
    else:
        from sqlalchemy.dialects.postgresql import insert as sl_insert
        from vf import fakedb

    clauses = _normalize_case(case)
    if backend == "pg":
        clauses = clauses[:1]  # PostgreSQL accepts a single ON CONFLICT clause
    mode = case["mode"]
    with_id = case.get("with_id", True)
    existing = _seed_existing(case["existing"])
    rows = _rows_from(case["rows"], with_id, "n")
    if backend == "sqlite" and mode in ("many", "many_returning") and len(rows) > 1 and any(cl.get("target") == "pp" for cl in clauses) and not case.get("pinned"):
        # known finding: the SQLite compiler renders index_where with literal_execute, which executemany refuses
        ctx.exclude("index_where (partial index target) with executemany on SQLite (known finding)")
        mode = {"many": "multi_values", "many_returning": "multi_values_returning"}[mode]
    if mode in ("single_params", "single_values"):
        rows = rows[:1]
    uses_bp = any(cl["action"] == "update" and (any(_uses(e, "bp") for _, e in cl["set"]) or (cl.get("where") and any(isinstance(x, list) and _uses(x, "bp") for x in cl["where"][1:])))
                  for cl in clauses)
    bpvals = [{"bpv": (case.get("bp_seed", 0) + 7 * i) % 23} for i in range(len(rows))]
    if mode in ("multi_values", "multi_values_returning", "single_values"):
        bpvals = [bpvals[0]] * len(rows)  # one statement, one value for the bound parameter
    m_table, m_ret, trace, m_err = _model_run(existing, rows, clauses, bpvals)

    fired = set(trace)
    nontrivial = ("insert" in fired and len(fired) > 1) or any(("excluded" in f or "where" in f) for f in fired)
    cls = _classes(trace, mode, clauses, rows)
    if m_err is not None:
        cls.add("integrity-error")
    if uses_bp:
        cls.add("bound-param-in-set")
    ctx.note(case, nontrivial, classes=sorted(cls))

    stats = {}
    srv = None
    if backend == "sqlite":
        eng = du.sqlite_engine(case.get("paramstyle", "qmark"), case.get("scramble", "rev"), stats, insertmanyvalues_page_size=case.get("page", 3))
        integrity = (sa.exc.IntegrityError,)
    else:
        eng, db = fakedb.recording_engine("postgresql+psycopg2://", paramstyle="qmark", insertmanyvalues_page_size=case.get("page", 3))
        srv = _PgOnSqlite()
        db.result_for = srv.result_for
        integrity = (sa.exc.IntegrityError, sqlite3.IntegrityError)
    try:
        m, t = _table(sa)
        if backend == "sqlite":
            m.create_all(eng)
        with eng.connect() as conn:
            if backend == "sqlite":
                for r in existing:
                    conn.exec_driver_sql("INSERT INTO t (id,u,a,b,p,act,v,note) VALUES (?,?,?,?,?,?,?,?)", tuple(r[c] for c in COLS))
                conn.commit()
                read_table = lambda: conn.exec_driver_sql("SELECT id,u,a,b,p,act,v,note FROM t").all()  # noqa: E731
                rollback = conn.rollback
            else:
                srv.seed(existing)
                read_table = srv.table

                def rollback():
                    conn.rollback()
                    srv.rollback()
            stmt = _apply_clauses(sa, sl_insert(t), t, clauses, case.get("names_as", "col"), case.get("set_keys_as", "str"))
            keys = COLS if with_id else COLS[1:]
            plist = [{k: r[k] for k in keys} for r in rows]
            sort = bool(case.get("sort"))
            returning = mode in ("many_returning", "multi_values_returning") or (mode.startswith("single") and case.get("single_returning"))
            if returning:
                stmt = stmt.returning(*[t.c[c] for c in COLS], **({"sort_by_parameter_order": True} if (sort and mode == "many_returning") else {}))
            got_err = None
            result_rows = None
            try:
                if mode == "single_params":
                    p = dict(plist[0])
                    if uses_bp:
                        p.update(bpvals[0])
                    res = conn.execute(stmt, p)
                elif mode == "single_values":
                    res = conn.execute(stmt.values(**plist[0]), bpvals[0] if uses_bp else {})
                elif mode in ("many", "many_returning"):
                    ps = [dict(p, **(bp if uses_bp else {})) for p, bp in zip(plist, bpvals)]
                    res = conn.execute(stmt, ps)
                else:
                    res = conn.execute(stmt.values(plist), bpvals[0] if uses_bp else {})
                if returning:
                    result_rows = [tuple(r) for r in res.all()]
            except integrity as e:
                got_err = e
                rollback()
            except _Unsupported:
                ctx.info("pg: statement outside the grammar subset shared with SQLite (not judged)")
                return
            except sa.exc.StatementError as e:
                if isinstance(e.orig, sa.exc.InvalidRequestError) and "literal_execute" in str(e.orig) and any(cl.get("target") == "pp" for cl in clauses):
                    raise Violation("C56/sqlite/index_where/executemany-refused",
                                    "on_conflict_*(index_where=...) cannot be executed with a list of parameter sets on SQLite: " + str(e.orig)[:160],
                                    observed=str(e)[:400], expected="executemany upsert against the partial unique index")
                raise
            if m_err is not None:
                if got_err is None:
                    rollback()
                    raise Violation(f"C56/{backend}/no-integrity-error", f"model: {m_err}; statement succeeded ({mode}, clauses {clauses})", expected="IntegrityError")
                after = _snapshot(read_table())
                if after != _snapshot([tuple(r[c] for c in COLS) for r in existing]):
                    raise Violation(f"C56/{backend}/rollback-state", "table differs from the initial rows after IntegrityError + rollback", observed=after)
                return
            if got_err is not None:
                raise Violation(f"C56/{backend}/unexpected-integrity-error", f"{str(getattr(got_err, 'orig', got_err))[:120]} but the model accepts every row ({mode}, trace {trace})",
                                observed=str(got_err)[:400], expected="success")
            after = _snapshot(read_table())
            want = _snapshot([tuple(r[c] for c in COLS) for r in m_table])
            if after != want:
                sig = f"C56/{backend}/table-state/" + mode
                if uses_bp and mode in ("many", "many_returning"):
                    sig = f"C56/{backend}/table-state/bound-set-param/" + mode
                raise Violation(sig, f"table differs from the insert-or-update model ({mode}, clauses {clauses}, trace {trace})", observed=after, expected=want)
            if returning:
                exp = [tuple(r[c] for c in COLS) for r in m_ret if r is not None]
                ordered = mode.startswith("single") or (mode == "many_returning" and sort)
                if ordered:
                    if result_rows != exp:
                        raise Violation(f"C56/{backend}/returning-order/" + mode, f"RETURNING rows differ from the affected rows in parameter order (trace {trace})",
                                        observed=result_rows, expected=exp)
                elif _snapshot(result_rows) != _snapshot(exp):
                    raise Violation(f"C56/{backend}/returning-rows/" + mode, f"RETURNING rows differ from the affected rows (trace {trace})", observed=_snapshot(result_rows), expected=_snapshot(exp))
            rollback()
    finally:
        eng.dispose()
        if srv is not None:
            srv.raw.close()


# ------------------------------------------------------------------ strategies
_small = st.integers(1, 5)
_rowspec = st.tuples(
    st.integers(1, 6), st.one_of(st.none(), st.integers(0, 4)), st.one_of(st.none(), st.integers(0, 2)), st.one_of(st.none(), st.integers(0, 2)),
    st.one_of(st.none(), st.integers(0, 3)), st.sampled_from([0, 1, 1]), st.integers(0, 9),
).map(list)

_int_expr = st.one_of(
    st.sampled_from([["exc", "v"], ["tgt", "v"], ["const", 99], ["bp", "bpv"], ["exc", "a"], ["const", None]]),
    st.sampled_from([["add", ["tgt", "v"], ["exc", "v"]], ["add", ["exc", "v"], ["const", 100]], ["add", ["tgt", "v"], ["bp", "bpv"]]]),
)
_str_expr = st.sampled_from([["exc", "note"], ["add", ["tgt", "note"], ["exc", "note"]], ["const", "upd"], ["add", ["exc", "note"], ["const", "!"]]])
_set_item = st.one_of(
    st.tuples(st.just("v"), _int_expr), st.tuples(st.just("v"), _int_expr), st.tuples(st.just("note"), _str_expr),
    st.tuples(st.just("u"), st.sampled_from([["exc", "u"], ["const", "u1"], ["tgt", "u"]])),
    st.tuples(st.just("a"), st.sampled_from([["exc", "a"], ["const", 1]])), st.tuples(st.just("act"), st.sampled_from([["exc", "act"], ["const", 1], ["const", 0]])),
    st.tuples(st.just("p"), st.sampled_from([["exc", "p"], ["const", 2]])),
).map(list)
_wherec = st.one_of(
    st.none(), st.none(),
    st.sampled_from([["lt", ["tgt", "v"], ["exc", "v"]], ["ne", ["tgt", "v"], ["const", 5]], ["ge", ["exc", "v"], ["const", 4]], ["isnull", ["tgt", "u"]],
                     ["eq", ["exc", "act"], ["const", 1]], ["lt", ["tgt", "v"], ["bp", "bpv"]], ["ne", ["tgt", "note"], ["exc", "note"]]]),
)
_clause = st.one_of(
    st.fixed_dictionaries({"action": st.just("nothing"), "target": st.sampled_from([None, "id", "u", "ab", "pp"])}),
    st.fixed_dictionaries({"action": st.just("update"), "target": st.sampled_from(["id", "id", "u", "ab", "pp"]),
                           "set": st.lists(_set_item, min_size=1, max_size=3), "where": _wherec}),
    st.fixed_dictionaries({"action": st.just("update"), "target": st.sampled_from(["id", "u", "pp"]),
                           "set": st.lists(_set_item, min_size=1, max_size=2), "where": _wherec}),
)


@st.composite
def _live_cases(draw):
    return {
        "existing": draw(st.lists(_rowspec, min_size=0, max_size=6)),
        "rows": draw(st.lists(_rowspec, min_size=1, max_size=8)),
        "clauses": draw(st.lists(_clause, min_size=1, max_size=2)),
        "mode": draw(st.sampled_from(["single_params", "single_values", "many", "many", "many_returning", "many_returning", "many_returning",
                                      "multi_values", "multi_values_returning"])),
        "with_id": draw(st.sampled_from([True, True, True, False])),
        "sort": draw(st.booleans()), "single_returning": draw(st.booleans()),
        "page": draw(st.integers(1, 5)), "scramble": draw(st.sampled_from(["rev", "swap", "none"])),
        "paramstyle": draw(st.sampled_from(["qmark", "named", "numeric_dollar"])),
        "names_as": draw(st.sampled_from(["col", "str"])), "set_keys_as": draw(st.sampled_from(["col", "str"])),
        "bp_seed": draw(st.integers(0, 22)),
    }


def subs(tier):
    return [
        Generated("sqlite", check_live, strategy=_live_cases(), quick=2500, thorough=50000),
        Generated("pg_on_sqlite", check_pg, strategy=_live_cases(), quick=1200, thorough=20000),
    ]
