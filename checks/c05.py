"""C05 - literal rendering is equivalent to binding and cannot inject SQL.

live   real sqlite3: for a value of each supported Python type in each clause
       position, the rows of (a) bound execution, (b) execution with
       ``literal_execute=True`` binds and (c) the ``literal_binds`` string run
       as driver SQL must be equal in value *and* type; through qmark plus one
       more paramstyle per case (named natively, numeric / numeric_dollar via
       the repo's pysqlite test dialects, format / pyformat via the %-grammar
       cursor shim of C04).
token  all dialects incl. those without a backend (PostgreSQL with and without
       standard_conforming_strings, MySQL/MariaDB with and without
       NO_BACKSLASH_ESCAPES, MSSQL, Oracle, SQLite) x their drivers'
       paramstyles: the literal rendering must tokenise (checks/_sqltok.py:
       driver %-grammar first, then the backend's lexical grammar) to exactly
       the bound rendering's token sequence with each placeholder replaced by
       ONE literal unit that decodes, by that backend's literal grammar, to the
       original value.  Any extra / missing token = the literal changed the
       shape of the statement.
"""
from __future__ import annotations

import datetime as dt
import decimal
import math
import re
import sqlite3
import warnings

from hypothesis import strategies as st

from checks import _sqltok as T
from checks import c04 as _c04  # noqa: F401  (live engines / cursor shim; imported here so its driver preload is outside the time budgets)
from vf.api import Enumerated, Generated, Violation  # noqa: F401

PROPERTY = "C05"
LEVEL = "exploration"
RULE = (
    "values: strings built from an adversarial atom alphabet (quotes, backslash, %, :, ?, _, ;, --, /* */, $, brackets, newline/tab/CR, unicode incl. astral, "
    "bind-template look-alikes %(x)s / :x / __[POSTCOMPILE_x] / %s / $1 / :1, literal prefixes E' N'), ints incl. 32/64-bit extremes, finite floats incl. tiny/huge/-0.0, "
    "Decimals (<=15 digits, exponent +-12), dates / datetimes / times incl. extremes and microseconds, booleans, typed None; positions: SELECT list, WHERE =, IN list, "
    "function argument, INSERT VALUES, UPDATE SET, LIMIT; modes literal_binds and literal_execute; value source: plain value, bindparam(callable_=), value given at execution, "
    "statement.params(), required=True + parameters, one named bind used twice (non-unique, unique=True, two objects of one name). live: sqlite3 through qmark + one drawn paramstyle. token: 18 "
    "dialect/driver/escape-mode configurations per case. Non-trivial: the value contains a character from the escape-relevant set of the dialect "
    "(' \\\\ % : ? \" newline, non-ASCII, look-alike) or is a boundary number / date / None / bool; distinct = canonical JSON of the case"
)
ASSUMPTIONS = [
    "strings are NUL-free; floats finite; Decimals within 15 significant digits (the contract's domain), live additionally |v| < 1e15 because SQLite binds Decimals as floats; datetimes are naive",
    "live float comparison allows 1 ulp (SQLite's text-to-double conversion is not under test); -0.0 == 0.0; an integral Decimal literal typed INTEGER by SQLite equals the REAL of the bound run",
    "the backend literal grammars in checks/_sqltok.py are the trusted base: PostgreSQL standard_conforming_strings on/off, MySQL with/without NO_BACKSLASH_ESCAPES "
    "(dialect._backslash_escapes is set accordingly, as initialize() would), MSSQL N'..', Oracle '..' and TO_DATE/TO_TIMESTAMP('..', fmt), SQLite",
    "driver %-grammars: python-style (psycopg2, psycopg, pymysql, mysqlclient: %% -> % everywhere), pg8000 (quote aware), pymssql (no %% un-doubling; its %(name)s scan "
    "inside literals cannot be escaped at all and is out of scope)",
    "non-ASCII text in a non-N'' MSSQL literal is a server code-page question, not a lexical one: not judged",
    "a value-carrying and a callable-carrying bindparam of the same name and shape are never run on one engine (they share a compiled-cache entry and the callable form then executes with None: "
    "findings/C05/cache_callable_vs_value.py, a C02-type finding); INSERT/UPDATE positions take deferred values only as callables (no statement.params() there)",
    "known findings excluded by construction and pinned: strings matching the compiler's own bind-template regexes on positional paramstyles "
    "(C05/positional-regex-rewrites-literal, C05/numeric-postcompile-regex-rewrites-literal), SQLite OFFSET without LIMIT (C05/sqlite-offset-no-limit) "
    "and binds inside RETURNING (C05/returning-ignores-literal-binds) under literal_binds; the empty tuple IN literal ('VALUES SELECT', fixed in 5b69129) is generated again",
]

ATOMS = [
    "'", '"', "\\", "%", ":", "?", "_", ";", "--", "/*", "*/", "$", "[", "]", "(", ")", "{", "}", "\n", "\t", "\r", " ", "a", "b", "0", "x",
    "é", "ß", "\u4e2d", "\U0001f4a5", "\u2019", "\u00a0",
    "%(x)s", ":x", "__[POSTCOMPILE_x]", "%s", "%%", "$1", ":1", "\\'", "''", "\\\\", "E'", "N'", "%(", ")s", "__[POSTCOMPILE_", "~~", "]", "x_1", "param_1",
    "'; DROP TABLE t; --", "' OR '1'='1", "\\' OR 1=1 -- ", "%'", "'%", "\\%", "\\_", "\x1a", "\x08", "`", "@", "#", "&", "|", "^", "~", "<", ">", "=", "!", ",", ".",
]
PYFORMAT_RX = re.compile(r"%\(([^)]+?)\)s")
POSTCOMPILE_RX = re.compile(r"__\[POSTCOMPILE_(\S+?)(~~.+?~~)?\]")
ESCAPE_RELEVANT = set("'\"\\%:?\n\r\t;$[]`") | {"-"}

INT_SPECIAL = [0, 1, -1, 2**31 - 1, -(2**31), 2**31, 2**63 - 1, -(2**63), -(2**63) + 1, 10**18, -(10**18), 255, -255]
FLOAT_SPECIAL = [0.0, -0.0, 1.0, -1.0, 0.1, 1e-7, 1e-300, 5e-324, 1.7976931348623157e308, 1e22, 1e21, 123456789.123456789, 2.2250738585072014e-308, -1e-5, 1e16, 0.30000000000000004]


# ---------------------------------------------------------------- values
def value_of(spec):
    """returns (python value, kind, sqlalchemy type factory name)"""
    t = spec["t"]
    if t == "str":
        return "".join(ATOMS[i % len(ATOMS)] for i in spec["a"]), "str"
    if t == "int":
        return int(spec["v"]), "int"
    if t == "float":
        return float(spec["v"]), "float"
    if t == "dec":
        return decimal.Decimal(spec["v"]), "decimal"
    if t == "date":
        return dt.date(*spec["v"]), "date"
    if t == "dt":
        return dt.datetime(*spec["v"]), "datetime"
    if t == "time":
        return dt.time(*spec["v"]), "time"
    if t == "bool":
        return bool(spec["v"]), "bool"
    if t == "none":
        return None, "none"
    raise ValueError(spec)


def sa_type(spec):
    from sqlalchemy import BigInteger, Boolean, Date, DateTime, Float, Integer, Numeric, String, Time, Unicode

    t = spec["t"]
    if t == "str":
        return Unicode() if spec.get("u") else String()
    if t == "int":
        return Integer() if abs(int(spec["v"])) < 2**31 else BigInteger()
    if t == "float":
        return Float()
    if t == "dec":
        return Numeric(30, 15)
    if t == "date":
        return Date()
    if t == "dt":
        return DateTime()
    if t == "time":
        return Time()
    if t == "bool":
        return Boolean()
    if t == "none":
        return String() if spec.get("of") == "str" else Integer()
    raise ValueError(spec)


def _limit_spec(spec, pos):
    """LIMIT / OFFSET take a non-negative 31-bit int: derive one from whatever value was drawn (valid by construction)"""
    if pos not in ("limit", "offset"):
        return spec
    if spec["t"] == "int":
        return {"t": "int", "v": abs(int(spec["v"])) % 2**31}
    return {"t": "int", "v": len(repr(sorted(spec.items()))) % 40}


def triggers(v):
    """which of the compiler's own regexes match inside the value"""
    out = set()
    if isinstance(v, str):
        # the regexes run over the whole finished statement, so a match can also span two renderings of the value
        # (IN lists, func arguments: ")s%(" -> "')s%(', ')s%('"): any value holding both halves is a trigger
        if PYFORMAT_RX.search(v) or ("%(" in v and ")s" in v):
            out.add("pyformat")
        if POSTCOMPILE_RX.search(v) or ("__[POSTCOMPILE_" in v and "]" in v):
            out.add("postcompile")
    return out


def neutralise(v, trig):
    if "pyformat" in trig:
        v = v.replace("%(", "%{")
    if "postcompile" in trig:
        v = v.replace("__[POSTCOMPILE_", "__[POSTCOMPILE-")
    return v


def interesting(v, kind):
    if kind == "str":
        return bool(set(v) & ESCAPE_RELEVANT) or any(ord(c) > 127 for c in v) or bool(triggers(v))
    if kind == "int":
        return abs(v) >= 2**31 - 1 or v < 0
    if kind == "float":
        return v != 0 and (abs(v) < 1e-4 or abs(v) >= 1e16) or v < 0 or (v == 0 and math.copysign(1, v) < 0)
    if kind == "decimal":
        return v.as_tuple().exponent != 0 or v < 0
    return True  # dates/times/bool/None: each exercises its own renderer


# ---------------------------------------------------------------- statements
POSITIONS = ["select", "where", "in", "tin", "tin_empty", "func", "values", "set", "limit"]
FINDING_POSITIONS = ["offset", "returning"]


DEFERRED = ("exec", "params", "required")  # the value is not stored in the bindparam: a stand-alone compile gets it through statement.params()
SOURCES = ["plain", "callable", "exec", "params", "required", "twice", "twice_unique", "twice_sep"]
DML_POSITIONS = ("values", "set", "returning")


def effective_source(src, pos):
    """how the value reaches the bind, made valid for the position (by construction)"""
    if pos in DML_POSITIONS and src in ("exec", "params", "required"):
        # statement.params() is not available on INSERT/UPDATE, so there is no documented way to hand a deferred value to literal_binds there
        return "callable"
    if pos in ("tin", "tin_empty") and src.startswith("twice"):
        return "plain"  # re-using an expanding tuple bind is known finding C04/expanding-tuple-bind-reused
    return src


class Stmt:
    """a statement plus the values that are not stored in it"""

    def __init__(self, stmt, params, src):
        self.stmt, self.params, self.src = stmt, params, src

    def for_execute(self):
        """(statement, parameters) for Connection.execute"""
        if not self.params:
            return self.stmt, None
        if self.src == "params":
            return self.stmt.params(self.params), None
        return self.stmt, dict(self.params)

    def for_compile(self):
        """statement for a stand-alone compile (literal_binds / render_postcompile): deferred values are attached with .params()"""
        return self.stmt.params(self.params) if self.params else self.stmt


def make_stmt(pos, spec, v, mode, tbl, src="plain"):
    """mode: 'bound' | 'le' (literal_execute binds); src: one of SOURCES.  Returns a Stmt"""
    from sqlalchemy import bindparam, func, insert, literal_column, select, update

    ty = sa_type(spec)
    le = mode == "le"
    src = effective_source(src, pos)
    params = {}
    shared = {}
    counter = [0]

    def bp(value=v, expanding=False, typed=True):
        kw = {"literal_execute": le}
        if expanding:
            kw["expanding"] = True
        if typed:
            kw["type_"] = ty
        if src == "plain":
            return bindparam(None, value, **kw)
        name = f"p{counter[0]}"
        counter[0] += 1
        if src == "callable":
            return bindparam(name, callable_=lambda value=value: value, **kw)
        if src in ("exec", "params"):
            params[name] = value
            return bindparam(name, **kw)
        if src == "required":
            params[name] = value
            return bindparam(name, required=True, **kw)
        if src == "twice_sep":
            return bindparam("ts", value, **kw)  # a new object each time, same non-unique name
        if "b" not in shared:
            shared["b"] = bindparam("tw", value, **kw) if src == "twice" else bindparam("tu", value, unique=True, **kw)
        return shared["b"]

    twice = src.startswith("twice")

    def scalar():
        """the value expression of scalar positions; the 'twice' sources use their bind two times"""
        return func.coalesce(bp(), bp()) if twice else bp()

    if pos == "select":
        q = select(scalar().label("v"), tbl.c.id).order_by(tbl.c.id)
    elif pos == "where":
        q = select(tbl.c.id).where(tbl.c.x == scalar()).order_by(tbl.c.id)
    elif pos == "in":
        q = select(tbl.c.id).where(tbl.c.x.in_(bp([v, v], expanding=True)))
        if twice:
            q = q.where(tbl.c.x.in_(bp([v, v], expanding=True)))
        q = q.order_by(tbl.c.id)
    elif pos in ("tin", "tin_empty"):
        from sqlalchemy import tuple_

        vals = [(v, 1), (v, 2)] if pos == "tin" else []
        q = select(tbl.c.id).where(tuple_(tbl.c.x, tbl.c.id).in_(bp(vals, expanding=True, typed=False))).order_by(tbl.c.id)
    elif pos == "func":
        q = select(func.coalesce(bp(), bp()).label("v"), tbl.c.id).where(func.coalesce(bp(), tbl.c.x) == tbl.c.x).order_by(tbl.c.id)
    elif pos == "values":
        q = insert(tbl).values(id=bindparam(None, 50, literal_execute=le), x=scalar())
    elif pos == "set":
        q = update(tbl).values(x=scalar()).where(tbl.c.id == literal_column("2"))
    elif pos in ("limit", "offset"):
        q = select(tbl.c.id).order_by(tbl.c.id)
        q = q.limit(bp()) if pos == "limit" else q.offset(bp())
        if twice:
            q = q.where(tbl.c.id <= bp() + literal_column("1000"))
    elif pos == "returning":
        q = insert(tbl).values(id=bindparam(None, 50, literal_execute=le), x=bp()).returning(tbl.c.id, bp().label("r"))
    else:
        raise ValueError(pos)
    return Stmt(q, params, src)


def _table(ty):
    import sqlalchemy as sa

    return sa.Table("t", sa.MetaData(), sa.Column("id", sa.Integer, primary_key=True, autoincrement=False), sa.Column("x", ty))


def n_placeholders(pos):
    return {"select": 1, "where": 1, "in": 2, "tin": 4, "tin_empty": 0, "func": 3, "values": 2, "set": 1, "limit": 1, "offset": 1, "returning": 3}[pos]


# ---------------------------------------------------------------- live
def _typed(rows):
    return [[(type(x).__name__, x) for x in r] for r in rows]


def _loosen(rows):
    """decimal kind: SQLite types an integral literal INTEGER and the bound float REAL (backend typing, not judged)"""
    out = []
    for r in rows:
        out.append(tuple(float(x) if isinstance(x, int) and not isinstance(x, bool) else ("real" if x == "integer" else x) for x in r))
    return out


def _rows_equal(a, b):
    if len(a) != len(b):
        return False
    for ra, rb in zip(a, b):
        if len(ra) != len(rb):
            return False
        for (ta, xa), (tb, xb) in zip(ra, rb):
            if ta != tb:
                return False
            if ta == "float":
                if xa == xb:
                    continue
                if math.isinf(xa) or math.isinf(xb) or abs(xa - xb) > 2 * math.ulp(max(abs(xa), abs(xb))):
                    return False
            elif xa != xb:
                return False
    return True


def _live_engine(ps):
    from sqlalchemy import create_engine
    from sqlalchemy.pool import StaticPool

    from checks import c04

    c04._register()
    if ps == "qmark":
        return create_engine("sqlite://", poolclass=StaticPool)
    if ps == "named":
        return create_engine("sqlite://", poolclass=StaticPool, paramstyle="named")
    if ps == "numeric":
        return create_engine("sqlite+pysqlite_numeric://", poolclass=StaticPool)
    if ps == "numeric_dollar":
        return create_engine("sqlite+pysqlite_dollar://", poolclass=StaticPool)
    return create_engine("sqlite://", poolclass=StaticPool, paramstyle=ps, connect_args={"factory": c04._shim_factory(ps)})


def _raw(conn, sql, params=()):
    cur = sqlite3.Cursor(conn.connection.driver_connection)
    try:
        sqlite3.Cursor.execute(cur, sql, params)
        return cur.fetchall() if cur.description else []
    finally:
        cur.close()


def _known_live(ps, trig, mode):
    """signature of the confirmed root cause this (paramstyle, value, mode) would hit, or None"""
    if mode == "lb":
        if ps in ("qmark", "format") and trig:
            return "C05/positional-regex-rewrites-literal"
        if ps in ("numeric", "numeric_dollar") and "pyformat" in trig:
            return "C05/positional-regex-rewrites-literal"
    if mode == "le" and ps in ("numeric", "numeric_dollar") and "pyformat" in trig:
        return "C05/numeric-postcompile-regex-rewrites-literal"
    return None


def check_live(case, ctx):
    warnings.simplefilter("ignore")
    from sqlalchemy import event, exc

    spec = case["val"]
    pos = case["pos"]
    pinned = bool(case.get("pinned"))
    spec = _limit_spec(spec, pos)
    v0, kind = value_of(spec)
    if kind == "decimal" and abs(v0) >= 10**15:
        # SQLite has no decimal type: the bound run sends float(v).  Keep the live domain where that float is exact enough
        # (|v| < 1e15 < 2**53) - larger magnitudes stay in the token sub-check
        v0 = v0.scaleb(-(v0.adjusted() + 1))
    styles = ["qmark"] if not case.get("only_ps") else []
    other = case.get("ps", "named")
    if other not in styles:
        styles.append(other)
    src = effective_source(case.get("src", "plain"), pos)
    classes = {kind, pos, "value-source:" + src}
    nontriv = interesting(v0, kind) or src != "plain"
    trig = triggers(v0)
    if trig:
        classes.add("lookalike")
    lb_raw = {}
    try:
        for ps in styles:
            v = v0
            if not pinned:
                hit = {m: _known_live(ps, trig, m) for m in ("lb", "le")}
                if hit["lb"] or hit["le"]:
                    ctx.exclude(f"string matching the compiler's bind-template regex on paramstyle {ps} (known finding {hit['lb'] or hit['le']})")
                    v = neutralise(v0, trig)
                if ps == "numeric_dollar" and isinstance(v, str) and re.search(r"[^\d]:\d+", " " + v):
                    ctx.exclude("':<digit>' text trips the pysqlite_dollar *test dialect's* own assertion (harness artefact)")
                    v = v.replace(":", ";")
            ty = sa_type(spec)
            tbl = _table(ty)
            eng = _live_engine(ps)
            captured = []

            @event.listens_for(eng, "before_cursor_execute")
            def _cap(conn, cursor, statement, parameters, context, executemany):
                captured.append((statement, parameters))

            try:
                per_mode = {}
                for mode in ("bound", "le", "lb"):
                    with eng.connect() as conn:
                        dbc = conn.connection.driver_connection
                        sqlite3.Cursor(dbc).execute("DROP TABLE IF EXISTS t")
                        sqlite3.Cursor(dbc).execute("CREATE TABLE t (id INTEGER PRIMARY KEY, x)")
                        # row 1 holds the value itself (stored through a bound parameter), rows 2,3 other things
                        conn.execute(tbl.insert(), [{"id": 1, "x": v}, {"id": 2, "x": None}])
                        _raw(conn, "INSERT INTO t (id, x) VALUES (3, 'other')")
                        where = f"sqlite3 via {ps}, {pos}, {mode}"
                        raw_b = None
                        try:
                            if mode == "lb":
                                src_lb = src
                                if src in DEFERRED and not pinned:
                                    ctx.exclude("value attached with statement.params() rendered under literal_binds (known finding C05/params-ignored-by-literal-binds)")
                                    src_lb = "callable"
                                comp = make_stmt(pos, spec, v, "bound", tbl, src_lb).for_compile().compile(eng, compile_kwargs={"literal_binds": True})
                                if comp.positional and comp.positiontup:
                                    raise Violation((_known_live(ps, trig, "lb") if pinned else None) or f"C05/live/literal-binds-has-params/{ps}",
                                                    f"{where}: literal_binds compilation of value {v!r} still lists positional parameters {comp.positiontup!r}", observed=str(comp))
                                r = conn.exec_driver_sql(str(comp))
                            else:
                                del captured[:]
                                stmt, xparams = make_stmt(pos, spec, v, mode, tbl, src).for_execute()
                                if mode == "bound" and ps == "qmark" and stmt.is_select:
                                    # raw image of the bound execution: the cursor-level statement re-run on a plain sqlite3 cursor
                                    r0 = conn.execute(stmt, xparams) if xparams else conn.execute(stmt)
                                    r0.all()
                                    raw_b = _raw(conn, captured[-1][0], captured[-1][1])
                                r = conn.execute(stmt, xparams) if xparams else conn.execute(stmt)
                            rows = [tuple(x) for x in r.all()] if r.returns_rows else []
                        except (exc.StatementError, KeyError) as e:
                            if mode == "bound":
                                raise
                            sig = _known_live(ps, trig, mode) if pinned else None
                            raise Violation(sig or f"C05/live/{mode}-fails/{ps}", f"{where}: value {v!r} cannot be executed: {type(e).__name__}: {str(e)[:300]}", observed=str(e)[:600])
                        state = _raw(conn, "SELECT id, x, typeof(x) FROM t ORDER BY id")
                        per_mode[mode] = (rows, state, raw_b)
                        conn.rollback()
                b_rows, b_state, raw_b = per_mode["bound"]
                le_rows, le_state, _ = per_mode["le"]
                lb_rows, lb_state, _ = per_mode["lb"]
                if kind == "decimal":
                    b_state, le_state, lb_state, lb_rows = _loosen(b_state), _loosen(le_state), _loosen(lb_state), _loosen(lb_rows)
                    raw_b = _loosen(raw_b) if raw_b is not None else None
                if not _rows_equal(_typed(le_rows), _typed(b_rows)) or not _rows_equal(_typed(le_state), _typed(b_state)):
                    sig = (_known_live(ps, trig, "le") if pinned else None) or f"C05/live/literal-execute-differs/{kind}"
                    raise Violation(sig, f"sqlite3 via {ps}, {pos}: value {v!r}: literal_execute gives {le_rows!r} / table {le_state!r}; bound gives {b_rows!r} / {b_state!r}",
                                    observed=repr((le_rows, le_state)), expected=repr((b_rows, b_state)))
                if not _rows_equal(_typed(lb_state), _typed(b_state)):
                    sig = (_known_live(ps, trig, "lb") if pinned else None) or f"C05/live/literal-binds-differs/{kind}"
                    raise Violation(sig, f"sqlite3 via {ps}, {pos}: value {v!r}: table after the literal_binds statement {lb_state!r}; after the bound one {b_state!r}",
                                    observed=repr(lb_state), expected=repr(b_state))
                if raw_b is not None:
                    lb_raw["bound-qmark"] = (raw_b, v)
                ref, ref_v = lb_raw.get("bound-qmark", (None, None))
                if ref is not None and (type(v), v) == (type(ref_v), ref_v) and not _rows_equal(_typed(lb_rows), _typed(ref)):
                    sig = (_known_live(ps, trig, "lb") if pinned else None) or f"C05/live/literal-binds-differs/{kind}"
                    raise Violation(sig, f"sqlite3 via {ps}, {pos}: value {v!r}: the literal_binds statement returns {lb_rows!r}; bound execution returns (driver level) {ref!r}",
                                    observed=repr(lb_rows), expected=repr(ref))
            finally:
                eng.dispose()
    finally:
        ctx.note(case, nontriv, classes=sorted(classes))


# ---------------------------------------------------------------- token oracle
def _dialects():
    from sqlalchemy.dialects.mssql import pymssql, pyodbc
    from sqlalchemy.dialects.mysql import mariadbconnector, mysqldb, pymysql
    from sqlalchemy.dialects.oracle import base as orabase
    from sqlalchemy.dialects.postgresql import asyncpg, pg8000, psycopg, psycopg2
    from sqlalchemy.dialects.sqlite import pysqlite

    def mk(cls, ps, **attrs):
        d = cls(paramstyle=ps)
        # the bound rendering is only the shape reference: '::TYPE' bind casts (psycopg, asyncpg, pg8000) are not part of the literal contract
        d._bind_typing_render_casts = False
        for k, val in attrs.items():
            setattr(d, k, val)
        return d

    # name, dialect, flavor, percent-mode
    return [
        ("sqlite/qmark", mk(pysqlite.dialect, "qmark"), "sqlite", "python"),
        ("sqlite/named", mk(pysqlite.dialect, "named"), "sqlite", "python"),
        ("sqlite/numeric", mk(pysqlite.dialect, "numeric"), "sqlite", "python"),
        ("sqlite/format", mk(pysqlite.dialect, "format"), "sqlite", "python"),
        ("pg/psycopg2", mk(psycopg2.dialect, "pyformat", _backslash_escapes=False), "postgresql", "python"),
        ("pg/psycopg2/no-scs", mk(psycopg2.dialect, "pyformat", _backslash_escapes=True), "postgresql_bs", "python"),
        ("pg/psycopg", mk(psycopg.dialect, "pyformat", _backslash_escapes=False), "postgresql", "python"),
        ("pg/asyncpg", mk(asyncpg.dialect, "numeric_dollar", _backslash_escapes=False), "postgresql", "python"),
        ("pg/asyncpg/no-scs", mk(asyncpg.dialect, "numeric_dollar", _backslash_escapes=True), "postgresql_bs", "python"),
        ("pg/pg8000", mk(pg8000.dialect, "format", _backslash_escapes=False), "postgresql", "sqlaware"),
        ("mysql/pymysql", mk(pymysql.dialect, "pyformat", _backslash_escapes=True), "mysql", "python"),
        ("mysql/pymysql/nobs", mk(pymysql.dialect, "pyformat", _backslash_escapes=False), "mysql_nobs", "python"),
        ("mysql/mysqldb", mk(mysqldb.dialect, "format", _backslash_escapes=True), "mysql", "python"),
        ("mariadb/connector", mk(mariadbconnector.dialect, "qmark", _backslash_escapes=True), "mysql", "python"),
        ("mariadb/connector/nobs", mk(mariadbconnector.dialect, "qmark", _backslash_escapes=False), "mysql_nobs", "python"),
        ("mssql/pyodbc", mk(pyodbc.dialect, "qmark"), "mssql", "python"),
        ("mssql/pymssql", mk(pymssql.dialect, "pyformat"), "mssql", "nodouble"),
        ("oracle/named", mk(orabase.OracleDialect, "named"), "oracle", "python"),
    ]


def _known_token(ps, trig, mode, name):
    if mode == "lb" and ps in ("qmark", "format", "numeric", "numeric_dollar") and "pyformat" in trig:
        return "C05/positional-regex-rewrites-literal"
    if mode == "lb" and ps in ("qmark", "format") and "postcompile" in trig:
        return "C05/positional-regex-rewrites-literal"
    if mode == "le" and ps in ("numeric", "numeric_dollar") and "pyformat" in trig:
        return "C05/numeric-postcompile-regex-rewrites-literal"
    return None


def _oracle_unit(unit):
    """TO_DATE('..', 'fmt') / TO_TIMESTAMP('..', 'fmt') -> single string unit"""
    if len(unit) == 6 and unit[0][0] == "word" and unit[0][1] in ("TO_DATE", "TO_TIMESTAMP") and unit[1] == ("op", "(") and unit[2][0] == "str" and unit[3] == ("op", ",") \
            and unit[4][0] == "str" and unit[5] == ("op", ")"):
        fmt = unit[4][1]
        if fmt in ("YYYY-MM-DD", "YYYY-MM-DD HH24:MI:SS", "YYYY-MM-DD HH24:MI:SS.FF"):
            return [unit[2]]
    return unit


def _align(bound, lit, flavor, kind):
    """like T.align but lets an Oracle date unit span its TO_DATE(...) call"""
    units = []
    i = j = 0
    nb, nl = len(bound), len(lit)
    while i < nb:
        bt = bound[i]
        if bt[0] != "ph":
            if j >= nl or lit[j] != bt:
                got = lit[j] if j < nl else None
                raise T.LexError("shape", f"token #{j} of the literal rendering is {got!r}, the bound rendering has {bt!r} there")
            i += 1
            j += 1
            continue
        if j >= nl:
            raise T.LexError("shape", "literal rendering ends before the placeholder position")
        take = 1
        if lit[j][0] == "ph":
            take = 1
        elif lit[j] == ("op", "-") and j + 1 < nl and lit[j + 1][0] == "num":
            take = 2
        elif flavor == "oracle" and kind in ("date", "datetime") and lit[j][0] == "word" and lit[j][1] in ("TO_DATE", "TO_TIMESTAMP"):
            take = 6
        units.append(lit[j:j + take])
        j += take
        i += 1
    if j != nl:
        raise T.LexError("shape", f"literal rendering has {nl - j} extra trailing token(s): {lit[j:j + 6]!r}")
    return units


def _same_value(got, v, kind):
    if kind == "float":
        return isinstance(got, float) and (got == v or abs(got - v) <= math.ulp(abs(v)))
    if kind == "decimal":
        return isinstance(got, decimal.Decimal) and got == v
    if kind in ("date", "datetime", "time"):
        return got == v
    return type(got) is type(v) and got == v


def _strip_casts(toks):
    """bound renderings of some drivers carry '::TYPE' / CAST(.. AS ..) around placeholders; literal rendering
    may legitimately differ in that wrapper (render_literal_cast).  We keep them: both sides are compared as is."""
    return toks


def check_token(case, ctx):
    warnings.simplefilter("ignore")
    spec = case["val"]
    pos = case["pos"]
    mode = case["mode"]
    pinned = bool(case.get("pinned"))
    only = case.get("only")
    spec = _limit_spec(spec, pos)
    v0, kind = value_of(spec)
    src = effective_source(case.get("src", "plain"), pos)
    if mode == "lb" and src in DEFERRED and not pinned:
        # known finding C05/params-ignored-by-literal-binds: statement.params() values are not seen by literal_binds (renders NULL)
        ctx.exclude("value attached with statement.params() rendered under literal_binds (known finding C05/params-ignored-by-literal-binds)")
        src = "callable"
    classes = {kind, pos, mode, "value-source:" + src}
    nontriv = interesting(v0, kind) or src != "plain"
    trig = triggers(v0)
    if trig:
        classes.add("lookalike")
    try:
        for name, dialect, flavor, percent in _dialects():
            if only and name != only:
                continue
            ps = dialect.paramstyle
            v = v0
            known = _known_token(ps, trig, mode, name)
            if mode == "lb" and src in DEFERRED:
                known = known or "C05/params-ignored-by-literal-binds"
            if known and not pinned:
                ctx.exclude(f"string matching the compiler's bind-template regex on a positional paramstyle (known finding {known})")
                v = neutralise(v0, trig)
            if flavor == "mssql" and percent == "nodouble" and isinstance(v, str) and (re.search(r"%\([^)]+\)[sd]", v) or (pos in ("in", "tuple_in", "tin") and "%(" in v)):
                # (in a multi-value position the driver's %(name)s scan can also match across two renderings of the value)
                # pymssql substitutes %(name)s inside literals and offers no escape: driver limitation, out of scope
                v = v.replace("%(", "%{")
            if False and pos == "offset" and flavor == "sqlite" and mode == "lb" and not pinned:  # repaired in /repo (fix: dc0a8c5): generated again
                ctx.exclude("sqlite OFFSET without LIMIT under literal_binds (known finding C05/sqlite-offset-no-limit)")
                continue
            if pos == "returning" and mode == "lb" and not pinned:
                ctx.exclude("bind inside RETURNING under literal_binds (known finding C05/returning-ignores-literal-binds)")
                continue
            if pos == "returning" and not (dialect.insert_returning):
                continue
            ty = sa_type(spec)
            tbl = _table(ty)
            where = f"{name} ({ps}), {pos}, {mode}"
            bound_c = make_stmt(pos, spec, v, "bound", tbl, src).for_compile().compile(dialect=dialect, compile_kwargs={"render_postcompile": True})
            bound_sql = str(bound_c)
            try:
                if mode == "lb":
                    lit_c = make_stmt(pos, spec, v, "bound", tbl, src).for_compile().compile(dialect=dialect, compile_kwargs={"literal_binds": True})
                else:
                    lit_c = make_stmt(pos, spec, v, "le", tbl, src).for_compile().compile(dialect=dialect, compile_kwargs={"render_postcompile": True})
                lit_sql = str(lit_c)
            except KeyError as e:
                raise Violation(known or f"C05/token/compile-keyerror/{ps}", f"{where}: compiling value {v!r} raises KeyError {e} (bind-template regex applied to the rendered literal)")
            try:
                bt = T.lex(bound_sql, flavor, ps, percent)
            except T.LexError as e:
                raise Violation(f"C05/token/bound-lex/{flavor}", f"{where}: bound rendering not lexable: {e}", observed=bound_sql)
            try:
                lt = T.lex(lit_sql, flavor, ps, percent)
            except T.LexError as e:
                if flavor == "mssql" and percent == "nodouble" and e.kind == "placeholder-in-quotes" and isinstance(v, str) and "%(" in v:
                    # the value is rendered more than once (e.g. OUTPUT + VALUES) and pymssql's %(name)s scan matches from the "%(" of one
                    # rendering to a ")s" of the next; the driver offers no escape for "%(" inside a literal: driver limitation, out of scope
                    ctx.exclude("pymssql: '%(' inside a literal that is rendered more than once (driver has no escape)")
                    continue
                raise Violation(known or f"C05/token/{e.kind}/{flavor}", f"{where}: the literal rendering of {v!r} is not lexically valid for this driver+backend: {e}", observed=lit_sql, expected=bound_sql)
            if mode == "lb" and any(t[0] == "ph" for t in lt):
                sig = known
                if pos == "offset" and flavor == "sqlite":
                    sig = "C05/sqlite-offset-no-limit"
                if pos == "returning":
                    sig = "C05/returning-ignores-literal-binds"
                raise Violation(sig or f"C05/token/placeholder-left/{flavor}", f"{where}: literal_binds rendering still contains a placeholder", observed=lit_sql, expected=bound_sql)
            if mode == "lb" and lit_c.positional and lit_c.positiontup:
                raise Violation(known or f"C05/token/literal-binds-has-params/{ps}", f"{where}: literal_binds compilation of {v!r} lists positional parameters {lit_c.positiontup!r}", observed=lit_sql)
            nph_b = sum(1 for t in bt if t[0] == "ph")
            nph_l = sum(1 for t in lt if t[0] == "ph")
            if mode == "le" and nph_b and nph_l >= nph_b:
                # binds the dialect adds itself (SQLite's implicit LIMIT -1) may stay placeholders, ours may not
                raise Violation(known or f"C05/token/placeholder-left/{flavor}", f"{where}: no literal_execute bind was rendered inline", observed=lit_sql, expected=bound_sql)
            try:
                units = _align(bt, lt, flavor, kind)
            except T.LexError as e:
                if pos == "tin_empty" and dialect.tuple_in_values:
                    raise Violation("C05/empty-tuple-in-literal-values-prefix", f"{where}: an empty tuple IN list renders 'VALUES SELECT ...' (syntax error) as a literal; the bound form has no VALUES", observed=lit_sql, expected=bound_sql)
                raise Violation(known or f"C05/token/shape/{flavor}", f"{where}: value {v!r} changes the statement's token structure: {e}", observed=lit_sql, expected=bound_sql)
            # which placeholders carry v: all except the id=50 in values/returning
            units = [u for u in units if not (len(u) == 1 and u[0][0] == "ph")]
            id_units = 0
            for ui, unit in enumerate(units):
                if pos in ("values", "returning"):
                    ok, got = T.decode_literal(unit, "int", flavor)
                    if ok and got == 50 and not (kind == "int" and v == 50):
                        id_units += 1
                        continue
                if pos in ("limit", "offset"):
                    ok, got = T.decode_literal(unit, "int", flavor)
                    if ok and got == v:
                        id_units += 1
                    continue  # dialects add their own literals here (OFFSET 0, LIMIT -1, MySQL's 18446744073709551615)
                if pos == "tin" and ui % 2 == 1:
                    ok, got = T.decode_literal(unit, "int", flavor)
                    if not ok or got != 1 + ui // 2:
                        raise Violation(f"C05/token/decode/{flavor}/int", f"{where}: tuple element literal decodes to {got!r}", observed=lit_sql)
                    continue
                if flavor == "oracle":
                    unit = _oracle_unit(unit)
                ok, got = T.decode_literal(unit, kind, flavor)
                if not ok:
                    raise Violation(known or f"C05/token/unit/{flavor}/{kind}", f"{where}: value {v!r}: {got}", observed=lit_sql, expected=bound_sql)
                if kind == "str" and flavor == "mssql" and any(ord(c) > 127 for c in v) and unit[0][2] != "N":
                    continue  # code-page question, not lexical
                if not _same_value(got, v, kind):
                    raise Violation(known or f"C05/token/decode/{flavor}/{kind}", f"{where}: the literal decodes to {got!r} by the {flavor} literal grammar, the value is {v!r}",
                                    observed=lit_sql, expected=repr(v))
            if pos in ("limit", "offset") and units and id_units < 1:
                raise Violation(f"C05/token/decode/{flavor}/int", f"{where}: no literal {v!r} among the rendered LIMIT/OFFSET literals", observed=lit_sql, expected=bound_sql)
            if pos in ("values", "returning") and units and id_units != 1 and not (kind == "int" and v == 50):
                raise Violation(f"C05/token/decode/{flavor}/int", f"{where}: expected exactly one literal 50 for the id column, found {id_units}", observed=lit_sql)
    finally:
        ctx.note(case, nontriv, classes=sorted(classes))


_dialects()  # import all dialect modules at module import (outside the per-sub time budget)

# ---------------------------------------------------------------- strategies
_str_val = st.fixed_dictionaries({"t": st.just("str"), "a": st.lists(st.integers(0, len(ATOMS) - 1), min_size=0, max_size=8), "u": st.booleans()})
_int_val = st.fixed_dictionaries({"t": st.just("int"), "v": st.one_of(st.sampled_from(INT_SPECIAL), st.integers(-(2**63), 2**63 - 1), st.integers(-1000, 1000))})
_float_val = st.fixed_dictionaries({"t": st.just("float"), "v": st.one_of(st.sampled_from(FLOAT_SPECIAL), st.floats(allow_nan=False, allow_infinity=False), st.floats(-1e6, 1e6))})


@st.composite
def _dec_val(draw):
    digits = draw(st.integers(0, 10**15 - 1))
    exp = draw(st.integers(-12, 12))
    sign = draw(st.sampled_from(["", "-"]))
    form = draw(st.integers(0, 2))
    d = decimal.Decimal(f"{sign}{digits}E{exp}")
    if form == 0:
        s = format(d, "f")
    elif form == 1:
        s = str(d)
    else:
        s = str(d.normalize())
    return {"t": "dec", "v": s}


_date_val = st.fixed_dictionaries({"t": st.just("date"), "v": st.one_of(st.sampled_from([[1, 1, 1], [9999, 12, 31], [1970, 1, 1], [2000, 2, 29], [999, 9, 9]]),
                                                                          st.dates().map(lambda d: [d.year, d.month, d.day]))})
_dt_val = st.fixed_dictionaries({"t": st.just("dt"), "v": st.one_of(
    st.sampled_from([[1, 1, 1, 0, 0, 0, 0], [9999, 12, 31, 23, 59, 59, 999999], [2020, 1, 2, 3, 4, 5, 0], [2020, 1, 2, 0, 0, 0, 1], [1969, 12, 31, 23, 59, 59, 500000]]),
    st.datetimes().map(lambda d: [d.year, d.month, d.day, d.hour, d.minute, d.second, d.microsecond]))})
_time_val = st.fixed_dictionaries({"t": st.just("time"), "v": st.one_of(st.sampled_from([[0, 0, 0, 0], [23, 59, 59, 999999], [12, 0, 0, 1]]),
                                                                          st.times().map(lambda d: [d.hour, d.minute, d.second, d.microsecond]))})
_bool_val = st.fixed_dictionaries({"t": st.just("bool"), "v": st.booleans()})
_none_val = st.fixed_dictionaries({"t": st.just("none"), "of": st.sampled_from(["str", "int"])})
_others = [_int_val, _float_val, _dec_val(), _date_val, _dt_val, _time_val, _bool_val, _none_val]
# weights by index (one_of() de-duplicates a repeated strategy object): strings are half of all values
_values = st.integers(0, 15).flatmap(lambda n: _str_val if n < 8 else _others[n - 8])

# how the value reaches the bind: plain and callable weighted up, every other source present
_SRC_W = ["plain", "callable", "exec", "params", "required", "twice", "twice_unique", "twice_sep", "callable", "plain", "exec", "params", "required", "twice", "twice_unique", "twice_sep", "callable"]
# Hypothesis favours small integers / first elements: scramble the index so that every source keeps its weight
_sources = st.integers(0, 2**16).map(lambda n: _SRC_W[((n * 2654435761) >> 5) % len(_SRC_W)])
_live_cases = st.fixed_dictionaries({"src": _sources, "pos": st.sampled_from(POSITIONS), "ps": st.sampled_from(["named", "format", "pyformat", "numeric", "numeric_dollar", "qmark"]),
                                     "val": _values})
_token_cases = st.fixed_dictionaries({"src": _sources, "pos": st.sampled_from(POSITIONS + ["in", "where"] + FINDING_POSITIONS), "mode": st.sampled_from(["lb", "le"]), "val": _values})


def _enum_cases(tier):
    """every single atom, and every ordered pair of the escape-critical atoms, in WHERE, both modes"""
    crit = [i for i, a in enumerate(ATOMS) if a in ("'", "\\", "%", "\\'", "''", "\\\\", ":x", "%(x)s", "__[POSTCOMPILE_x]", "%s", "%%", "\n", '"', "E'", "N'", "--", "/*", "?", "$1", "%'", "\\%")]
    for mode in ("lb", "le"):
        for i in range(len(ATOMS)):
            yield {"val": {"t": "str", "a": [i], "u": False}, "pos": "where", "mode": mode}
        for pos in POSITIONS + FINDING_POSITIONS:
            for src in SOURCES[1:]:
                yield {"val": {"t": "str", "a": [0, 22], "u": False}, "pos": pos, "mode": mode, "src": src}
                yield {"val": {"t": "int", "v": 7}, "pos": pos, "mode": mode, "src": src}
        for i in crit:
            for j in crit:
                yield {"val": {"t": "str", "a": [i, j], "u": bool((i + j) % 2)}, "pos": "select", "mode": mode}
        if tier == "thorough":
            for i in crit:
                for j in crit:
                    for k in crit:
                        yield {"val": {"t": "str", "a": [i, j, k], "u": False}, "pos": "in", "mode": mode}
    for v in INT_SPECIAL:
        for pos in ("select", "values"):
            yield {"val": {"t": "int", "v": v}, "pos": pos, "mode": "lb"}
    for v in FLOAT_SPECIAL:
        yield {"val": {"t": "float", "v": v}, "pos": "where", "mode": "lb"}


def subs(tier):
    return [
        Enumerated("token_enum", check_token, cases=_enum_cases, budget_s_quick=20.0),
        Generated("token", check_token, strategy=_token_cases, quick=6000, thorough=300000, budget_s_quick=30.0),
        Generated("live", check_live, strategy=_live_cases, quick=5000, thorough=200000, budget_s_quick=25.0),
    ]
