"""C07 - IN / NOT IN with expanding parameters follows SQL semantics.

live (SQLite): for a left operand (nullable column, bound literal, NULL, tuple of 1-3 columns), a value
list (empty, NULLs, duplicates, tuples) and a form (in_, not_in, ~in_, ~not_in) the statement is executed
in WHERE / HAVING / CASE WHEN / SELECT-list position and in four binding modes (inline list, bindparam(expanding),
literal_execute, literal_binds), twice on the same engine with two different lists (warm compiled cache).
Every per-row truth value (TRUE/FALSE/NULL) must equal (a) a Python three-valued-logic model of the explicit
OR-of-equalities and (b) that OR-of-equalities written as raw SQL text and evaluated by SQLite itself.

emptyset (postgresql, mysql, mariadb, mssql, oracle + sqlite): the statement text each dialect emits for an
empty list is parsed with the vendor precedence table (checks/_sqlparse.py) and evaluated by a small 3VL
interpreter in several surrounding contexts.
"""
from __future__ import annotations

import itertools

from hypothesis import strategies as st

from vf.api import Enumerated, Generated, HarnessError, Violation

PROPERTY = "C07"
LEVEL = "exploration"
RULE = (
    "exh: every (left operand in {column over rows NULL/0/1, literal 0, literal 1, NULL, TypeDecorator(+100) column}) x (value list over {NULL,0,1} of length 0..3) x "
    "(in_, not_in, ~in_, ~not_in) x (select, where, having, case) x (inline, bindparam, literal_execute, literal_binds); "
    "random: 3 nullable int columns + 1 string column + 3 columns typed by value-converting TypeDecorators (int offset with process_bind_param only; "
    "string prefix with process_bind_param and process_literal_param; string prefix + bind_expression lower()), 1-5 rows; scalar column / bound literal "
    "(plain or decorator-typed) or 1..3-column tuple operand (decorator columns included); "
    "two lists of length 0..6 with NULLs and duplicates executed one after the other on the same engine (second hits the compiled cache); "
    "emptyset: (dialect) x (scalar / 2-tuple) x (form) x (surrounding context) x (left value NULL/0/1). "
    "Non-trivial: a list is empty, contains NULL, has duplicates, the operand is a tuple or NULL, or the second execution changes length/emptiness; "
    "distinct = canonical JSON of the case"
)
ASSUMPTIONS = [
    "documented SQLAlchemy choice: IN against an empty list is FALSE and NOT IN is TRUE for every row, NULL left operands included",
    "reference (a) is three-valued logic as defined by SQL-92 (x = NULL is UNKNOWN; row-value equality is the AND of element equalities)",
    "reference (b) is SQL text written by the harness (only integer / NULL / simple quoted-string literals) and evaluated by SQLite itself",
    "PostgreSQL / MySQL / MariaDB / MSSQL / Oracle are not executed: their empty-set expressions are evaluated by the 3VL interpreter over the "
    "vendor precedence tables in checks/_sqlparse.py (trusted); an empty sub-select is taken to make IN false / NOT IN true (SQL-92 8.4)",
    "raw DBAPI values are read (result processors bypassed)",
    "TypeDecorator operands: the list must reach the database converted exactly once in every mode (bound, bindparam, literal_execute, literal_binds); the "
    "reference compares against the converted values the harness computes itself, and the fixture insert is verified against that conversion model first",
]

FORMS = ["in", "not_in", "inv_in", "inv_not_in"]
POSITIONS = ["select", "where", "having", "case"]
MODES = ["inline", "bindparam", "literal_execute", "literal_binds"]


# ------------------------------------------------------------------ reference model (3VL)
def eq3(a, b):
    if a is None or b is None:
        return None
    return a == b


def and3(a, b):
    if a is False or b is False:
        return False
    if a is None or b is None:
        return None
    return True


def or3(a, b):
    if a is True or b is True:
        return True
    if a is None or b is None:
        return None
    return False


def not3(a):
    return None if a is None else (not a)


def in3(x, vals, tuple_):
    r = False
    for v in vals:
        if tuple_:
            e = True
            for xa, va in zip(x, v):
                e = and3(e, eq3(xa, va))
        else:
            e = eq3(x, v)
        r = or3(r, e)
    return r


def model(form, x, vals, tuple_):
    r = in3(x, vals, tuple_)
    return r if form in ("in", "inv_not_in") else not3(r)


# ------------------------------------------------------------------ raw SQL reference
def _lit(v):
    if v is None:
        return "NULL"
    if isinstance(v, bool):
        raise HarnessError("no booleans in C07 domain")
    if isinstance(v, int):
        return str(v)
    if isinstance(v, str) and "'" not in v and "\\" not in v:
        return "'" + v + "'"
    raise HarnessError(f"value {v!r} outside the harness literal grammar")


def ref_sql(form, lhs_sqls, vals, tuple_):
    terms = []
    for v in vals:
        vs = v if tuple_ else [v]
        terms.append("(" + " AND ".join(f"({l} = {_lit(x)})" for l, x in zip(lhs_sqls, vs)) + ")")
    body = " OR ".join(terms) if terms else "0"
    return f"({body})" if form in ("in", "inv_not_in") else f"(NOT ({body}))"


# ------------------------------------------------------------------ live execution
COLS = ["a", "b", "c", "s", "d", "u", "w"]
DECO = ("d", "u", "w")


def stored(col, v):
    """what the database holds / is compared with for Python value v of column col (value-converting TypeDecorators on d, u, w)"""
    if v is None:
        return None
    if col == "d":
        return v + 100  # OffsetInt.process_bind_param
    if col == "u":
        return "p:" + v  # PrefixStr.process_bind_param == process_literal_param
    if col == "w":
        return ("P:" + v).lower()  # FoldStr.process_bind_param, then bind_expression lower(...)
    return v


_TYPES = {}


def _deco_types(sa):
    if _TYPES:
        return _TYPES

    class OffsetInt(sa.types.TypeDecorator):
        """only process_bind_param: literal rendering must fall back to it"""

        impl = sa.Integer
        cache_ok = True

        def process_bind_param(self, value, dialect):
            return None if value is None else value + 100

        def process_result_value(self, value, dialect):
            return None if value is None else value - 100

    class PrefixStr(sa.types.TypeDecorator):
        """process_bind_param and process_literal_param both given"""

        impl = sa.String
        cache_ok = True

        def process_bind_param(self, value, dialect):
            return None if value is None else "p:" + value

        def process_literal_param(self, value, dialect):
            return None if value is None else "p:" + value

    class FoldStr(sa.types.TypeDecorator):
        """value conversion plus a SQL-level bind_expression (the bind_expression_template branch of literal rendering)"""

        impl = sa.String
        cache_ok = True

        def process_bind_param(self, value, dialect):
            return None if value is None else "P:" + value

        def bind_expression(self, bindvalue):
            return sa.func.lower(bindvalue)

    _TYPES.update(d=OffsetInt, u=PrefixStr, w=FoldStr)
    return _TYPES


def _mk(sa):
    ty = _deco_types(sa)
    md = sa.MetaData()
    t = sa.Table("t", md, sa.Column("id", sa.Integer, primary_key=True), sa.Column("a", sa.Integer), sa.Column("b", sa.Integer),
                 sa.Column("c", sa.Integer), sa.Column("s", sa.String(10)),
                 sa.Column("d", ty["d"]()), sa.Column("u", ty["u"]()), sa.Column("w", ty["w"]()))
    return md, t


def _lhs(sa, t, lhs, literal=False):
    """-> (element, [sql text per component], tuple?, python getter(row)->value)"""
    k = lhs[0]
    if k == "col":
        name = lhs[1]
        return t.c[name], [f"t.{name}"], False, (lambda row: stored(name, row.get(name)))
    if k == "dlit":
        # bound literal whose type is the value-converting decorator of column lhs[1]
        name, v = lhs[1], lhs[2]
        wrap = "lower(%s)" if name == "w" else "%s"
        return sa.literal(v, _deco_types(sa)[name]()), [wrap % _lit("P:" + v if name == "w" else stored(name, v))], False, (lambda row: stored(name, v))
    if k == "lit":
        v = lhs[1]
        return sa.literal(v, sa.Integer() if isinstance(v, int) else sa.String()), [_lit(v)], False, (lambda row: v)
    if k == "null":
        # a bare null() gives the list parameter NullType, which documents "no literal value renderer": typed NULL in the literal modes
        if literal:
            return sa.literal(None, sa.Integer()), ["NULL"], False, (lambda row: None)
        return sa.null(), ["NULL"], False, (lambda row: None)
    if k == "litnull":
        return sa.literal(None, sa.Integer()), ["NULL"], False, (lambda row: None)
    if k == "tuple":
        names = lhs[1]
        return sa.tuple_(*[t.c[n] for n in names]), [f"t.{n}" for n in names], True, (lambda row: tuple(stored(n, row.get(n)) for n in names))
    raise HarnessError(f"lhs {lhs!r}")


def _expr(sa, el, form, mode, vals, tuple_, with_value=False):
    """the expression under test and the execution parameters"""
    params = {}
    if mode in ("inline", "literal_binds"):
        right = [tuple(v) for v in vals] if tuple_ else list(vals)
    else:
        params = {"v": [tuple(v) for v in vals] if tuple_ else list(vals)}
        kw = {"value": params["v"]} if with_value else {}
        right = sa.bindparam("v", expanding=True, literal_execute=(mode == "literal_execute"), **kw)
    if form == "in":
        e = el.in_(right)
    elif form == "not_in":
        e = el.not_in(right)
    elif form == "inv_in":
        e = ~el.in_(right)
    else:
        e = ~el.not_in(right)
    return e, params


def _stmt(sa, t, e, pos):
    if pos == "select":
        return sa.select(t.c.id, e.label("v")).order_by(t.c.id)
    if pos == "where":
        return sa.select(t.c.id).where(e).order_by(t.c.id)
    if pos == "having":
        return sa.select(t.c.id).group_by(t.c.id, t.c.a, t.c.b, t.c.c, t.c.s).having(e).order_by(t.c.id)
    if pos == "case":
        return sa.select(t.c.id, sa.case((e, 1), else_=0).label("v")).order_by(t.c.id)
    raise HarnessError(pos)


def _tv(v):
    return None if v is None else bool(v)


def _execute(conn, stmt, params, mode):
    if mode == "literal_binds":
        import warnings

        with warnings.catch_warnings():
            warnings.simplefilter("ignore")  # "rendering literal NULL in a SQL expression" is expected here
            sql = str(stmt.compile(conn.engine, compile_kwargs={"literal_binds": True}))
        raw = conn.connection.dbapi_connection
        return raw.execute(sql).fetchall(), sql
    res = conn.execute(stmt, params)
    try:
        rows = res.cursor.fetchall()
    finally:
        res.close()
    return rows, None


def _deco_cols(lhs):
    if lhs[0] in ("col", "dlit"):
        return [lhs[1]] if lhs[1] in DECO else []
    if lhs[0] == "tuple":
        return [n for n in lhs[1] if n in DECO]
    return []


def _svals(lhs, vals):
    """the list as the database must see it (decorator conversion applied per operand column)"""
    if lhs[0] in ("col", "dlit"):
        return [stored(lhs[1], v) for v in vals]
    if lhs[0] == "tuple":
        return [tuple(stored(n, x) for n, x in zip(lhs[1], v)) for v in vals]
    return list(vals)


def run_live(case, ctx, note=True):
    import sqlite3

    import sqlalchemy as sa
    from vf import sautil

    rows = case["rows"]
    lhs = case["lhs"]
    form, pos, mode = case["form"], case["pos"], case["mode"]
    lists = case["lists"]
    tuple_ = lhs[0] == "tuple"
    if note:
        cls = ["form:" + form, "pos:" + pos, "mode:" + mode, "lhs:" + lhs[0]]
        flat = [x for l in lists for v in l for x in (v if tuple_ else [v])]
        feats = []
        if any(len(l) == 0 for l in lists):
            feats.append("empty-list")
        if any(x is None for x in flat):
            feats.append("null-in-list")
        if any(len({repr(v) for v in l}) < len(l) for l in lists):
            feats.append("duplicates")
        if tuple_:
            feats.append("tuple")
        if lhs[0] in ("null", "litnull") or any(r.get(lhs[1]) is None for r in rows if lhs[0] == "col"):
            feats.append("null-lhs")
        if len(lists) > 1 and (len(lists[0]) != len(lists[1])):
            feats.append("rebind-length-change")
        if len(lists) > 1 and ((len(lists[0]) == 0) != (len(lists[1]) == 0)):
            feats.append("rebind-emptiness-change")
        if _deco_cols(lhs):
            feats.append("decorator-type")
            if mode in ("literal_execute", "literal_binds"):
                feats.append("decorator-type-literal-mode")
        ctx.note(case, bool(feats), classes=cls + feats)

    md, t = _mk(sa)
    el, lhs_sqls, _, getter = _lhs(sa, t, lhs, literal=mode in ("literal_execute", "literal_binds"))
    if False and tuple_ and mode in ("literal_execute", "literal_binds") and any(len(l) == 0 for l in lists) and not case.get("pinned"):  # repaired in /repo (fix: 5b69129): no longer excluded
        # confirmed: "(a, b) IN (VALUES SELECT 1, 1 FROM ...)" - excluded by construction, one pinned replay
        ctx.exclude("tuple-empty-list-literal-values-prefix")
        lists = [l if l else [[None] * len(lhs[1])] for l in lists]
    if lhs[0] in ("col", "dlit") and lhs[1] == "w" and any(len(l) == 0 for l in lists) and not case.get("pinned"):
        # confirmed: empty list against a type with bind_expression() renders "w IN (lower(SELECT 1 ...))" - excluded by construction, one pinned replay
        ctx.exclude("bind-expression-type-empty-list")
        lists = [l if l else [None] for l in lists]
    eng = sautil.mem_engine()
    cap = sautil.Capture(eng)
    try:
        with eng.connect() as conn:
            md.create_all(conn)
            conn.execute(t.insert(), [{c: r.get(c) for c in ["id"] + COLS} for r in rows])
            raw = conn.connection.dbapi_connection
            held = raw.execute("SELECT id, d, u, w FROM t ORDER BY id").fetchall()
            want_held = sorted((r["id"], stored("d", r.get("d")), stored("u", r.get("u")), stored("w", r.get("w"))) for r in rows)
            if sorted(held) != want_held:
                raise HarnessError(f"fixture: decorator columns hold {held}, the conversion model says {want_held}")
            for n_exec, vals in enumerate(lists):
                e, params = _expr(sa, el, form, mode, vals, tuple_)
                stmt = _stmt(sa, t, e, pos)
                cap.clear()
                try:
                    got, lsql = _execute(conn, stmt, params, mode)
                except (sa.exc.DBAPIError, sqlite3.Error) as err:
                    sent = cap.rows[-1][0] if cap.rows else str(getattr(err, "statement", ""))
                    if tuple_ and not vals and mode in ("literal_execute", "literal_binds"):
                        kind = "tuple-empty-list-literal-values-prefix"
                    elif not vals and lhs[0] in ("col", "dlit") and lhs[1] == "w":
                        kind = "bind-expression-type-empty-list"
                    else:
                        kind = f"{form}/{mode}/backend-error"
                    raise Violation(f"C07/{kind}", f"{form} in {pos} position, mode {mode}, values {vals!r}: backend rejects the statement: {err}", observed=str(err)[:500])
                sent = lsql if lsql is not None else (cap.rows[-1][0] if cap.rows else "?")
                sv = _svals(lhs, vals)
                want_model = {r["id"]: model(form, getter(r), sv, tuple_) for r in rows}
                rs = ref_sql(form, lhs_sqls, sv, tuple_)
                want_sql = {i: _tv(v) for i, v in raw.execute(f"SELECT id, {rs} FROM t ORDER BY id").fetchall()}
                if want_sql != want_model:
                    raise HarnessError(f"the two references disagree: {rs} -> {want_sql} vs model {want_model}")
                if pos == "select":
                    obs = {i: _tv(v) for i, v in got}
                    exp = want_model
                elif pos == "case":
                    obs = {i: v for i, v in got}
                    exp = {i: (1 if w is True else 0) for i, w in want_model.items()}
                else:
                    obs = sorted(i for (i,) in got)
                    exp = sorted(i for i, w in want_model.items() if w is True)
                if obs != exp:
                    if not vals:
                        sig = "empty-list"
                    elif any(x is None for v in vals for x in (v if tuple_ else [v])):
                        sig = "null-in-list"
                    else:
                        sig = "values"
                    if _deco_cols(lhs):
                        sig = "typedecorator-" + sig
                    if any(getter(r) is None or (tuple_ and None in getter(r)) for r in rows if (obs if isinstance(obs, dict) else {}).get(r["id"]) != (exp if isinstance(exp, dict) else {}).get(r["id"])):
                        sig += "-null-lhs"
                    raise Violation(
                        f"C07/{form}/{mode}/{sig}" + ("/rebind" if n_exec else ""),
                        f"{form} in {pos} position, mode {mode}, execution #{n_exec + 1} with values {vals!r}: statement {sent!r}",
                        observed=obs, expected={"model": exp, "reference_sql": rs},
                    )
    finally:
        cap.close()
        eng.dispose()


# ------------------------------------------------------------------ exhaustive small domain
_EXH_ROWS = [{"id": 1, "a": None, "b": 0, "c": 0, "s": None, "d": None, "u": None, "w": None},
             {"id": 2, "a": 0, "b": 0, "c": 1, "s": "a", "d": 0, "u": "a", "w": "a"},
             {"id": 3, "a": 1, "b": None, "c": 1, "s": "b", "d": 1, "u": "A", "w": "A"}]
_EXH_LHS = [["col", "a"], ["lit", 0], ["lit", 1], ["null"], ["col", "d"]]


def _exh_cases(tier):
    dom = [None, 0, 1]
    lists = [list(p) for n in range(0, 4) for p in itertools.product(dom, repeat=n)]
    for lhs in _EXH_LHS:
        for vals in lists:
            for form in FORMS:
                for pos in POSITIONS:
                    for mode in MODES:
                        yield [lhs, vals, form, pos, mode]


def check_exh(case, ctx):
    lhs, vals, form, pos, mode = case
    run_live({"rows": _EXH_ROWS, "lhs": lhs, "lists": [vals], "form": form, "pos": pos, "mode": mode}, ctx)


# ------------------------------------------------------------------ random
@st.composite
def _random_cases(draw):
    ints = st.sampled_from([None, 0, 1, 2, 0, 1, 2])
    strs = st.sampled_from([None, "a", "b", "", "a", "b"])
    n = draw(st.integers(1, 5))
    dstr = st.sampled_from([None, "a", "A", "b", "a", "A"])
    rows = [{"id": i + 1, "a": draw(ints), "b": draw(ints), "c": draw(ints), "s": draw(strs), "d": draw(ints), "u": draw(dstr), "w": draw(dstr)}
            for i in range(n)]
    vstrat = {"a": ints, "b": ints, "c": ints, "s": strs, "d": ints, "u": dstr, "w": dstr}
    k = draw(st.integers(0, 12))
    if k >= 11:
        # operand typed by a value-converting TypeDecorator (column or bound literal)
        name = draw(st.sampled_from(list(DECO)))
        val = vstrat[name]
        if draw(st.integers(0, 2)) == 0:
            lhs = ["dlit", name, draw(val.filter(lambda v: v is not None))]
        else:
            lhs = ["col", name]
    elif k <= 2:
        lhs = ["col", draw(st.sampled_from(["a", "b", "c"]))]
        val = ints
    elif k == 3:
        lhs = ["col", "s"]
        val = strs
    elif k == 4:
        lhs = ["lit", draw(st.sampled_from([0, 1, 2, "a", ""]))]
        val = ints if isinstance(lhs[1], int) else strs
    elif k == 5:
        lhs = [draw(st.sampled_from(["null", "litnull"]))]
        val = ints
    else:
        arity = draw(st.integers(1, 3))
        # "w" (bind_expression type) stays scalar: bind_expression() is documented as unsupported on tuple types
        names = draw(st.permutations(["a", "b", "c", "s", "d", "u"]))[:arity]
        lhs = ["tuple", list(names)]
        val = st.tuples(*[vstrat[nm] for nm in names]).map(list)
    lists = [draw(st.lists(val, min_size=0, max_size=6)) for _ in range(2)]
    if draw(st.integers(0, 3)) == 0:
        lists[draw(st.integers(0, 1))] = []
    return {"rows": rows, "lhs": lhs, "lists": lists, "form": draw(st.sampled_from(FORMS)), "pos": draw(st.sampled_from(POSITIONS)),
            "mode": draw(st.sampled_from(MODES))}


def check_random(case, ctx):
    run_live(case, ctx)


# ------------------------------------------------------------------ empty-set expressions of the other dialects (3VL interpreter)
ES_DIALECTS = ["sqlite", "postgresql", "mysql", "mariadb", "mssql", "oracle"]
ES_CONTEXTS = ["bare", "not", "and", "or", "and_not", "case", "eq_true"]


def _es_cases(tier):
    for d in ES_DIALECTS:
        for tup in (False, True):
            for form in FORMS:
                for cx in ES_CONTEXTS:
                    for mode in ("inline", "literal_execute"):
                        yield [d, tup, form, cx, mode]


class _Eval:
    """3VL evaluation of the parse tree of a boolean expression over an environment of column values"""

    def __init__(self, env, resolve):
        self.env = env
        self.resolve = resolve

    def ev(self, a):
        k = a[0]
        if k == "paren":
            return self.ev(a[1])
        if k == "atom":
            if a[1] == "num":
                return int(a[2]) if a[2].isdigit() else float(a[2])
            if a[1] == "kw":
                return {"NULL": None, "TRUE": True, "FALSE": False}[a[2]]
            if a[1] == "id":
                name = a[2].lower()
                if name in ("true", "false"):
                    return name == "true"
                return self.env[name]
            raise HarnessError(f"atom {a}")
        if k == "param":
            return self.resolve(a[1])
        if k == "pgcast":
            return self.ev(a[1])
        if k == "cast":
            return self.ev(a[1])
        if k == "tuple":
            return tuple(self.ev(x) for x in a[1])
        if k == "un" and a[1] == "NOT":
            return not3(self.truth(self.ev(a[2])))
        if k == "bin":
            op = a[1]
            if op == "AND":
                return and3(self.truth(self.ev(a[2])), self.truth(self.ev(a[3])))
            if op == "OR":
                return or3(self.truth(self.ev(a[2])), self.truth(self.ev(a[3])))
            l, r = self.ev(a[2]), self.ev(a[3])
            if op in ("=", "=="):
                return self.eq(l, r)
            if op in ("!=", "<>"):
                return not3(self.eq(l, r))
            raise HarnessError(f"operator {op}")
        if k == "in":
            x = self.ev(a[2])
            rhs = a[3]
            if rhs[0] == "subq":
                rows = self.subq(rhs)
            else:
                rows = [self.ev(i) for i in rhs[1]]
            r = False
            for v in rows:
                r = or3(r, self.eq(x, v))
            return not3(r) if a[1] else r
        if k == "case":
            for w, t in a[2]:
                if self.truth(self.ev(w)) is True:
                    return self.ev(t)
            return self.ev(a[3]) if a[3] is not None else None
        raise HarnessError(f"3VL interpreter: unsupported node {k}")

    def truth(self, v):
        if v is None or isinstance(v, bool):
            return v
        return bool(v)

    def eq(self, l, r):
        if isinstance(l, tuple) or isinstance(r, tuple):
            if not (isinstance(l, tuple) and isinstance(r, tuple) and len(l) == len(r)):
                raise HarnessError(f"row-value arity mismatch {l!r} vs {r!r}")
            e = True
            for x, y in zip(l, r):
                e = and3(e, eq3(x, y))
            return e
        if isinstance(l, bool):
            l = int(l)
        if isinstance(r, bool):
            r = int(r)
        return eq3(l, r)

    def subq(self, sq):
        out = []
        for _, cols, frm, where in sq[1]:
            # FROM-less / DUAL select = one row; a derived table contributes its own row count (0 or 1 here)
            if isinstance(frm, list) and not self.subq(frm):
                continue
            if where is None or self.truth(self.ev(where)) is True:
                vals = tuple(self.ev(c) for c in cols)
                out.append(vals if len(vals) > 1 else vals[0])
        return out


def check_emptyset(case, ctx):
    import warnings

    import sqlalchemy as sa
    from checks import _sqlparse as P
    from checks.c01 import _dialect

    dname, tup, form, cx, mode = case
    if False and dname == "sqlite" and tup and mode == "literal_execute":  # repaired in /repo (fix: 5b69129): no longer excluded
        # confirmed finding (see run_live): "(x, z) IN (VALUES SELECT 1, 1 ...)"; pinned through the random sub
        ctx.exclude("tuple-empty-list-literal-values-prefix")
        ctx.note(case, False, classes=["excluded"])
        return
    ctx.note(case, True, classes=["dialect:" + dname, "ctx:" + cx, "tuple" if tup else "scalar", "form:" + form])
    x, y, z = sa.column("x", sa.Integer), sa.column("y", sa.Integer), sa.column("z", sa.Integer)
    el = sa.tuple_(x, z) if tup else x
    e, params = _expr(sa, el, form, "literal_execute" if mode == "literal_execute" else "inline", [], tup, with_value=True)
    other = y == 1
    if cx == "bare":
        full = e
    elif cx == "not":
        full = sa.not_(e)
    elif cx == "and":
        full = sa.and_(other, e)
    elif cx == "or":
        full = sa.or_(e, other)
    elif cx == "and_not":
        full = sa.and_(sa.not_(e), other)
    elif cx == "case":
        full = sa.case((e, 1), else_=0) == 1
    else:
        full = e == sa.true()
    d = _dialect(dname)
    with warnings.catch_warnings():
        warnings.simplefilter("ignore", sa.exc.SAWarning)
        c = full.compile(dialect=d, compile_kwargs={"render_postcompile": True})
    sql = str(c)
    if "POSTCOMPILE" in sql:
        raise HarnessError(f"empty expanding parameter was not rendered at compile time: {sql}")
    spec = P.SPECS[dname]
    try:
        ast = P.parse(sql, spec)
    except P.ParseError as err:
        raise Violation(f"C07/emptyset/{dname}/unparseable", f"{dname} empty-set rendering does not parse under the vendor grammar model: {sql!r} ({err})", observed=sql)
    cparams = c.params
    pos = list(c.positiontup) if c.positiontup else None

    def resolve(key):
        return cparams[pos[key]] if isinstance(key, int) else cparams[key]

    for xv in (None, 0, 1):
        for zv in ((None, 1) if tup else (0,)):
            for yv in (None, 0, 1):
                lv = (xv, zv) if tup else xv
                inner = model(form, lv, [], tup)
                o = eq3(yv, 1)
                if cx == "bare":
                    want = inner
                elif cx == "not":
                    want = not3(inner)
                elif cx == "and":
                    want = and3(o, inner)
                elif cx == "or":
                    want = or3(inner, o)
                elif cx == "and_not":
                    want = and3(not3(inner), o)
                elif cx == "case":
                    want = inner is True
                else:
                    want = inner
                got = _Eval({"x": xv, "y": yv, "z": zv}, resolve).ev(ast)
                got = _Eval({}, resolve).truth(got)
                if got != want:
                    raise Violation(
                        f"C07/emptyset/{dname}/{'not_in' if form in ('not_in', 'inv_in') else 'in'}",
                        f"{dname}: {form} against an empty list in context {cx!r} renders {sql!r}, which evaluates to {got} for x={xv} z={zv} y={yv} (expected {want})",
                        observed=got, expected=want,
                    )


def subs(tier):
    return [
        Enumerated("exh", check_exh, cases=_exh_cases),
        Generated("random", check_random, strategy=_random_cases(), quick=4000, thorough=150000),
        Enumerated("emptyset", check_emptyset, cases=_es_cases),
    ]
