"""C17 - lambda statements never reuse stale closure values.

A fixed family of *real* lambda sites (lambda_stmt(), ``+=`` links,
add_criteria() with track_on / track_closure_variables=False, a lambda passed to
where(), with_loader_criteria(lambda cls: ...), DML lambdas) is defined in this
module; a case is a history of 5-40 invocations, each naming a site and the
closure *values* (tagged scalars, strings, IN lists of varying length, a column,
a table, an object whose attributes are read, a module global, the choice of
optional links) drawn by the strategy.

Oracle (differential against the non-lambda construction): every invocation is
executed on an engine with the compiled cache on (shared by the whole history,
together with the lambda system's own caches) and the equivalent statement,
built directly from the current values without any lambda, on a second engine
with identical data and the cache disabled.  Cursor-level SQL text + parameters
and the rows (ORM: loaded state) must be identical.  Sites that use a
documented-unsupported shape (attribute of a plain object, a function call
producing a value) must raise the documented InvalidRequestError - or be
correct - but never run with a stale value.
"""
from __future__ import annotations

import re
import warnings

from hypothesis import strategies as st
from sqlalchemy import delete, exc as sa_exc, func, insert, lambda_stmt, select, update
from sqlalchemy.orm import Session, joinedload, selectinload, with_loader_criteria
from sqlalchemy.sql import lambdas as sa_lambdas

from checks import _stmtgen as G
from checks._stmtgen import A, B, C, ta, tb, tc
from vf.api import Generated, Violation
from vf.sautil import Capture, mem_engine

PROPERTY = "C17"
LEVEL = "exploration"
RULE = (
    "histories of 5-40 invocations over 34 lambda sites defined in checks/c17.py (lambda_stmt, += links chosen outside the lambda, add_criteria with track_on / "
    "track_closure_variables=False, lambda in where(), with_loader_criteria(lambda), ORM lambda_stmt through Session, UPDATE/DELETE/INSERT lambdas, module global, "
    "explicit lambda_cache, documented-error shapes), closure values drawn per invocation: tagged ints/strings, IN lists of length 0-4, column / table choice, object "
    "attributes, optional-link choice. Non-trivial: some site is invoked >=2 times with different scalar values and >=1 structural change (column, table, list length, "
    "link choice) happens between two invocations of one site; distinct = canonical JSON of the history"
)
ASSUMPTIONS = [
    "each closure slot keeps its kind over a history (a literal stays a literal, a column stays a column): the lambda system classifies a slot on first analysis",
    "conditionals live outside the lambdas (documented 'do this'); values needed by a lambda are closure variables, not default arguments or function results",
    "the process-global caches of the lambda system (AnalyzedCode._fns, _closure_per_cache_key) are cleared at the start of each case so that cases are independent",
    "the reference statement runs on a second engine (cache disabled) over identical data; DML histories evolve identically on both",
    "the options of a lambda (track_on, track_bound_values, track_closure_variables, enable_tracking) are a property of its code site: one drawn option set per link code and "
    "history, only options that are sound for that link (tracking switched off only on links that close over no varying value; track_on always names the closure table)",
    "the same lambda code with the same column closure embedded twice in one non-linked select is kept out of generated histories (known finding, pinned)",
    "a None closure value compared with == / != is kept out of the generated histories (known finding: rendered '= NULL' instead of 'IS NULL') and pinned",
]

_GV = 0  # module global read by one site
_PC = re.compile(r"__\[POSTCOMPILE_\w+\]")  # bind names differ between the lambda and the plain form (closure variable name vs column name)


class _Obj:
    def __init__(self, x, y):
        self.x = x
        self.y = y


class P:
    """closure values of one invocation"""

    def __init__(self, d, inv, cache):
        tag = lambda k: inv * 10 + k + 1  # noqa: E731  unique per (invocation, slot)
        self.v1 = G.int_token(d["v"][0], tag(0))
        self.v2 = G.int_token(d["v"][1], tag(1))
        self.v3 = G.int_token(d["v"][2], tag(2))
        self.s = G.str_token(d["s"], tag(3))
        self.lst = [G.int_token(d["v"][0] + i, tag(4 + i)) for i in range(d["n"])]
        self.col = ta.c[["x", "y", "id"][d["c"] % 3]]
        self.attr = [A.x, A.y, A.id][d["c"] % 3]
        self.ti = d["t"] % 3
        self.tbl = G.TABLES[self.ti]
        self.ent = G.ENTS[self.ti]
        self.k = d["k"]  # link choice
        self.small = d["v"][0] % 5
        self.obj = _Obj(self.v1, self.v2)
        self.cache = cache
        self.none = bool(d.get("none"))
        self.same = bool(d.get("same"))
        # options belong to a lambda *site* (code object): one drawn option set per link code and history, never per use
        # (the lambda system analyses a code object once, with the options of its first use)
        self.lo = list(d.get("lo", [0] * 12))
        self.chain = [x[0] if isinstance(x, list) else x for x in d.get("chain", [0, 4])]
        self.s_at = lambda j: G.str_token(d["s"] + j, tag(3)) + "abc"[j % 3]  # noqa: E731
        self.lst_at = lambda j: [x + j for x in self.lst]  # noqa: E731


# ------------------------------------------------------------------ the lambda sites
# each returns (build_lambda_statement, build_plain_statement, flags)
def s_scalar(p):
    v = p.v1
    return (
        lambda: lambda_stmt(lambda: select(ta.c.id, ta.c.x).where(ta.c.x > v).order_by(ta.c.id)),
        lambda: select(ta.c.id, ta.c.x).where(ta.c.x > v).order_by(ta.c.id),
        {},
    )


def s_two_scalars_string(p):
    v, w, s = p.v1, p.v2, p.s
    return (
        lambda: lambda_stmt(lambda: select(ta.c.id).where(ta.c.x.between(v, w) | (ta.c.s < s)).order_by(ta.c.id)),
        lambda: select(ta.c.id).where(ta.c.x.between(v, w) | (ta.c.s < s)).order_by(ta.c.id),
        {},
    )


def s_links(p):
    """+= links; which links are added is decided outside the lambdas"""
    v, w, s, k, n = p.v1, p.v2, p.s, p.k, p.small

    def lam():
        st_ = lambda_stmt(lambda: select(tb.c.id, tb.c.x))
        st_ += lambda q: q.where(tb.c.x >= v)
        if k & 1:
            st_ += lambda q: q.where(tb.c.s != s)
        if k & 2:
            st_ += lambda q: q.where(tb.c.a_id < w)
        st_ += lambda q: q.order_by(tb.c.id)
        if k & 4:
            st_ += lambda q: q.limit(n)
        return st_

    def plain():
        q = select(tb.c.id, tb.c.x).where(tb.c.x >= v)
        if k & 1:
            q = q.where(tb.c.s != s)
        if k & 2:
            q = q.where(tb.c.a_id < w)
        q = q.order_by(tb.c.id)
        if k & 4:
            q = q.limit(n)
        return q

    return lam, plain, {"struct": ("links", k)}


def s_in_list(p):
    lst, v = p.lst, p.v2
    return (
        lambda: lambda_stmt(lambda: select(ta.c.id).where(ta.c.x.in_(lst), ta.c.id != v).order_by(ta.c.id)),
        lambda: select(ta.c.id).where(ta.c.x.in_(lst), ta.c.id != v).order_by(ta.c.id),
        {"struct": ("len", len(lst))},
    )


def s_not_in_list_link(p):
    lst = p.lst

    def lam():
        st_ = lambda_stmt(lambda: select(tc.c.id, tc.c.y))
        st_ += lambda q: q.where(tc.c.y.not_in(lst)).order_by(tc.c.id)
        return st_

    return lam, lambda: select(tc.c.id, tc.c.y).where(tc.c.y.not_in(lst)).order_by(tc.c.id), {"struct": ("len", len(lst))}


def s_column(p):
    col, v = p.col, p.v1
    return (
        lambda: lambda_stmt(lambda: select(ta.c.id, col).where(col > v).order_by(ta.c.id)),
        lambda: select(ta.c.id, col).where(col > v).order_by(ta.c.id),
        {"struct": ("col", col.name)},
    )


def s_column_link(p):
    col, v, w = p.col, p.v1, p.v2

    def lam():
        st_ = lambda_stmt(lambda: select(ta.c.id))
        st_ += lambda q: q.where(col <= v)
        st_ += lambda q: q.where(ta.c.id != w).order_by(col, ta.c.id)
        return st_

    return lam, lambda: select(ta.c.id).where(col <= v).where(ta.c.id != w).order_by(col, ta.c.id), {"struct": ("col", col.name)}


def s_table(p):
    t, v = p.tbl, p.v1
    return (
        lambda: lambda_stmt(lambda: select(t.c.id, t.c.s).where(t.c.id > v).order_by(t.c.id)),
        lambda: select(t.c.id, t.c.s).where(t.c.id > v).order_by(t.c.id),
        {"struct": ("table", t.name)},
    )


def s_table_link_count(p):
    t, s = p.tbl, p.s

    def lam():
        st_ = lambda_stmt(lambda: select(func.count()).select_from(t))
        st_ += lambda q: q.where(t.c.s >= s)
        return st_

    return lam, lambda: select(func.count()).select_from(t).where(t.c.s >= s), {"struct": ("table", t.name)}


def s_where_lambda(p):
    """a lambda passed to where() of a normal select"""
    v, s = p.v1, p.s
    return (
        lambda: select(ta.c.id, ta.c.s).where(lambda: ta.c.x < v).where(lambda: ta.c.s > s).order_by(ta.c.id),
        lambda: select(ta.c.id, ta.c.s).where(ta.c.x < v).where(ta.c.s > s).order_by(ta.c.id),
        {},
    )


def s_where_lambda_column(p):
    col, v = p.col, p.v2
    return (
        lambda: select(ta.c.id).where(lambda: col >= v).order_by(ta.c.id),
        lambda: select(ta.c.id).where(col >= v).order_by(ta.c.id),
        {"struct": ("col", col.name)},
    )


def s_global(p):
    """bound value read from a module global"""
    global _GV
    _GV = p.v3
    val = p.v3
    return (
        lambda: lambda_stmt(lambda: select(tb.c.id).where(tb.c.x < _GV).order_by(tb.c.id)),
        lambda: select(tb.c.id).where(tb.c.x < val).order_by(tb.c.id),
        {},
    )


def s_track_on(p):
    t, v = p.tbl, p.v1
    return (
        lambda: lambda_stmt(lambda: select(t.c.id).where(t.c.id >= v).order_by(t.c.id), track_on=[t]),
        lambda: select(t.c.id).where(t.c.id >= v).order_by(t.c.id),
        {"struct": ("table", t.name)},
    )


def s_obj_notrack(p):
    """documented: attribute values of a plain object with track_closure_variables=False"""
    o = p.obj
    return (
        lambda: lambda_stmt(lambda: select(ta.c.id).where(ta.c.x.between(o.x, o.y)).order_by(ta.c.id), track_closure_variables=False),
        lambda: select(ta.c.id).where(ta.c.x.between(o.x, o.y)).order_by(ta.c.id),
        {},
    )


def s_add_criteria_track_on(p):
    o, t = p.obj, p.tbl

    def lam():
        st_ = lambda_stmt(lambda: select(t.c.id), track_on=[t])
        st_ = st_.add_criteria(lambda q: q.where(t.c.id > o.x).order_by(t.c.id), track_on=[t])
        return st_

    return lam, lambda: select(t.c.id).where(t.c.id > o.x).order_by(t.c.id), {"struct": ("table", t.name)}


def s_lambda_cache(p):
    v, cache = p.v2, p.cache
    return (
        lambda: lambda_stmt(lambda: select(tc.c.id).where(tc.c.y <= v).order_by(tc.c.id), lambda_cache=cache),
        lambda: select(tc.c.id).where(tc.c.y <= v).order_by(tc.c.id),
        {},
    )


def s_limit_offset(p):
    n, m, v = p.small, p.k, p.v1

    def lam():
        st_ = lambda_stmt(lambda: select(ta.c.id).where(ta.c.x != v).order_by(ta.c.id))
        st_ += lambda q: q.limit(n).offset(m)
        return st_

    return lam, lambda: select(ta.c.id).where(ta.c.x != v).order_by(ta.c.id).limit(n).offset(m), {}


def s_obj_attr(p):
    """documented error: closure variable is a plain object and closure tracking is on"""
    o = p.obj
    return (
        lambda: lambda_stmt(lambda: select(ta.c.id).where(ta.c.x > o.x).order_by(ta.c.id)),
        lambda: select(ta.c.id).where(ta.c.x > o.x).order_by(ta.c.id),
        {"doc_error": "Closure variable named"},
    )


def s_func_call(p):
    """documented error: a function from the closure produces the value"""
    v = p.v1

    def get_v():
        return v

    return (
        lambda: lambda_stmt(lambda: select(ta.c.id).where(ta.c.x > get_v()).order_by(ta.c.id)),
        lambda: select(ta.c.id).where(ta.c.x > v).order_by(ta.c.id),
        {"doc_error": "Can't invoke Python callable"},
    )


def s_closure_expr(p):
    """the closure variable is a SQL expression that itself carries bound values"""
    crit = (ta.c.x > p.v1) & (ta.c.s != p.s)
    return (
        lambda: lambda_stmt(lambda: select(ta.c.id).where(crit).order_by(ta.c.id)),
        lambda: select(ta.c.id).where(crit).order_by(ta.c.id),
        {},
    )


def s_closure_expr_link(p):
    col = p.col
    crit = col.between(p.v1, p.v2)
    w = p.v3

    def lam():
        st_ = lambda_stmt(lambda: select(ta.c.id, ta.c.y))
        st_ += lambda q: q.where(crit, ta.c.id != w)
        st_ += lambda q: q.order_by(ta.c.id)
        return st_

    return lam, lambda: select(ta.c.id, ta.c.y).where(crit, ta.c.id != w).order_by(ta.c.id), {"struct": ("col", col.name)}


def s_expr_list(p):
    """closure variables that are lists of SQL elements (columns; criteria carrying bound values)"""
    cols = [ta.c.id, p.col]
    crits = [ta.c.x > p.v1, ta.c.s != p.s]
    return (
        lambda: lambda_stmt(lambda: select(*cols).where(*crits).order_by(ta.c.id)),
        lambda: select(*cols).where(*crits).order_by(ta.c.id),
        {"struct": ("col", p.col.name)},
    )


def s_update(p):
    v, w, s = p.v1, p.v2, p.s

    def lam():
        st_ = lambda_stmt(lambda: ta.update())
        st_ += lambda u: u.values(y=v, s=s)
        st_ += lambda u: u.where(ta.c.x < w)
        st_ += lambda u: u.returning(ta.c.id, ta.c.y, ta.c.s)
        return st_

    return lam, lambda: ta.update().values(y=v, s=s).where(ta.c.x < w).returning(ta.c.id, ta.c.y, ta.c.s), {"dml": True}


def s_delete(p):
    v, lst = p.v1, p.lst

    def lam():
        st_ = lambda_stmt(lambda: delete(tc))
        st_ += lambda d: d.where(tc.c.y < v, tc.c.id.not_in(lst))
        st_ += lambda d: d.returning(tc.c.id)
        return st_

    return lam, lambda: delete(tc).where(tc.c.y < v, tc.c.id.not_in(lst)).returning(tc.c.id), {"dml": True, "struct": ("len", len(lst))}


def s_insert(p):
    v, w, s = p.v1, p.v2, p.s

    def lam():
        st_ = lambda_stmt(lambda: insert(tb))
        st_ += lambda i: i.values(a_id=v, x=w, s=s).returning(tb.c.id, tb.c.a_id, tb.c.x, tb.c.s)
        return st_

    return lam, lambda: insert(tb).values(a_id=v, x=w, s=s).returning(tb.c.id, tb.c.a_id, tb.c.x, tb.c.s), {"dml": True}


def s_orm_links(p):
    v, s, attr, k = p.v1, p.s, p.attr, p.k

    def lam():
        st_ = lambda_stmt(lambda: select(A))
        st_ += lambda q: q.where(attr > v)
        if k & 1:
            st_ += lambda q: q.where(A.s < s)
        st_ += lambda q: q.order_by(A.id)
        return st_

    def plain():
        q = select(A).where(attr > v)
        if k & 1:
            q = q.where(A.s < s)
        return q.order_by(A.id)

    return lam, plain, {"orm": True, "struct": ("attr+links", (attr.key, k & 1))}


def s_orm_entity(p):
    ent, v = p.ent, p.v1
    return (
        lambda: lambda_stmt(lambda: select(ent).where(ent.id > v).order_by(ent.id)),
        lambda: select(ent).where(ent.id > v).order_by(ent.id),
        {"orm": True, "struct": ("entity", ent.__name__)},
    )


def s_orm_where_lambda(p):
    v, w = p.v1, p.v2
    return (
        lambda: select(B).where(lambda: B.x > v).where(lambda: B.a_id != w).order_by(B.id),
        lambda: select(B).where(B.x > v).where(B.a_id != w).order_by(B.id),
        {"orm": True},
    )


def s_loader_criteria(p):
    v, k = p.v1, p.k

    def lam():
        opt = selectinload(A.bs) if k & 1 else joinedload(A.bs)
        return select(A).options(opt, with_loader_criteria(B, lambda cls: cls.x > v)).order_by(A.id)

    def plain():
        opt = selectinload(A.bs) if k & 1 else joinedload(A.bs)
        return select(A).options(opt, with_loader_criteria(B, B.x > v)).order_by(A.id)

    return lam, plain, {"orm": True, "unique": True, "struct": ("loader", k & 1)}


def s_loader_criteria_entity(p):
    v, s = p.v2, p.s
    return (
        lambda: select(B).options(with_loader_criteria(B, lambda cls: (cls.x <= v) | (cls.s > s))).order_by(B.id),
        lambda: select(B).options(with_loader_criteria(B, (B.x <= v) | (B.s > s))).order_by(B.id),
        {"orm": True},
    )


# ---- multi-link statements with per-link options.  The link lambdas are real code; values arrive as closure cells.
def _f_gt(v):
    return lambda q: q.where(ta.c.x > v)


def _f_in(lst):
    return lambda q: q.where(ta.c.y.in_(lst))


def _f_ne(s):
    return lambda q: q.where(ta.c.s != s)


def _f_le(w):
    return lambda q: q.where(ta.c.id <= w)


def _f_order():
    return lambda q: q.order_by(ta.c.id)


def _f_const():
    return lambda q: q.where(ta.c.id > 0)


def _t_gt(t, v):
    return lambda q: q.where(t.c.id > v)


def _t_ne(t, s):
    return lambda q: q.where(t.c.s != s)


def _t_in(t, lst):
    return lambda q: q.where(t.c.id.not_in(lst))


def _t_order(t):
    return lambda q: q.order_by(t.c.id)


# options a link may legitimately carry (documented per lambda): a link that closes over no varying value may switch
# bound-value tracking (or all tracking) off; that must not affect the other links
_OPT_VALUE = [{}, {"track_closure_variables": False}, {}, {}]
_OPT_FREE = [{}, {"track_bound_values": False}, {"enable_tracking": False}, {"track_closure_variables": False}]


def _chain(first_fn, first_opts, links):
    """links: [(fn, opts)].  Returns (build_lambda_statement, build_plain_statement)"""

    def lam():
        st_ = lambda_stmt(first_fn, **first_opts)
        for fn, opts in links:
            st_ = st_.add_criteria(fn, **opts) if opts else st_ + fn
        return st_

    def plain():
        q = first_fn()
        for fn, _ in links:
            q = fn(q)  # the link function applied directly: no LambdaElement involved
        return q

    return lam, plain


def _chain_flags(p, first_opts, links, spec):
    free_off = lambda o: o.get("track_bound_values") is False or o.get("enable_tracking") is False  # noqa: E731
    off_then_value = False
    prev_off = free_off(first_opts)
    for (fn, opts), (kind, _) in zip(links, spec):
        if prev_off and kind in ("gt", "in", "ne", "le"):
            off_then_value = True
        prev_off = free_off(opts)
    return {"struct": ("chain", tuple(sorted(first_opts)), tuple((k, tuple(sorted(o))) for (_, o), (k, _) in zip(links, spec))),
            "chain": True, "chain_off_then_value": off_then_value,
            "chain_nondefault": bool(first_opts) or any(o for _, o in links)}


def s_chain_fixed(p):
    """2-4 links over the fixed table ta, each link with its own drawn (sound) options"""
    first_opts = _OPT_FREE[p.lo[0] % 4]
    links, spec = [], []
    for j, kind in enumerate(p.chain[:3]):
        k = ["gt", "in", "ne", "le", "order", "const"][kind % 6]
        opt = p.lo[1 + kind % 6]
        v = [p.v1, p.v2, p.v3][j % 3]
        fn = {"gt": lambda: _f_gt(v), "in": lambda: _f_in(p.lst_at(j)), "ne": lambda: _f_ne(p.s_at(j)), "le": lambda: _f_le(v),
              "order": _f_order, "const": _f_const}[k]()
        opts = (_OPT_FREE if k in ("order", "const") else _OPT_VALUE)[opt % 4]
        links.append((fn, opts))
        spec.append((k, opt % 4))
    if not any(k == "order" for k, _ in spec):
        links.append((_f_order(), _OPT_FREE[p.lo[5] % 4]))
        spec.append(("order", p.lo[5] % 4))
    lam, plain = _chain(lambda: select(ta.c.id, ta.c.x), first_opts, links)
    return lam, plain, _chain_flags(p, first_opts, links, spec)


def s_chain_table(p):
    """2-4 links closing over a drawn table: default tracking or track_on=[t] with the correct key"""
    t = p.tbl
    first_opts = [{}, {"track_on": [t]}, {"track_bound_values": False}, {"track_on": [t], "track_bound_values": False}][p.lo[7] % 4]
    links, spec = [], []
    for j, kind in enumerate(p.chain[:3]):
        k = ["gt", "ne", "in", "order"][kind % 4]
        opt = p.lo[8 + kind % 4]
        v = [p.v1, p.v2, p.v3][j % 3]
        fn = {"gt": lambda: _t_gt(t, v), "ne": lambda: _t_ne(t, p.s_at(j)), "in": lambda: _t_in(t, p.lst_at(j)), "order": lambda: _t_order(t)}[k]()
        if k == "order":
            opts = [{}, {"track_on": [t]}, {"track_bound_values": False}, {"track_on": [t], "track_bound_values": False}][opt % 4]
        else:
            opts = [{}, {"track_on": [t]}, {}, {"track_on": [t]}][opt % 4]
        links.append((fn, opts))
        spec.append((k, opt % 4))
    if not any(k == "order" for k, _ in spec):
        links.append((_t_order(t), [{}, {"track_on": [t]}, {"track_bound_values": False}, {"track_on": [t], "track_bound_values": False}][p.lo[11] % 4]))
        spec.append(("order", p.lo[11] % 4))
    lam, plain = _chain(lambda: select(t.c.id, t.c.s), first_opts, links)
    fl = _chain_flags(p, first_opts, links, spec)
    fl["struct"] = fl["struct"] + (t.name,)
    return lam, plain, fl


def _crit_gt(col, v):
    return lambda: col > v


def s_same_code_twice(p):
    """the same lambda code embedded twice in one (non-linked) select.  With the same column in both it is a
    known finding (pinned only); generated histories use two different columns"""
    c1 = p.col
    c2 = c1 if p.same else ta.c[{"x": "y", "y": "id", "id": "x"}[c1.name]]
    v, w = p.v1, p.v2
    return (
        lambda: select(ta.c.id).where(_crit_gt(c1, v)).where(_crit_gt(c2, w)).order_by(ta.c.id),
        lambda: select(ta.c.id).where(c1 > v).where(c2 > w).order_by(ta.c.id),
        {"same_twice": p.same, "struct": ("cols", c1.name)},
    )


def s_none_eq(p):
    """known finding (pinned only): a None closure value compared with =="""
    v = None if p.none else p.v1
    return (
        lambda: lambda_stmt(lambda: select(ta.c.id).where(ta.c.y == v).order_by(ta.c.id)),
        lambda: select(ta.c.id).where(ta.c.y == v).order_by(ta.c.id),
        {"none": p.none},
    )


SITES = [
    s_scalar, s_two_scalars_string, s_links, s_in_list, s_not_in_list_link, s_column, s_column_link, s_table, s_table_link_count,
    s_where_lambda, s_where_lambda_column, s_global, s_track_on, s_obj_notrack, s_add_criteria_track_on, s_lambda_cache, s_limit_offset,
    s_closure_expr, s_closure_expr_link, s_expr_list, s_obj_attr, s_func_call, s_update, s_delete, s_insert, s_orm_links, s_orm_entity, s_orm_where_lambda, s_loader_criteria,
    s_loader_criteria_entity, s_none_eq, s_same_code_twice,
    # multi-link chains with per-link options carry extra weight
    s_chain_fixed, s_chain_table, s_chain_fixed, s_chain_table, s_chain_fixed,
]
SAME_SITE = SITES.index(s_same_code_twice)
NONE_SITE = SITES.index(s_none_eq)


# ------------------------------------------------------------------ execution
def _norm_params(p):
    if isinstance(p, dict):
        return tuple(sorted((k, repr(v)) for k, v in p.items()))
    if isinstance(p, (list, tuple)):
        return tuple(repr(v) if not isinstance(v, (list, tuple, dict)) else _norm_params(v) for v in p)
    return repr(p)


def _run(conn, cap, build, flags):
    """build the statement and execute it; returns (outcome, sql list)"""
    n0 = len(cap.rows)
    try:
        with warnings.catch_warnings():
            warnings.simplefilter("ignore")
            stmt = build()
            if flags.get("orm"):
                with Session(bind=conn, join_transaction_mode="create_savepoint") as s:
                    r = s.execute(stmt)
                    if flags.get("unique"):
                        r = r.unique()
                    rows = [G.norm(x) for x in r.all()]
                    s.commit()
            else:
                rows = [tuple(x) for x in conn.execute(stmt).all()]
        out = ("rows", rows)
    except sa_exc.InvalidRequestError as e:
        out = ("InvalidRequestError", str(e)[:120])
    except sa_exc.DBAPIError as e:
        out = ("DBAPIError", type(e).__name__, str(e).split("\n")[0][:150])
    sql = [(s, _norm_params(p)) for s, p, m in cap.rows[n0:] if not s.startswith(("SAVEPOINT", "RELEASE"))]
    return out, sql


def _direct(build, dialect):
    """stand-alone compilation (no compiled cache involved): SQL string and the values in positional order"""
    try:
        with warnings.catch_warnings():
            warnings.simplefilter("ignore")
            c = build().compile(dialect=dialect)
            params = c.params
            return (_PC.sub("__[POSTCOMPILE]", str(c)), [repr(params[n]) for n in (c.positiontup or [])])
    except sa_exc.InvalidRequestError as e:
        return ("InvalidRequestError", str(e)[:80])


def check_history(case, ctx):
    # independent cases: reset the process-global caches of the lambda system
    sa_lambdas.AnalyzedCode._fns.clear()
    sa_lambdas._closure_per_cache_key.clear()
    cache = {}
    pinned = bool(case.get("pinned"))
    eng_l = mem_engine()
    eng_p = mem_engine(query_cache_size=0)
    classes = set()
    per_site = {}
    try:
        for e in (eng_l, eng_p):
            G.metadata.create_all(e)
            with e.connect() as c:
                G.load_data(c, case["data"])
                c.commit()
        cap_l, cap_p = Capture(eng_l), Capture(eng_p)
        invs = []
        for i, inv in enumerate(case["invs"]):
            si = inv["site"] % len(SITES)
            if "site_name" in inv:  # pinned replays name their site, robust against additions to SITES
                si = [f.__name__ for f in SITES].index(inv["site_name"])
            p_ = P(inv, i, cache)
            if p_.none and not pinned:
                if si == NONE_SITE:
                    ctx.exclude("None closure value compared with == replaced by an int (known finding C17/none-closure/eq-renders-bound-null)")
                p_.none = False
            if p_.same and not pinned:
                if si == SAME_SITE:
                    ctx.exclude("same lambda code + same column embedded twice in one select replaced by two different columns (known finding C17/same-lambda-code-twice/bound-values-collide)")
                p_.same = False
            invs.append((i, si, p_))
        # classification before running
        structural = False
        scalar_var = False
        for i, si, p in invs:
            lam, plain, flags = SITES[si](p)
            classes.add("site:" + SITES[si].__name__)
            seen = per_site.setdefault(si, [])
            for (pv, pstruct) in seen:
                if pv != (p.v1, p.v2):
                    scalar_var = True
                if pstruct != flags.get("struct"):
                    structural = True
            seen.append(((p.v1, p.v2), flags.get("struct")))
            if flags.get("chain"):
                classes.add("chain")
                if flags["chain_nondefault"]:
                    classes.add("chain:per-link-options")
                if flags["chain_off_then_value"] and len([1 for (_, ps) in seen if ps == flags.get("struct")]) >= 2:
                    classes.add("chain:tracking-off-link-then-value-link-repeated")
        repeated = [si for si, v in per_site.items() if len(v) >= 2]
        if repeated:
            classes.add("site-repeated")
        if structural:
            classes.add("structural-change")
        ctx.note(case, bool(scalar_var and structural), classes=classes)

        with eng_l.connect() as cl, eng_p.connect() as cp:
            tl, tp = cl.begin(), cp.begin()
            for i, si, p in invs:
                lam, plain, flags = SITES[si](p)
                name = SITES[si].__name__
                got, sql_l = _run(cl, cap_l, lam, flags)
                want, sql_p = _run(cp, cap_p, plain, flags)
                if want[0] != "rows":
                    raise Violation(f"C17/harness/reference-failed/{name}", f"the non-lambda reference statement failed: {want}")
                doc = flags.get("doc_error")
                if got[0] == "InvalidRequestError":
                    if doc and doc in got[1]:
                        ctx.info("documented_error_" + name)
                        continue
                    raise Violation(
                        f"C17/unexpected-InvalidRequestError/{name}",
                        f"invocation {i} of {name} raised InvalidRequestError although the lambda follows the documented rules: {got[1]}",
                        observed=got, expected=want,
                    )
                if doc:
                    ctx.info("documented_error_shape_ran_" + name)
                if flags.get("same_twice") and (sql_l != sql_p or got != want):
                    raise Violation(
                        "C17/same-lambda-code-twice/bound-values-collide",
                        f"invocation {i}: the same lambda code with the same column closure embedded twice in one select: both criteria get the bound value of the last one",
                        observed=(sql_l, got), expected=(sql_p, want),
                    )
                if flags.get("none") and (sql_l != sql_p or got != want):
                    raise Violation(
                        "C17/none-closure/eq-renders-bound-null",
                        f"invocation {i}: a None closure value compared with == renders '= ?' with a NULL parameter where the non-lambda statement renders IS NULL",
                        observed=(sql_l, got), expected=(sql_p, want),
                    )
                if [s for s, _ in sql_l] != [s for s, _ in sql_p]:
                    raise Violation(
                        f"C17/sql-text-differs/{name}",
                        f"invocation {i} of {name}: SQL text differs from the non-lambda statement built from the current closure values",
                        observed=[s for s, _ in sql_l], expected=[s for s, _ in sql_p],
                    )
                if sql_l != sql_p:
                    raise Violation(
                        f"C17/stale-or-wrong-parameters/{name}",
                        f"invocation {i} of {name}: parameters differ from the non-lambda statement built from the current closure values",
                        observed=[p_ for _, p_ in sql_l], expected=[p_ for _, p_ in sql_p],
                    )
                if not flags.get("dml"):
                    # the same statement compiled on its own (print(stmt) / stmt.compile().params): values come from the
                    # statement's own bind objects, not from the cache's extracted parameters
                    d_l, d_p = _direct(lam, eng_l.dialect), _direct(plain, eng_p.dialect)
                    if d_l != d_p:
                        raise Violation(
                            f"C17/direct-compile-differs/{name}",
                            f"invocation {i} of {name}: stmt.compile() of the lambda statement gives other SQL / parameter values than the non-lambda statement",
                            observed=d_l, expected=d_p,
                        )
                if got != want:
                    raise Violation(
                        f"C17/rows-differ/{name}", f"invocation {i} of {name}: rows differ from the non-lambda statement",
                        observed=repr(got)[:1200], expected=repr(want)[:1200],
                    )
            tl.rollback()
            tp.rollback()
        cap_l.close()
        cap_p.close()
    finally:
        eng_l.dispose()
        eng_p.dispose()


_inv = st.fixed_dictionaries(
    {
        "site": st.integers(0, 200),
        "v": st.lists(st.integers(0, 9), min_size=3, max_size=3),
        "s": st.integers(0, 9),
        "n": st.integers(0, 4),
        "c": st.integers(0, 2),
        "t": st.integers(0, 2),
        "k": st.integers(0, 7),
        "none": st.sampled_from([0, 0, 0, 1]),
        "same": st.sampled_from([0, 0, 0, 1]),
    }
)


_pool_entry = st.fixed_dictionaries(
    {
        "site": st.integers(0, 200),
        "chain": st.lists(st.integers(0, 5), min_size=1, max_size=3),
    }
)


@st.composite
def _histories(draw):
    # a small pool of sites per history so that sites recur and share the caches
    pool = draw(st.lists(_pool_entry, min_size=1, max_size=5))
    lo = draw(st.lists(st.integers(0, 3), min_size=12, max_size=12))  # per-history option set of every link code
    n = draw(st.integers(5, 40))
    invs = []
    for _ in range(n):
        inv = draw(_inv)
        inv.update(pool[draw(st.integers(0, len(pool) - 1))])  # site + link chain are fixed per pool entry
        inv["lo"] = lo
        invs.append(inv)
    return {"data": draw(G.data_strategy), "invs": invs}


def subs(tier):
    return [Generated("history", check_history, strategy=_histories(), quick=1500, thorough=40000)]
